---------------------------- MODULE CertStore_MC ----------------------------
(* Bounded universes for CertStore, the declarative reading of "Select as stated", and   *)
(* the two generators: Select cases (one JSON line per certificate set: the set and the  *)
(* prescribed certificate for every server name x strict) and complete watcher histories. *)
EXTENDS CertStore, Json, TLC

\* ---- names and server names
NameSeq == << <<"a", "com">>, <<"*", "com">>, <<"*", "a", "com">>, <<"b", "a", "com">> >>
Names == Range(NameSeq)

MCFold(l) == CASE l = "A" -> "a" [] l = "B" -> "b" [] l = "C" -> "c" [] l = "X" -> "x"
               [] l = "COM" -> "com" [] l = "Com" -> "com" [] OTHER -> l

\* requested server names as spelled: case variants, trailing dots (= trailing empty labels),
\* absent, unknown, one label, two labels below a wildcard, the literal wildcard
SNISeq == << <<>>,
             <<"a", "com">>, <<"A", "COM">>, <<"a", "com", "">>, <<"A", "Com", "", "">>,
             <<"b", "a", "com">>, <<"B", "A", "Com", "">>,
             <<"c", "a", "com">>, <<"C", "A", "COM">>,
             <<"x", "com">>, <<"X", "com", "">>,
             <<"c", "b", "a", "com">>,
             <<"q", "net">>, <<"com">>, <<"*", "com">>, <<"", "">> >>
SNIs == Range(SNISeq)

\* certificates: optional CN plus at most two SANs (in the order of NameSeq), at least one name
SubSeqOf(S) == LET F[i \in 0..Len(NameSeq)] ==
                     IF i = 0 THEN <<>> ELSE IF i \in S THEN Append(F[i-1], NameSeq[i]) ELSE F[i-1]
               IN F[Len(NameSeq)]
CertUniverse == { c \in { [cn |-> cn, sans |-> SubSeqOf(S)] :
                              cn \in Names \cup {<<>>}, S \in {T \in SUBSET (1..Len(NameSeq)) : Cardinality(T) <= 2} } :
                    /\ c.cn \notin Range(c.sans)
                    /\ NamesOf(c) # {} }

VARIABLE set
MaxCerts == 3

\* ---- "as stated", said once more without the operational IF-cascade
Covers(c, n) == \E w \in NamesOf(c) : w[1] = "*" /\ Len(w) = Len(n) /\ Tail(w) = Tail(n)
SelectAsStated ==
    \A req \in SNIs : \A strict \in BOOLEAN :
        LET r == Select(set, req, strict)
            n == Norm(req)
            ex == n # <<>> /\ \E i \in DOMAIN set : n \in NamesOf(set[i])
            wc == n # <<>> /\ \E i \in DOMAIN set : Covers(set[i], n) IN
        /\ r \in 0..Len(set)
        /\ set = <<>> => r = 0
        /\ ex => r # 0 /\ n \in NamesOf(set[r])
        /\ (~ex /\ wc) => r # 0 /\ Covers(set[r], n)
        /\ (set # <<>> /\ ~ex /\ ~wc) => r = IF strict THEN 0 ELSE 1
SpellingBlind == \A r1, r2 \in SNIs : Norm(r1) = Norm(r2) =>
                    \A strict \in BOOLEAN : Select(set, r1, strict) = Select(set, r2, strict)

RECURSIVE Dot(_)
Dot(n) == IF n = <<>> THEN "" ELSE IF Len(n) = 1 THEN n[1] ELSE n[1] \o "." \o Dot(Tail(n))
CertJson(c) == [cn |-> Dot(c.cn), sans |-> [i \in DOMAIN c.sans |-> Dot(c.sans[i])]]
\* The listener has a past: before s another set was published on it.  The register holds the
\* LAST published set only (CertStore!RegIsLastGood), so what a client is presented depends on
\* s alone -- also when the earlier set was larger, carried the same names in certificates
\* that have been renewed since ("old"), or a certificate that has been withdrawn ("gone").
\* Two shapes, by the length of s: the renewed predecessors followed by a withdrawn
\* certificate, or the withdrawn one first (then the LAST entry of the longer predecessor is
\* the old certificate of the last name of s).
Withdrawn(s) == {c \in CertUniverse : WellFormed(Append(s, c))}
PrevOf(s) ==
    LET old == [i \in DOMAIN s |-> [cn |-> Dot(s[i].cn), sans |-> [k \in DOMAIN s[i].sans |-> Dot(s[i].sans[k])], mint |-> "old"]]
        W == Withdrawn(s) IN
    IF W = {} THEN old
    ELSE LET g == CHOOSE c \in W : \A d \in W : Len(c.sans) <= Len(d.sans)
             gone == <<[cn |-> Dot(g.cn), sans |-> [k \in DOMAIN g.sans |-> Dot(g.sans[k])], mint |-> "gone"]>> IN
         IF Len(s) % 2 = 1 THEN old \o gone ELSE gone \o old
SelJson(s) == [set |-> [i \in DOMAIN s |-> CertJson(s[i])],
               prev |-> PrevOf(s),
               q   |-> [k \in DOMAIN SNISeq |-> [sni |-> SNISeq[k],
                                                  lax |-> Select(s, SNISeq[k], FALSE),
                                                  strict |-> Select(s, SNISeq[k], TRUE)]]]

SelInit == Init /\ set = <<>>
AddCert(c) == /\ Len(set) < MaxCerts /\ WellFormed(Append(set, c))
              /\ set' = Append(set, c)
              /\ PrintT(ToJson(SelJson(set')))
              /\ UNCHANGED vars
SelNext == \E c \in CertUniverse : AddCert(c)
SelSpec == SelInit /\ [][SelNext]_<<vars, set>>

\* ---- the state machine
MCReqs == { <<"a", "com">> }
MCInit == Init /\ set = <<>>
\* one named disjunct per action of the module, so that TLC's coverage is reported per action
ALoadGood     == (\E s \in Good : LoadGood(s)) /\ UNCHANGED set
ALoadRenamed  == (\E s \in Good : LoadRenamed(s)) /\ UNCHANGED set
ALoadSame     == LoadSame /\ UNCHANGED set
ALoadUnusable == (\E u \in Unusable : LoadUnusable(u)) /\ UNCHANGED set
ALoadError    == (\E e \in Failing : LoadError(e)) /\ UNCHANGED set
APublish      == Publish /\ UNCHANGED set
APublish2     == Publish2 /\ UNCHANGED set
ASleep        == Sleep /\ UNCHANGED set
AHsInv        == (\E c \in Clients : \E r \in Reqs : HsInv(c, r)) /\ UNCHANGED set
AHsLoad       == (\E c \in Clients : HsLoad(c)) /\ UNCHANGED set
AHsSelect     == (\E c \in Clients : HsSelect(c)) /\ UNCHANGED set
MCNext == ALoadGood \/ ALoadRenamed \/ ALoadSame \/ ALoadUnusable \/ ALoadError \/ APublish \/ APublish2 \/ ASleep
          \/ AHsInv \/ AHsLoad \/ AHsSelect
MCSpec == MCInit /\ [][MCNext]_<<vars, set>>
\* hist and the time stamps are ghosts of the generator; the MC run abstracts them away
MCView == <<reg, wpc, pend, last, clock - loadAt, pubSince, nloads, hs, cur, spin, badReg>>

\* complete watcher histories (no handshakes: Clients = {})
GenWNext == /\ WatcherNext /\ UNCHANGED set
            /\ IF nloads' = MaxLoads /\ wpc' = "load" THEN PrintT(ToJson([hist |-> hist'])) ELSE TRUE
GenWSpec == MCInit /\ [][GenWNext]_<<vars, set>>

\* ---- watcher histories for the REAL sources (path / http): the contents are concrete
\* certificate sets, so that after every step the certificate a client is presented can be
\* prescribed: Select(set in the register, name, strict)  (RegIsLastGood, BadKeepsGood,
\* TakesEffect say which set is in the register).
\* A certificate of a source carries, besides its names, the file it lives in: file stem,
\* layout ("pair": <stem>-cert.pem + <stem>-key.pem, "combined": <stem>.pem) and which minted
\* key pair it is.  Alphabetical file order = order of the set (documentation).
SC(cn, sans, file, layout, mint) == [cn |-> cn, sans |-> sans, file |-> file, layout |-> layout, mint |-> mint]
SrcA == << SC(<<"a", "com">>, <<>>, "1", "pair", "A1"),
           SC(<<"b", "a", "com">>, <<>>, "2", "combined", "A2"),
           SC(<<>>, << <<"*", "a", "com">> >>, "3", "pair", "A3"),
           SC(<<"x", "com">>, <<>>, "9", "pair", "A9") >>
\* A with certificate 2 deleted on purpose: b.a.com is now covered by the wildcard
SrcAs == << SrcA[1], SrcA[3], SrcA[4] >>
\* renewed certificates, other order, other owner of the names
SrcB == << SC(<<"x", "com">>, <<>>, "1", "pair", "B1"),
           SC(<<>>, << <<"*", "com">> >>, "2", "combined", "B2"),
           SC(<<"a", "com">>, <<>>, "3", "pair", "B3"),
           SC(<<"b", "a", "com">>, <<>>, "9", "pair", "B9") >>
\* A with the file names of its first and last certificate exchanged (CertStore!Renamed): the same
\* seven files, the same PEM blocks; x.com is now first = the default, a.com last
SrcAr == << SC(SrcA[4].cn, SrcA[4].sans, "1", "pair", "A9"), SrcA[2], SrcA[3],
            SC(SrcA[1].cn, SrcA[1].sans, "9", "pair", "A1") >>
SrcSetOf(c) == CASE c = "A" -> SrcA [] c = "As" -> SrcAs [] c = "Ar" -> SrcAr [] c = "B" -> SrcB [] OTHER -> <<>>
SrcSNISeq == << <<>>, <<"a", "com">>, <<"A", "COM", "">>, <<"b", "a", "com">>, <<"c", "a", "com">>,
                <<"x", "com">>, <<"q", "net">> >>

Max(S) == CHOOSE x \in S : \A y \in S : y <= x
RegAfter(h, i) == LET P == {j \in 1..i : h[j].pub # None} IN IF P = {} THEN None ELSE h[Max(P)].pub
SrcCertJson(c) == [cn |-> Dot(c.cn), sans |-> [i \in DOMAIN c.sans |-> Dot(c.sans[i])],
                   file |-> c.file, layout |-> c.layout, mint |-> c.mint]
SrcSetJson(s) == [i \in DOMAIN s |-> SrcCertJson(s[i])]
SrcStepJson(h, i) ==
    LET r == RegAfter(h, i) IN
    [kind |-> h[i].kind, content |-> h[i].content, pub |-> h[i].pub, at |-> h[i].at, reg |-> r,
     q |-> [k \in DOMAIN SrcSNISeq |-> [sni |-> SrcSNISeq[k],
                                         lax |-> Select(SrcSetOf(r), SrcSNISeq[k], FALSE),
                                         strict |-> Select(SrcSetOf(r), SrcSNISeq[k], TRUE)]]]
SrcHistJson(h) == [sets |-> [c \in Good |-> SrcSetJson(SrcSetOf(c))],
                   hist |-> [i \in DOMAIN h |-> SrcStepJson(h, i)]]
GenSNext == /\ WatcherNext /\ UNCHANGED set
            /\ IF nloads' = MaxLoads /\ wpc' = "load" THEN PrintT(ToJson(SrcHistJson(hist'))) ELSE TRUE
GenSSpec == MCInit /\ [][GenSNext]_<<vars, set>>

\* ---- listeners (main's wiring): several listeners may name the same certificate source; each
\* has its own strictness ("strict and non-strict listeners").  What a client of listener i is
\* presented is Select(set of ITS source, name, ITS strict flag), whatever other listeners exist
\* and in whatever order they were configured.
WireSrcContent(src) == IF src = "web" THEN "A" ELSE "B"
WireListenerSet == {[src |-> s, strict |-> b] : s \in {"web", "api"}, b \in BOOLEAN}
WireConfigs == {<<a, b>> : a, b \in WireListenerSet} \cup {<<a, b, c>> : a, b, c \in WireListenerSet}
\* the strictness in force on listener i (a deviation would take it from elsewhere: SharedStrict)
Effective(ls, i) == ls[i].strict
SharedStrict(ls, i) == ls[MinOf({j \in DOMAIN ls : ls[j].src = ls[i].src})].strict
Presented(ls, i, sni) == Select(SrcSetOf(WireSrcContent(ls[i].src)), sni, Effective(ls, i))
WireAsStated == \A ls \in WireConfigs : \A i \in DOMAIN ls : \A k \in DOMAIN SrcSNISeq :
                   Presented(ls, i, SrcSNISeq[k]) = Select(SrcSetOf(WireSrcContent(ls[i].src)), SrcSNISeq[k], ls[i].strict)
WireJson(ls) == [listeners |-> [i \in DOMAIN ls |-> [src |-> ls[i].src, strict |-> IF ls[i].strict THEN 1 ELSE 0,
                                                      q |-> [k \in DOMAIN SrcSNISeq |-> [sni |-> SrcSNISeq[k], want |-> Presented(ls, i, SrcSNISeq[k])]]]],
                 sets |-> [web |-> SrcSetJson(SrcSetOf("A")), api |-> SrcSetJson(SrcSetOf("B"))]]
WirePrint == \A ls \in WireConfigs : set = <<>> /\ PrintT(ToJson(WireJson(ls)))
WireInit == MCInit /\ WirePrint
WireSpec == WireInit /\ [][UNCHANGED <<vars, set>>]_<<vars, set>>
=============================================================================
