SPECIFICATION TSpec
CONSTANTS
  Inst <- MCInst3
  Node = {"n1", "n2"}
  Services = {"A", "B"}
  NodeOf <- MCNodeOf3
  SvcOf <- MCSvcOf3
  Manual <- MCManual
  MaxChanges = 100000000
  MaxFaults = 100000000
  PoisonTables = FALSE
CONSTRAINT HW
INVARIANTS TypeOK QuiescentCorrect LastGood Isolation RoutedWerePassing
POSTCONDITION Accepted
CHECK_DEADLOCK FALSE
