SPECIFICATION GSpec
CONSTANTS
  BadNames <- MCBadNames
  BadWeights <- MCBadWeights
  BadGlobs <- MCBadGlobs
  QuoteTokens <- MCQuoteTokens
  LowerHost <- MCLowerHost
  MaxOpts = 2
  MaxTags = 2
INVARIANT OnlyExpressibleRouted
CHECK_DEADLOCK FALSE
