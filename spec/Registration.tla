---------------------------- MODULE Registration ----------------------------
(***************************************************************************)
(* Property C14: what a Consul catalog entry (service name, address, port, *)
(* one routing tag "urlprefix-<prefix>[ <options>]" and other tags) means  *)
(* as a route command.  Tokens are concrete strings; the classes that      *)
(* matter (white space in the name, non-finite or non-numeric weights,     *)
(* double quotes, bad glob patterns) are recognised by lookup sets that    *)
(* the bounded universe (Registration_MC) provides.                        *)
(*                                                                         *)
(*   Register(reg) -> Build -> Parse -> Accepted(target) | Dropped         *)
(*                                                                         *)
(* Expressible(reg): the registration can be written in the command        *)
(* language.  Denote(reg): the target the accepted command must denote.    *)
(* An inexpressible registration is Dropped: it contributes nothing and,   *)
(* in ControlPlane (state "bad"), takes nothing else with it.              *)
(***************************************************************************)
EXTENDS Integers, Sequences, FiniteSets

CONSTANTS
    BadNames,       \* service names that are empty or contain white space
    BadWeights,     \* weight option values that are not finite decimal numbers
    BadGlobs,       \* prefixes whose path is not a valid glob pattern
    QuoteTokens,    \* tags / options containing a double quote
    LowerHost       \* function: prefix as registered -> prefix with the host part in lower case (identity elsewhere)

SeqToSet(q) == {q[i] : i \in DOMAIN q}
OptKey(o) == o.k
\* an option is a record [k |-> key, v |-> value, txt |-> "k=v" as registered]
Opt(k, v) == [k |-> k, v |-> v, txt |-> k \o "=" \o v]

HasOpt(reg, k) == \E i \in DOMAIN reg.opts : reg.opts[i].k = k
\* the LAST occurrence wins for proto/weight/redirect (they are assigned in order)
LastOpt(reg, k) == LET I == {i \in DOMAIN reg.opts : reg.opts[i].k = k} IN
                   reg.opts[CHOOSE i \in I : \A j \in I : j <= i]

Expressible(reg) ==
    /\ reg.name \notin BadNames
    /\ reg.prefix \notin BadGlobs
    /\ HasOpt(reg, "weight") => LastOpt(reg, "weight").v \notin BadWeights
    /\ \A i \in DOMAIN reg.tags : reg.tags[i] \notin QuoteTokens
    /\ \A i \in DOMAIN reg.opts : reg.opts[i].txt \notin QuoteTokens

Scheme(reg) == IF HasOpt(reg, "proto") /\ LastOpt(reg, "proto").v \in {"tcp", "https", "grpc", "grpcs"}
               THEN LastOpt(reg, "proto").v ELSE "http"
\* the consul node address is used when the service registered no address of its own
EffAddr(reg) == IF reg.addr = "" THEN reg.nodeaddr ELSE reg.addr
HostPort(reg) == (IF reg.v6 THEN "[" \o EffAddr(reg) \o "]" ELSE EffAddr(reg)) \o ":" \o reg.port
\* destination: protocol + address; a redirect registration denotes its target URL instead
Dst(reg) == IF HasOpt(reg, "redirect")
            THEN [scheme |-> "", hostport |-> "", url |-> LastOpt(reg, "redirect").url]
            ELSE [scheme |-> Scheme(reg), hostport |-> HostPort(reg), url |-> ""]
\* options that stay options of the target: everything except proto=<known>, weight=, and
\* redirect=<code>,<url> which becomes redirect=<code>
KeptOpts(reg) == {IF reg.opts[i].k = "redirect" THEN "redirect=" \o reg.opts[i].code ELSE reg.opts[i].txt :
                    i \in {j \in DOMAIN reg.opts :
                             /\ reg.opts[j].k # "weight"
                             /\ ~(reg.opts[j].k = "proto" /\ reg.opts[j].v \in {"tcp", "https", "grpc", "grpcs"})}}

Denote(reg) == [svc    |-> reg.name,
                src    |-> LowerHost[reg.prefix],
                dst    |-> Dst(reg),
                weight |-> IF HasOpt(reg, "weight") THEN LastOpt(reg, "weight").v ELSE "",
                tags   |-> reg.tags,
                opts   |-> KeptOpts(reg)]

\* ---- the little pipeline (one registration at a time)
VARIABLES pc, reg, result
vars == <<pc, reg, result>>
NoReg == [name |-> "", addr |-> "", nodeaddr |-> "10.9.9.9", v6 |-> FALSE, port |-> "", prefix |-> "", opts |-> <<>>, tags |-> <<>>]
Init == pc = "idle" /\ reg = NoReg /\ result = [kind |-> "none"]
Register(r) == pc = "idle" /\ pc' = "built" /\ reg' = r /\ UNCHANGED result
ParseOK   == pc = "built" /\ Expressible(reg) /\ pc' = "done" /\ result' = [kind |-> "accepted", target |-> Denote(reg)] /\ UNCHANGED reg
ParseDrop == pc = "built" /\ ~Expressible(reg) /\ pc' = "done" /\ result' = [kind |-> "dropped"] /\ UNCHANGED reg
OnlyExpressibleRouted == (pc = "done" /\ result.kind = "accepted") => Expressible(reg)
=============================================================================
