---------------------------- MODULE RouteLang_MC ----------------------------
(* Bounded universes for RouteLang and the case generator (one JSON line per examined   *)
(* transition: the shortest script reaching the source table, the command, and the      *)
(* table / rendering the specification prescribes).                                     *)
EXTENDS RouteLang, Json, TLC

\* "H.com" is the upper-case spelling of "h.com"; keys are host-lowered.
MCSrcsSmall == { [src |-> "/",      key |-> "/"],
                 [src |-> "h.com/", key |-> "h.com/"],
                 [src |-> "H.com/", key |-> "h.com/"] }
MCSrcsFull  == MCSrcsSmall \cup
               { [src |-> "H.COM",   key |-> "h.com/"],
                 [src |-> "h.com",   key |-> "h.com/"],
                 [src |-> "h.com/a", key |-> "h.com/a"],
                 [src |-> "H.COM/a", key |-> "h.com/a"],
                 [src |-> "h.com/A", key |-> "h.com/A"],
                 [src |-> ":1234",   key |-> ":1234"] }
\* a source without a slash is a host with path "/" ("route weight vault vault.company.com weight 1 ..." in the docs)
MCSrcsMid   == MCSrcsSmall \cup
               { [src |-> "h.com/a", key |-> "h.com/a"],
                 [src |-> ":1234",   key |-> ":1234"],
                 [src |-> "H.COM",   key |-> "h.com/"] }
MCW == { QZero, Q(1, 5), Q(1, 2) }
MCWFull == MCW \cup { Q(-1, 2) }    \* a negative weight is a legal spelling of "dynamic"
MCTagSeqs == { <<>>, <<"t1">>, <<"t1", "t2">> }
MCOptsSmall == { "" }
MCOptsFull  == { "", "strip=/x" }

RouteJson(r) == [i \in DOMAIN r |-> [svc |-> r[i].svc, dst |-> r[i].dst, fwn |-> r[i].fw.n, fwd |-> r[i].fw.d,
                                      tags |-> r[i].tags, opts |-> r[i].opts,
                                      ewn |-> EffWeight(r, i).n, ewd |-> EffWeight(r, i).d]]
TableJson(t) == [k \in DOMAIN t |-> RouteJson(t[k])]
CmdJson(c) == [op |-> c.op, svc |-> c.svc, src |-> c.src, dst |-> c.dst, wn |-> c.w.n, wd |-> c.w.d, tags |-> c.tags, opts |-> c.opts]
ScriptJson(h) == [i \in DOMAIN h |-> CmdJson(h[i])]

\* VIEW tbl: a table is expanded once, from the first (= a shortest) script that reaches it
View == tbl

GenStep(c) == /\ Step(c)
              /\ PrintT(ToJson([script |-> ScriptJson(hist'),
                                table  |-> TableJson(tbl'),
                                twins  |-> ~NoWeightTwins(tbl'),
                                rt     |-> TableJson(Prune(Rendered(tbl')))]))
GenNext == \E c \in Cmds : GenStep(c)
GenSpec == Init /\ [][GenNext]_vars
=============================================================================
