---------------------------- MODULE TableSwap_Trace ----------------------------
EXTENDS TableSwap, Json, IOUtils, TLC
VARIABLE l
TraceLog == ndJsonDeserialize(IOEnv.VERIF_TRACE)
E == TraceLog[l]
Ev(e) == l <= Len(TraceLog) /\ TraceLog[l].ev = e /\ l' = l + 1
TInit == TLCSet(1, 0) /\ Init /\ l = 1
TWInv == Ev("WInv") /\ WInv(E.v)
TWRet == Ev("WRet") /\ WRet
TRInv == Ev("RInv") /\ RInv(E.g)
\* every probe of the lookup must be answered by the version the lookup loaded
TRRet == /\ Ev("RRet") /\ RRet(E.g)
         /\ \A p \in DOMAIN E.res : E.res[p] = snap[E.g]
\* a build hands back the table of its own text: res is the version all probes of the built table answer with
TBInv == Ev("BInv") /\ BInv(E.g, E.v)
TBRet == Ev("BRet") /\ BRet(E.g) /\ E.res = btext[E.g]
Silent == l' = l /\ (WLin \/ \E r \in Readers : RLin(r))
TNext == TWInv \/ TWRet \/ TRInv \/ TRRet \/ TBInv \/ TBRet \/ Silent
TSpec == TInit /\ [][TNext]_<<vars, l>>
HW == TLCSet(1, IF TLCGet(1) < l THEN l ELSE TLCGet(1))
Accepted == TLCGet(1) = Len(TraceLog) + 1
=============================================================================
