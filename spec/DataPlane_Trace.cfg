SPECIFICATION TSpec
CONSTANTS
  Procs = {0, 1, 2, 3, 4, 5}
  Ring <- TRing
  Patterns = {}
  Paths = {}
  Addrs = {}
  CacheSize = 2
  MaxOps = 100000000
  FineGrain = FALSE
CONSTRAINT HW
INVARIANTS OwnLocation OwnDecision CacheBounded
POSTCONDITION Accepted
CHECK_DEADLOCK FALSE
