SPECIFICATION TSpec
CONSTANTS
  Procs = {0, 1, 2, 3, 4, 5}
  Ring <- TRing
  Patterns = {}
  Paths = {}
  CacheSize = 2
  MaxOps = 100000000
  FineGrain = FALSE
CONSTRAINT HW
INVARIANTS OwnLocation CacheBounded
POSTCONDITION Accepted
CHECK_DEADLOCK FALSE
