-------------------------- MODULE DynListeners_Gen --------------------------
(* Histories for the S->C replay of DynListeners: a macro step is one change of the     *)
(* world (a new table, a foreign bind attempt, a foreign release) followed by a full     *)
(* refresh round, or one client operation on a settled system (open and keep a tunnel,   *)
(* probe a kept tunnel, drop it).  The outcome of a macro step is fixed by the           *)
(* invariants QuiescentExact / NoCollateralTeardown and the liveness property            *)
(* EventuallyExact that TLC checks on DynListeners itself; every generated state must    *)
(* be a settled state of the design (GenConsistent).                                     *)
EXTENDS DynListeners_MC, Json, Sequences
CONSTANTS MaxSteps,
          Shape         \* <<>> = any history; otherwise the kinds of the macro steps, in order
VARIABLE ghist

GenInit == Init /\ ghist = <<>>

\* what a client that connects to ip:p on a settled system gets
Outcome(t, f, ls, ip, p) ==
    IF p \in f THEN {"foreign"}
    ELSE IF p \in ls THEN (IF Lookup(t, ip, p) = {} THEN {"closed"} ELSE Lookup(t, ip, p))
    ELSE {"refused"}
Expect(t, f, ls) == [listen |-> ls, foreign |-> f,
                     out |-> [ip \in Ips |-> [p \in Ports |-> Outcome(t, f, ls, ip, p)]]]

Settle(t, f) ==
    /\ lsn' = Wanted(t) \ f /\ lastPorts' = Wanted(t) /\ ports' = Wanted(t)
    /\ dead' = dead \cup (IF CloseKillsTunnels THEN {c \in Clients : cst[c] = "held" /\ cport[c] \in lsn \ Wanted(t)} ELSE {})
    /\ UNCHANGED <<pc, toClose, todo, killing, spawned, crashed, dirty, orph, cseen, nchg, nfor>>

Rec(kind, t, p, ip, c, res) ==
    [kind |-> kind, tbl |-> t, p |-> p, ip |-> ip, c |-> c, res |-> res, exp |-> Expect(table', foreign', lsn')]
Emit(r) == /\ Len(ghist) < MaxSteps /\ ghist' = Append(ghist, r)
           /\ (Shape = <<>> \/ (Len(ghist) < Len(Shape) /\ r.kind = Shape[Len(ghist) + 1]))
           /\ (Len(ghist') = MaxSteps => PrintT(ToJson([steps |-> ghist'])))

GTable(t) == /\ t # table /\ table' = t /\ foreign' = foreign /\ Settle(t, foreign)
             /\ UNCHANGED cvars /\ Emit(Rec("table", t, "", "", "", {}))
GFBind(p) == /\ p \notin foreign
             /\ IF p \in lsn THEN foreign' = foreign ELSE foreign' = foreign \cup {p}
             /\ table' = table /\ Settle(table, foreign') /\ UNCHANGED cvars
             /\ Emit(Rec("fbind", {}, p, "", "", IF p \in lsn THEN {"inuse"} ELSE {"ok"}))
GFRel(p) == /\ p \in foreign /\ foreign' = foreign \ {p} /\ table' = table /\ Settle(table, foreign')
            /\ UNCHANGED cvars /\ Emit(Rec("frel", {}, p, "", "", {}))
GHold(c, ip, p) == /\ cst[c] = "idle" /\ p \in lsn /\ Lookup(table, ip, p) # {}
                   /\ cst' = [cst EXCEPT ![c] = "held"] /\ cport' = [cport EXCEPT ![c] = p] /\ cip' = [cip EXCEPT ![c] = ip]
                   /\ UNCHANGED <<cres, table, foreign, lsn, loopvars, spawned, crashed, dirty, orph, dead, cseen, nchg, nfor>>
                   /\ Emit(Rec("hold", {}, p, ip, c, Lookup(table, ip, p)))
GCheck(c) == /\ cst[c] = "held"
             /\ cst' = [cst EXCEPT ![c] = IF c \in dead THEN "idle" ELSE "held"] /\ dead' = dead \ {c}
             /\ UNCHANGED <<cport, cip, cres, table, foreign, lsn, loopvars, spawned, crashed, dirty, orph, cseen, nchg, nfor>>
             /\ Emit(Rec("check", {}, cport[c], cip[c], c, IF c \in dead THEN {"broken"} ELSE {"alive"}))
GDrop(c) == /\ cst[c] = "held" /\ cst' = [cst EXCEPT ![c] = "idle"] /\ dead' = dead \ {c}
            /\ UNCHANGED <<cport, cip, cres, table, foreign, lsn, loopvars, spawned, crashed, dirty, orph, cseen, nchg, nfor>>
            /\ Emit(Rec("drop", {}, cport[c], cip[c], c, {}))

GenNext == \/ \E t \in SUBSET Inst : GTable(t)
           \/ \E p \in Ports : GFBind(p) \/ GFRel(p)
           \/ \E c \in Clients : (\E ip \in Ips, p \in Ports : GHold(c, ip, p)) \/ GCheck(c) \/ GDrop(c)
GenSpec == GenInit /\ [][GenNext]_<<vars, ghist>>

\* every generated state is a settled state of the design and satisfies its invariants
GenConsistent == Settled /\ QuiescentExact /\ Exclusive /\ OnlyWanted /\ TypeOK
=============================================================================
