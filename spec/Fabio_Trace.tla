---------------------------- MODULE Fabio_Trace ----------------------------
(* Validation of an execution recorded from the REAL fabio binary: the fake Consul logs registry *)
(* changes and every query the binary makes, the clients log request invocations and answers.    *)
(* Table installs are not observable from outside the process: they are silent steps here.       *)
EXTENDS Fabio_MC, IOUtils
VARIABLE l
TraceLog == ndJsonDeserialize(IOEnv.VERIF_TRACE)
AbsSvc(n) == IF n = "svc-a" THEN "A" ELSE IF n = "svc-b" THEN "B" ELSE n
E == TraceLog[l]
Ev(e) == l <= Len(TraceLog) /\ TraceLog[l].ev = e /\ l' = l + 1
H == TRUE
R == UNCHANGED rvars

TInit == TLCSet(1, 0) /\ FInit /\ l = 1
TReg     == /\ Ev("Reg") /\ RegChange /\ H /\ R
            /\ inst' = [i \in Inst |-> E.inst[i]] /\ node' = [n \in Node |-> E.node[n]]
            /\ kv' = E.kv /\ hidx' = E.hidx /\ kidx' = E.kidx
THReq    == Ev("HReq") /\ WsIssue /\ wsLast = E.idx /\ H /\ R
THResp   == Ev("HResp") /\ WsHealth /\ wsLast' = E.idx /\ H /\ R
TCResp   == Ev("CResp") /\ WsCatalog(AbsSvc(E.svc)) /\ H /\ R
TCFail   == Ev("CFail") /\ WsCatalogFail(AbsSvc(E.svc)) /\ R
TKReq    == Ev("KReq") /\ WkIssue /\ wkLast = E.idx /\ H /\ R
TKResp   == Ev("KResp") /\ WkAnswer /\ wkLast' = E.idx /\ wkVal' = E.val /\ H /\ R
TReqInv  == Ev("ReqInv") /\ ReqInv(E.c, E.p)
TReqRet  == Ev("ReqRet") /\ ReqRet(E.c, E.res)
Silent   == /\ l' = l
            /\ \/ (BeRecvMan \/ BeSame \/ BeReject \/ BeRecvSvc \/ BeInstall) /\ R
               \/ \E c \in Clients : ReqLookup(c)
TNext == TReg \/ THReq \/ THResp \/ TCResp \/ TCFail \/ TKReq \/ TKResp \/ TReqInv \/ TReqRet \/ Silent
TSpec == TInit /\ [][TNext]_<<fvars, l>>
HW == TLCSet(1, IF TLCGet(1) < l THEN l ELSE TLCGet(1))
Accepted == TLCGet(1) = Len(TraceLog) + 1
=============================================================================
