---------------------------- MODULE Fabio ----------------------------
(***************************************************************************)
(* Top-level composition: the control plane (ControlPlane: registry, both  *)
(* consul watchers, update loop, published table) together with HTTP       *)
(* clients whose requests are routed by the table that is active when the  *)
(* request is looked up.                                                   *)
(*                                                                         *)
(*   ReqInv(c, p)   client c sends a request for prefix p                   *)
(*   ReqLookup(c)   the proxy loads the active table (one atomic load)     *)
(*   ReqRet(c, r)   the client has its answer: the instance that served it *)
(*                  or "noroute"                                           *)
(*                                                                         *)
(* End-to-end property (C01 o C02 o C03 o C07): a request is answered by   *)
(* instance i only if i is in a table that was active during the request,  *)
(* and every instance of an active table was passing in the health         *)
(* snapshot that table was built from.  An instance that was unhealthy in  *)
(* every snapshot taken since before the request began never answers it.   *)
(***************************************************************************)
EXTENDS ControlPlane

CONSTANTS Clients, Prefixes, PrefixOf   \* PrefixOf: [Inst \cup {"X"} -> SUBSET Prefixes]

VARIABLES rpc, rpath, rsnap, rres       \* per client: pc, requested prefix, table loaded, result
rvars == <<rpc, rpath, rsnap, rres>>
fvars == <<vars, rvars>>

FInit == /\ Init
         /\ rpc = [c \in Clients |-> "idle"] /\ rpath = [c \in Clients |-> ""]
         /\ rsnap = [c \in Clients |-> {}] /\ rres = [c \in Clients |-> ""]

\* the control plane's own steps (ControlPlane keeps the snapshot history svcSnap / activeSnap)
CP == Next

Serve(t, p) == LET s == {i \in t : p \in PrefixOf[i]} IN IF s = {} THEN {"noroute"} ELSE s

ReqInv(c, p) == /\ rpc[c] = "idle" /\ rpc' = [rpc EXCEPT ![c] = "sent"] /\ rpath' = [rpath EXCEPT ![c] = p]
                /\ UNCHANGED <<vars, rsnap, rres>>
ReqLookup(c) == /\ rpc[c] = "sent" /\ rpc' = [rpc EXCEPT ![c] = "looked"] /\ rsnap' = [rsnap EXCEPT ![c] = active]
                /\ UNCHANGED <<vars, rpath, rres>>
ReqRet(c, r) == /\ rpc[c] = "looked" /\ r \in Serve(rsnap[c], rpath[c])
                /\ rpc' = [rpc EXCEPT ![c] = "idle"] /\ rres' = [rres EXCEPT ![c] = r]
                /\ UNCHANGED <<vars, rpath, rsnap>>
Req == \E c \in Clients : (\E p \in Prefixes : ReqInv(c, p)) \/ ReqLookup(c) \/ (\E r \in Inst \cup {"X", "noroute"} : ReqRet(c, r))

FNext == (CP /\ UNCHANGED rvars) \/ Req
FSpec == FInit /\ [][FNext]_fvars

\* (RoutedWerePassing - every routed instance was passing in the snapshot its table was built from - is
\* ControlPlane's invariant and is checked here too)
\* at quiescence a request is answered exactly as the registry prescribes
QuiescentServe == \A c \in Clients : (Quiescent /\ Valid(RegCfg, kv) /\ ~svcDegraded /\ rpc[c] = "sent")
                     => Serve(active, rpath[c]) = Serve(TableOf(RegCfg, kv), rpath[c])
=============================================================================
