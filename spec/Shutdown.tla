------------------------------ MODULE Shutdown ------------------------------
(***************************************************************************)
(* Bounded, draining shutdown of fabio's listeners (property C18),         *)
(* transcribed from the property statement and the documentation of        *)
(* proxy.shutdownwait ("time for graceful shutdown"):                      *)
(*                                                                         *)
(*   After shutdown begins no listener accepts new connections; every      *)
(*   request, call or tunnel already in flight that finishes within the    *)
(*   configured wait completes normally; shutdown itself returns no later  *)
(*   than that wait (plus scheduling slack) whatever work is still open,   *)
(*   including a gRPC stream or TCP tunnel that never ends.                *)
(*                                                                         *)
(* Discrete clock.  A server is identified by its kind (one listener per   *)
(* kind in a configuration).  A work item is accepted by a listening       *)
(* server, runs for its duration and finishes by itself -- or is cut when  *)
(* its server gives up waiting at the deadline.  Shutdown fans out to all  *)
(* servers and returns when every server is done; then the process exits.  *)
(* A kind written "k~2" is a second listener of kind k on the same port    *)
(* of another local address.                                               *)
(*                                                                         *)
(* GrpcIgnoresDeadline = TRUE is the deviation of the pinned code          *)
(* (gRPCServer.Shutdown calls GracefulStop and never looks at its          *)
(* context): it is kept as a named constant so that TLC shows which clause *)
(* it breaks; the design is GrpcIgnoresDeadline = FALSE.                   *)
(***************************************************************************)
EXTENDS Integers, Sequences, FiniteSets

CONSTANTS
    KindOrder,            \* sequence of all server kinds, e.g. <<"http","https","tcp","tcp+sni","grpc","https+tcp+sni">>
    DurOrder,             \* sequence of duration classes, e.g. <<"short","long","inf">>
    Dur,                  \* duration class -> ticks (-1 = never ends)
    TunnelKinds,          \* kinds that carry raw TCP tunnels: only they can hold "mute" work -- a tunnel whose
                          \* client has sent EOF while the upstream neither answers nor closes -- and "reset"
                          \* work -- a tunnel whose client connection broke while the upstream keeps its side
    GrpcKinds,            \* the kinds served by a gRPC server
    LateStartKinds,       \* kinds whose server may still be starting: it is in the registry of servers, but has not
                          \* been handed its listener yet (the two steps of proxy.serve) -- a signal during start-up
    LateListenerLeaks,    \* deviation: a server that was shut down before it got its listener serves it all the same
    FailKinds,            \* kinds whose listener may fail at run time
    DynamicKinds,         \* kinds whose listener can be closed at run time, before any shutdown (proto=tcp-dynamic:
                          \* the route of the port has gone -> proxy.CloseProxy)
    GraceTicks,           \* proxy.deregistergraceperiod: after the signal fabio deregisters and goes on serving for this
                          \* long; only then the shutdown of the listeners begins, and the wait counts from there
    WaitFromSignal,       \* deviation: the wait is counted from the signal, so the grace period eats it up
    FailedServerForgotten,\* deviation: a server whose listener failed is no longer waited for by the shutdown
    MaxSignals,           \* further termination signals (or SIGHUP) that may arrive while shutdown is under way
    SecondSignalKills,    \* deviation: a signal that arrives during the shutdown ends the process at once
    MaxServers,           \* size of a configuration
    MaxItems,             \* work items per server
    MaxStart,             \* shutdown starts at clock 0..MaxStart
    W,                    \* the configured wait, in ticks
    Slack,                \* scheduling slack, in ticks
    GrpcIgnoresDeadline

VARIABLES
    kinds,      \* the servers of this configuration
    clock,
    phase,      \* "running" | "shutting" | "returned"
    tstart,     \* clock at ShutdownStart (-1 before)
    tret,       \* clock at Return (-1 before)
    listening,  \* kind -> BOOLEAN
    items,      \* sequence of [srv, dur, at, left, st]   st: "run" | "done" | "cut"
    srvdone,    \* kind -> BOOLEAN: this server's shutdown has returned
    serving,    \* kind -> BOOLEAN: the server has been handed its listener
    late,       \* the kinds that were handed their listener after shutdown had begun
    removed,    \* the kinds whose listener was closed at run time, before shutdown (proxy.CloseProxy)
    signals,    \* signals received after the one that started the shutdown
    tsig,       \* clock at the signal (-1 before); with GraceTicks = 0 the same as tstart
    failed      \* the kinds whose listener failed at run time (Accept returned an error): they accept no more, the
                \* work they carry goes on and the shutdown waits for it as for any other

vars == <<kinds, clock, phase, tstart, tret, listening, items, srvdone, serving, late, removed, signals, tsig, failed>>

Kinds == {KindOrder[i] : i \in DOMAIN KindOrder}
Durs == {DurOrder[i] : i \in DOMAIN DurOrder}
Rank(x, q) == CHOOSE i \in DOMAIN q : q[i] = x
ItemsOf(k) == {i \in DOMAIN items : items[i].srv = k}
Running(k) == {i \in ItemsOf(k) : items[i].st = "run"}
Never(d) == Dur[d] < 0
\* the clock value at which the item ends by itself (only for items that end)
Due(it) == it.at + Dur[it.dur]

Init ==
    /\ kinds \in {S \in SUBSET Kinds : S # {} /\ Cardinality(S) <= MaxServers}
    /\ clock = 0 /\ phase = "running" /\ tstart = -1 /\ tret = -1
    /\ listening = [k \in kinds |-> TRUE]
    /\ items = <<>>
    /\ srvdone = [k \in kinds |-> FALSE]
    /\ serving \in {f \in [kinds -> BOOLEAN] : \A k \in kinds : ~f[k] => k \in LateStartKinds}
    /\ late = {}
    /\ removed = {}
    /\ signals = 0
    /\ tsig = -1 /\ failed = {}

\* Items accepted within one tick are listed in a canonical order (they are concurrent; the
\* order carries no information).
Canonical(k, d) ==
    IF items = <<>> THEN TRUE
    ELSE LET last == items[Len(items)] IN
         IF last.at < clock THEN TRUE
         ELSE IF last.srv = k THEN Rank(last.dur, DurOrder) <= Rank(d, DurOrder)
         ELSE Rank(last.srv, KindOrder) < Rank(k, KindOrder)

\* a listener accepts a connection / request / stream
Accept(k, d) ==
    /\ listening[k] /\ serving[k]
    /\ d \in {"mute", "reset"} => k \in TunnelKinds
    /\ Cardinality(ItemsOf(k)) < MaxItems
    /\ Canonical(k, d)
    /\ items' = Append(items, [srv |-> k, dur |-> d, at |-> clock, left |-> Dur[d], st |-> "run"])
    /\ UNCHANGED <<kinds, clock, phase, tstart, tret, listening, srvdone, serving, late, removed, signals, tsig, failed>>

\* The server is handed its listener.  If it has been told to shut down in the meantime it closes the
\* listener at once instead of accepting from it.
StartServe(k) ==
    /\ ~serving[k]
    /\ serving' = [serving EXCEPT ![k] = TRUE]
    /\ listening' = [listening EXCEPT ![k] = (phase \in {"running", "grace"}) \/ LateListenerLeaks]
    /\ late' = IF phase \in {"running", "grace"} THEN late ELSE late \cup {k}
    /\ UNCHANGED <<kinds, clock, phase, tstart, tret, items, srvdone, removed, signals, tsig, failed>>

\* the work ends by itself: it completed normally
Finish(i) ==
    /\ items[i].st = "run" /\ items[i].left = 0
    /\ items' = [items EXCEPT ![i].st = "done"]
    /\ UNCHANGED <<kinds, clock, phase, tstart, tret, listening, srvdone, serving, late, removed, signals, tsig, failed>>

\* proxy.Shutdown(W) is called: every listener is closed
\* The signal arrives; with a deregister grace period fabio first goes on serving for that long.
SignalStart ==
    /\ phase = "running" /\ GraceTicks > 0
    /\ phase' = "grace" /\ tsig' = clock
    /\ UNCHANGED <<kinds, clock, tstart, tret, listening, items, srvdone, serving, late, removed, signals, failed>>

ShutdownStart ==
    /\ \/ phase = "running" /\ GraceTicks = 0
       \/ phase = "grace" /\ clock >= tsig + GraceTicks
    /\ tsig' = IF phase = "running" THEN clock ELSE tsig
    /\ phase' = "shutting" /\ tstart' = clock
    /\ listening' = [k \in kinds |-> FALSE]
    /\ UNCHANGED <<kinds, clock, tret, items, srvdone, serving, late, removed, signals, failed>>

\* the moment the configured wait is over
WaitEnds == (IF WaitFromSignal THEN tsig ELSE tstart) + W

\* a server whose work has drained is done
Drain(k) ==
    /\ phase = "shutting" /\ ~srvdone[k] /\ Running(k) = {}
    /\ srvdone' = [srvdone EXCEPT ![k] = TRUE]
    /\ UNCHANGED <<kinds, clock, phase, tstart, tret, listening, items, serving, late, removed, signals, tsig, failed>>

ObeysDeadline(k) == ~(k \in GrpcKinds /\ GrpcIgnoresDeadline)

\* the wait is over: the server stops waiting for whatever is still open
Deadline(k) ==
    /\ phase = "shutting" /\ ~srvdone[k] /\ clock >= WaitEnds
    /\ ObeysDeadline(k)
    /\ items' = [i \in DOMAIN items |-> IF i \in Running(k) THEN [items[i] EXCEPT !.st = "cut"] ELSE items[i]]
    /\ srvdone' = [srvdone EXCEPT ![k] = TRUE]
    /\ UNCHANGED <<kinds, clock, phase, tstart, tret, listening, serving, late, removed, signals, tsig, failed>>

Return ==
    /\ phase = "shutting" /\ \A k \in kinds : srvdone[k]
    /\ phase' = "returned" /\ tret' = clock
    /\ UNCHANGED <<kinds, clock, tstart, listening, items, srvdone, serving, late, removed, signals, tsig, failed>>

\* Time passes.  Work that is due ends first; at the deadline the servers act before the clock
\* moves on (that is what "plus scheduling slack" bounds in reality).
Tick ==
    /\ phase # "returned"
    /\ \A i \in DOMAIN items : ~(items[i].st = "run" /\ items[i].left = 0)
    /\ phase = "running" => clock < MaxStart
    /\ phase = "grace" => clock < tsig + GraceTicks
    /\ phase = "shutting" =>
          /\ ~(\A k \in kinds : srvdone[k])
          /\ ~\E k \in kinds : ~srvdone[k] /\ clock >= WaitEnds /\ (ObeysDeadline(k) \/ Running(k) = {})
          /\ clock < tstart + W + Slack + 2      \* exploration bound for the deviating design
    /\ clock' = clock + 1
    /\ items' = [i \in DOMAIN items |->
                   IF items[i].st = "run" /\ items[i].left > 0 THEN [items[i] EXCEPT !.left = @ - 1] ELSE items[i]]
    /\ UNCHANGED <<kinds, phase, tstart, tret, listening, srvdone, serving, late, removed, signals, tsig, failed>>

AcceptAny == \E k \in kinds, d \in Durs : Accept(k, d)
FinishAny == \E i \in DOMAIN items : Finish(i)
DrainAny == \E k \in kinds : Drain(k)
DeadlineAny == \E k \in kinds : Deadline(k)
StartServeAny == \E k \in kinds : StartServe(k)

\* A listener is closed at run time (its route has gone): it stops listening, its connections are closed,
\* and the later shutdown has nothing to do for it.
Remove(k) ==
    /\ phase \in {"running", "grace"} /\ k \in DynamicKinds /\ k \notin removed /\ serving[k]
    /\ removed' = removed \cup {k}
    /\ listening' = [listening EXCEPT ![k] = FALSE]
    /\ items' = [i \in DOMAIN items |-> IF i \in Running(k) THEN [items[i] EXCEPT !.st = "cut"] ELSE items[i]]
    /\ srvdone' = [srvdone EXCEPT ![k] = TRUE]
    /\ UNCHANGED <<kinds, clock, phase, tstart, tret, serving, late, signals, tsig, failed>>
RemoveAny == \E k \in kinds : Remove(k)

\* The listener of a server fails at run time (Accept returns an error that is not temporary): the server
\* accepts no more, but the work it carries goes on -- and the shutdown that follows (fabio treats the failure
\* as fatal and shuts down) drains that work like any other.
ListenerFails(k) ==
    /\ phase \in {"running", "grace"} /\ k \in FailKinds /\ k \notin failed /\ k \notin removed /\ serving[k] /\ listening[k]
    /\ failed' = failed \cup {k}
    /\ listening' = [listening EXCEPT ![k] = FALSE]
    /\ srvdone' = [srvdone EXCEPT ![k] = FailedServerForgotten]
    /\ UNCHANGED <<kinds, clock, phase, tstart, tret, items, serving, late, removed, signals, tsig>>
ListenerFailsAny == \E k \in kinds : ListenerFails(k)

\* Another signal while the shutdown is under way (a second SIGTERM / SIGINT, or the SIGHUP that fabio
\* ignores): shutting down is idempotent, the signal changes nothing.
Signal ==
    /\ phase = "shutting" /\ signals < MaxSignals
    /\ signals' = signals + 1
    /\ IF SecondSignalKills
       THEN /\ phase' = "returned" /\ tret' = clock
            /\ items' = [i \in DOMAIN items |-> IF items[i].st = "run" THEN [items[i] EXCEPT !.st = "cut"] ELSE items[i]]
       ELSE UNCHANGED <<phase, tret, items>>
    /\ UNCHANGED <<kinds, clock, tstart, listening, srvdone, serving, late, removed, tsig, failed>>

Next ==
    \/ AcceptAny
    \/ FinishAny
    \/ ShutdownStart
    \/ DrainAny
    \/ DeadlineAny
    \/ StartServeAny
    \/ RemoveAny
    \/ ListenerFailsAny
    \/ SignalStart
    \/ Signal
    \/ Return
    \/ Tick

Spec == Init /\ [][Next]_vars

-----------------------------------------------------------------------------
TypeOK ==
    /\ kinds \subseteq Kinds /\ clock \in Nat
    /\ phase \in {"running", "grace", "shutting", "returned"}
    /\ \A i \in DOMAIN items : items[i].srv \in kinds /\ items[i].dur \in Durs /\ items[i].st \in {"run", "done", "cut"}

\* after shutdown begins no listener accepts
NoAcceptAfterStart ==
    phase \in {"shutting", "returned"} => /\ \A k \in kinds : ~listening[k]
                         /\ \A i \in DOMAIN items : items[i].at <= tstart
Stopping == phase = "shutting" \/ phase = "returned"
NoNewWorkAfterStart == [][Stopping => Len(items') = Len(items)]_vars

\* work in flight that ends within the wait is never cut, and has completed when shutdown returns
ShortCompletes ==
    \A i \in DOMAIN items :
        (~Never(items[i].dur) /\ phase \in {"shutting", "returned"} /\ Due(items[i]) < tstart + W /\ items[i].srv \notin removed) =>
            /\ items[i].st # "cut"
            /\ phase = "returned" => items[i].st = "done"

\* when shutdown has returned the process exits: nothing may still count on running
NothingRunsAtReturn ==
    phase = "returned" => \A i \in DOMAIN items : items[i].st # "run"

\* shutdown returns within the wait plus slack, whatever is still open
BoundedReturn ==
    /\ phase = "shutting" => clock <= tstart + W + Slack
    /\ phase = "returned" => tret <= tstart + W + Slack
=============================================================================
