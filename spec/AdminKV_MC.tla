---------------------------- MODULE AdminKV_MC ----------------------------
(* Bounded universes for AdminKV.  Paths: "p0" is the key registry.consul.kvpath itself,      *)
(* "p1" a sub-key (alphabetically later).                                                      *)
EXTENDS AdminKV, Json, TLC
MCPaths1 == {"p0"}
MCOrder1 == <<"p0">>
MCPaths2 == {"p0", "p1"}
MCOrder2 == <<"p0", "p1">>
MCNoClients == {}
CONSTANTS c1, c2, c3
MCSym == Permutations({c1, c2})
=============================================================================
