---------------------------- MODULE Registration_MC ----------------------------
EXTENDS Registration, Json, TLC
CONSTANT MaxOpts, MaxTags

Names == {"svc", "my svc", ""}
Addrs == {[addr |-> "10.0.0.1", v6 |-> FALSE], [addr |-> "fd00::1", v6 |-> TRUE], [addr |-> "::ffff:10.0.0.7", v6 |-> TRUE], [addr |-> "", v6 |-> FALSE]}   \* "" = use the node address 10.9.9.9
Prefixes == {"/x", "h.com/x", "H.COM/x/Y", ":1234", "/[", "nohost.com", "@nlprefix"}   \* "@nlprefix": a prefix with a tab and line breaks followed by route commands (spelled by the harness)
MCLowerHost == [p \in Prefixes |-> IF p = "H.COM/x/Y" THEN "h.com/x/Y" ELSE p]
MCBadNames == {"my svc", ""}
MCBadGlobs == {"/[", "@nlprefix"}    \* prefixes that cannot be written as the <src> of a one-line command
MCBadWeights == {"abc", "Inf", "NaN", "1e999", "-Inf", "0x1p-2"}
Opts == {Opt("weight", "0.5"), Opt("weight", "abc"), Opt("weight", "Inf"), Opt("weight", "NaN"), Opt("weight", "1e999"),
         Opt("weight", "0.25"),
         Opt("strip", "/x"), Opt("prepend", "/api;v=1"), Opt("proto", "tcp"), Opt("proto", "https"), Opt("proto", "grpc"), Opt("proto", "ftp"),
         Opt("host", "dst"), Opt("foo", "bar"), Opt("q", "a\"b"),
         [k |-> "redirect", v |-> "301,https://t.example/$path", txt |-> "redirect=301,https://t.example/$path",
          code |-> "301", url |-> "https://t.example/$path"]}
Tags == {"plain", "a\"quote", "back\\slash", "@nonascii", "@newline"}   \* "@nonascii" is spelled with non-ASCII letters by the harness
MCQuoteTokens == {"a\"quote", "q=a\"b", "@newline"}   \* "@newline": a tag with a line break followed by a route command (cannot be written inside the quotes of a one-line command)

Denote2(r2) == [svc |-> r2.name, src |-> r2.prefix, dst |-> Dst(r2), weight |-> "", tags |-> r2.tags, opts |-> {}]
VARIABLES phase, cur
gvars == <<vars, phase, cur>>
GInit == Init /\ phase = "opts" /\ cur = [NoReg EXCEPT !.port = "8080"]
\* level 1: grow the option list; level 2: grow the tag list; level 3: choose name/address/prefix and run the pipeline
AddOpt == /\ phase = "opts" /\ Len(cur.opts) < MaxOpts
          \* one option per key: what two proto= or two weight= options mean together is not defined anywhere
          \* nor what a redirect registration with a protocol option denotes
          /\ \E o \in Opts :
                (\A i \in DOMAIN cur.opts : cur.opts[i].k # o.k)
                /\ (\A j \in DOMAIN cur.opts : {cur.opts[j].k, o.k} # {"redirect", "proto"})
                /\ cur' = [cur EXCEPT !.opts = Append(@, o)]
          /\ UNCHANGED <<vars, phase>>
ToTags == phase = "opts" /\ phase' = "tags" /\ UNCHANGED <<vars, cur>>
AddTag == /\ phase = "tags" /\ Len(cur.tags) < MaxTags
          /\ \E t \in Tags : t \notin SeqToSet(cur.tags) /\ cur' = [cur EXCEPT !.tags = Append(@, t)]
          /\ UNCHANGED <<vars, phase>>
Run == /\ phase = "tags" /\ phase' = "ran"
       /\ \E n \in Names, a \in Addrs, p \in Prefixes, sec \in {"", "/second"} :
            LET r == [cur EXCEPT !.name = n, !.addr = a.addr, !.v6 = a.v6, !.prefix = p]
                \* an optional SECOND routing tag without options, registered after the first one: it
                \* denotes a plain target of its own, whatever the options of the first tag are
                r2 == [r EXCEPT !.prefix = sec, !.opts = <<>>] IN
            /\ cur' = r /\ reg' = r /\ pc' = "done"
            /\ result' = IF Expressible(r) THEN [kind |-> "accepted", target |-> Denote(r)] ELSE [kind |-> "dropped"]
            /\ PrintT(ToJson([reg |-> [name |-> r.name, addr |-> r.addr, nodeaddr |-> r.nodeaddr, port |-> r.port, prefix |-> r.prefix,
                                       opts |-> [i \in DOMAIN r.opts |-> r.opts[i].txt], tags |-> r.tags],
                              expressible |-> Expressible(r),
                              second |-> sec,
                              second_expressible |-> (sec # "" /\ r.name \notin BadNames /\ \A i \in DOMAIN r.tags : r.tags[i] \notin QuoteTokens),
                              denote2 |-> IF sec # "" /\ r.name \notin BadNames THEN Denote2(r2) ELSE [svc |-> ""],
                              denote |-> IF Expressible(r) THEN Denote(r) ELSE [svc |-> ""]]))
GNext == AddOpt \/ ToTags \/ AddTag \/ Run
GSpec == GInit /\ [][GNext]_gvars
=============================================================================
