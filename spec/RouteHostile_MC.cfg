SPECIFICATION Spec
CONSTANT MaxExtra = 1
CHECK_DEADLOCK FALSE
