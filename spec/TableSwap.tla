---------------------------- MODULE TableSwap ----------------------------
(***************************************************************************)
(* Property C02, atomicity part: the published routing table is one atomic *)
(* register.  A writer installs complete tables (WInv / WLin / WRet); a    *)
(* lookup loads the register once (RLin) and answers all its probes from   *)
(* the version it loaded (RRet).  Operations are split into invocation,    *)
(* linearization point and response so that recorded concurrent            *)
(* executions can be validated (TableSwap_Trace): RLin and WLin are the    *)
(* silent steps.                                                           *)
(* Builders: tables are built from configuration text by several           *)
(* activities at once (the update loop, the registry backends validating   *)
(* every generated command, the custom backend, the admin API).  A build   *)
(* is a function of its own text: BInv(b, v) starts building the text of   *)
(* version v, BRet(b) hands back exactly the table of v, whatever other    *)
(* builds, installs and lookups run meanwhile (BuildIsolated).             *)
(***************************************************************************)
EXTENDS Integers, Sequences, FiniteSets

CONSTANTS Readers, Versions, MaxWrites, Probes, Builders, MaxBuilds
\* Versions: set of table names; Probes: number of probes per lookup

VARIABLES cur, wpc, wval, nw, rpc, snap, bpc, btext, built, nb
vars == <<cur, wpc, wval, nw, rpc, snap, bpc, btext, built, nb>>
bvars == <<bpc, btext, built, nb>>

Init == /\ cur = "init" /\ wpc = "idle" /\ wval = "init" /\ nw = 0
        /\ rpc = [r \in Readers |-> "idle"] /\ snap = [r \in Readers |-> "none"]
        /\ bpc = [b \in Builders |-> "idle"] /\ btext = [b \in Builders |-> "none"]
        /\ built = [b \in Builders |-> "none"] /\ nb = 0

WInv(v) == /\ wpc = "idle" /\ nw < MaxWrites /\ wpc' = "inv" /\ wval' = v /\ nw' = nw + 1
           /\ UNCHANGED <<cur, rpc, snap, bvars>>
WLin    == /\ wpc = "inv" /\ wpc' = "done" /\ cur' = wval
           /\ UNCHANGED <<wval, nw, rpc, snap, bvars>>
WRet    == /\ wpc = "done" /\ wpc' = "idle"
           /\ UNCHANGED <<cur, wval, nw, rpc, snap, bvars>>
RInv(r) == /\ rpc[r] = "idle" /\ rpc' = [rpc EXCEPT ![r] = "inv"]
           /\ UNCHANGED <<cur, wpc, wval, nw, snap, bvars>>
RLin(r) == /\ rpc[r] = "inv" /\ rpc' = [rpc EXCEPT ![r] = "loaded"] /\ snap' = [snap EXCEPT ![r] = cur]
           /\ UNCHANGED <<cur, wpc, wval, nw, bvars>>
\* the response: every probe answered from the loaded version
Answer(r) == [p \in 1..Probes |-> snap[r]]
RRet(r) == /\ rpc[r] = "loaded" /\ rpc' = [rpc EXCEPT ![r] = "idle"]
           /\ UNCHANGED <<cur, wpc, wval, nw, snap, bvars>>
\* a build reads nothing but its own text and publishes nothing
BInv(b, v) == /\ bpc[b] = "idle" /\ nb < MaxBuilds /\ nb' = nb + 1
              /\ bpc' = [bpc EXCEPT ![b] = "building"] /\ btext' = [btext EXCEPT ![b] = v]
              /\ UNCHANGED <<cur, wpc, wval, nw, rpc, snap, built>>
BRet(b)    == /\ bpc[b] = "building" /\ bpc' = [bpc EXCEPT ![b] = "idle"]
              /\ built' = [built EXCEPT ![b] = btext[b]]
              /\ UNCHANGED <<cur, wpc, wval, nw, rpc, snap, btext, nb>>
Next == (\E v \in Versions : WInv(v)) \/ WLin \/ WRet \/ (\E r \in Readers : RInv(r) \/ RLin(r) \/ RRet(r))
        \/ (\E b \in Builders : BRet(b) \/ \E v \in Versions : BInv(b, v))
Spec == Init /\ [][Next]_vars

TypeOK == cur \in Versions \cup {"init"} /\ \A r \in Readers : snap[r] \in Versions \cup {"init", "none"}
\* a lookup is answered from exactly one complete version, one that was current while it ran
ReaderSingleVersion == \A r \in Readers : rpc[r] = "loaded" =>
                          \A p, q \in 1..Probes : Answer(r)[p] = Answer(r)[q]
BuildIsolated == \A b \in Builders : bpc[b] = "idle" /\ built[b] # "none" => built[b] = btext[b]
ReadsInstalled == \A r \in Readers : rpc[r] = "loaded" => snap[r] \in Versions \cup {"init"}
=============================================================================
