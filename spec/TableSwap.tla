---------------------------- MODULE TableSwap ----------------------------
(***************************************************************************)
(* Property C02, atomicity part: the published routing table is one atomic *)
(* register.  A writer installs complete tables (WInv / WLin / WRet); a    *)
(* lookup loads the register once (RLin) and answers all its probes from   *)
(* the version it loaded (RRet).  Operations are split into invocation,    *)
(* linearization point and response so that recorded concurrent            *)
(* executions can be validated (TableSwap_Trace): RLin and WLin are the    *)
(* silent steps.                                                           *)
(***************************************************************************)
EXTENDS Integers, Sequences, FiniteSets

CONSTANTS Readers, Versions, MaxWrites, Probes
\* Versions: set of table names; Probes: number of probes per lookup

VARIABLES cur, wpc, wval, nw, rpc, snap
vars == <<cur, wpc, wval, nw, rpc, snap>>

Init == /\ cur = "init" /\ wpc = "idle" /\ wval = "init" /\ nw = 0
        /\ rpc = [r \in Readers |-> "idle"] /\ snap = [r \in Readers |-> "none"]

WInv(v) == /\ wpc = "idle" /\ nw < MaxWrites /\ wpc' = "inv" /\ wval' = v /\ nw' = nw + 1
           /\ UNCHANGED <<cur, rpc, snap>>
WLin    == /\ wpc = "inv" /\ wpc' = "done" /\ cur' = wval
           /\ UNCHANGED <<wval, nw, rpc, snap>>
WRet    == /\ wpc = "done" /\ wpc' = "idle"
           /\ UNCHANGED <<cur, wval, nw, rpc, snap>>
RInv(r) == /\ rpc[r] = "idle" /\ rpc' = [rpc EXCEPT ![r] = "inv"]
           /\ UNCHANGED <<cur, wpc, wval, nw, snap>>
RLin(r) == /\ rpc[r] = "inv" /\ rpc' = [rpc EXCEPT ![r] = "loaded"] /\ snap' = [snap EXCEPT ![r] = cur]
           /\ UNCHANGED <<cur, wpc, wval, nw>>
\* the response: every probe answered from the loaded version
Answer(r) == [p \in 1..Probes |-> snap[r]]
RRet(r) == /\ rpc[r] = "loaded" /\ rpc' = [rpc EXCEPT ![r] = "idle"]
           /\ UNCHANGED <<cur, wpc, wval, nw, snap>>
Next == (\E v \in Versions : WInv(v)) \/ WLin \/ WRet \/ (\E r \in Readers : RInv(r) \/ RLin(r) \/ RRet(r))
Spec == Init /\ [][Next]_vars

TypeOK == cur \in Versions \cup {"init"} /\ \A r \in Readers : snap[r] \in Versions \cup {"init", "none"}
\* a lookup is answered from exactly one complete version, one that was current while it ran
ReaderSingleVersion == \A r \in Readers : rpc[r] = "loaded" =>
                          \A p, q \in 1..Probes : Answer(r)[p] = Answer(r)[q]
ReadsInstalled == \A r \in Readers : rpc[r] = "loaded" => snap[r] \in Versions \cup {"init"}
=============================================================================
