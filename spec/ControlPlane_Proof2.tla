---------------------------- MODULE ControlPlane_Proof2 ----------------------------
(* TLAPS proof that RoutedWerePassing - every instance of the published table was passing in the   *)
(* health snapshot the table was built from (C01, second sentence) - is an invariant of             *)
(* ControlPlane for EVERY universe and every bound, also when catalog queries fail.                 *)
(* Checked with: tlapm --threads 8 ControlPlane_Proof2.tla                                          *)
EXTENDS ControlPlane, TLAPS

ASSUME XIsNoInstance == "X" \notin Inst

PassingIn(snap, i) == Passing(snap.i, snap.n, i)
I1 == \A i \in (wsCfg.ok \cup wsCfg.bad) \cap Inst : PassingIn(wsSnap, i)
I2 == \A i \in svccfg.ok \cap Inst : PassingIn(svcSnap, i)
I3 == \A i \in active \cap Inst : PassingIn(activeSnap, i)
Ind == I1 /\ I2 /\ I3

LEMMA SemShrinks == \A m, s : ManualSem(m, s) \cap Inst \subseteq s
  BY XIsNoInstance DEF ManualSem

LEMMA InitInd == Init => Ind
  BY DEF Init, Ind, I1, I2, I3, NoCfg

LEMMA Untouched == ASSUME Ind, UNCHANGED <<wsCfg, wsSnap, svccfg, svcSnap, active, activeSnap>> PROVE Ind'
  BY DEF Ind, I1, I2, I3, PassingIn

LEMMA StepInd == Ind /\ [Next]_vars => Ind'
<1> SUFFICES ASSUME Ind, [Next]_vars PROVE Ind'
  OBVIOUS
<1>1. CASE RegChange
  BY <1>1, Untouched DEF RegChange, bevars, wsvars
<1>2. CASE WsIssue
  BY <1>2, Untouched DEF WsIssue, bevars
<1>3. CASE WsHealth
  <2>1. wsCfg' = NoCfg /\ UNCHANGED <<svccfg, svcSnap, active, activeSnap>>
    BY <1>3 DEF WsHealth, bevars
  <2> QED
    BY <2>1 DEF Ind, I1, I2, I3, NoCfg, PassingIn
<1>4. CASE \E s \in Services : WsCatalog(s)
  <2>1. PICK s \in Services : WsCatalog(s)
    BY <1>4
  <2>2. UNCHANGED <<wsSnap, svccfg, svcSnap, active, activeSnap>>
    BY <2>1 DEF WsCatalog, bevars
  <2>3. \A i \in (wsCfg'.ok \cup wsCfg'.bad) \cap Inst : i \in (wsCfg.ok \cup wsCfg.bad) \/ Passing(wsSnap.i, wsSnap.n, i)
    BY <2>1 DEF WsCatalog
  <2> QED
    BY <2>2, <2>3 DEF Ind, I1, I2, I3, PassingIn
<1>5. CASE \E s \in Services : WsCatalogFail(s)
  BY <1>5, Untouched DEF WsCatalogFail, bevars
<1>6. CASE WkIssue
  BY <1>6, Untouched DEF WkIssue, bevars, wsvars
<1>7. CASE WkAnswer
  BY <1>7, Untouched DEF WkAnswer, bevars, wsvars
<1>8. CASE BeRecvSvc
  <2>1. svccfg' = wsCfg /\ svcSnap' = wsSnap /\ UNCHANGED <<wsCfg, wsSnap, active, activeSnap>>
    BY <1>8 DEF BeRecvSvc
  <2> QED
    BY <2>1 DEF Ind, I1, I2, I3, PassingIn
<1>9. CASE BeRecvMan
  BY <1>9, Untouched DEF BeRecvMan, wsvars
<1>10. CASE BeSame
  BY <1>10, Untouched DEF BeSame, wsvars
<1>11. CASE BeReject
  BY <1>11, Untouched DEF BeReject, wsvars
<1>12. CASE BeInstall
  <2>1. active' = ManualSem(mancfg, svccfg.ok) /\ activeSnap' = svcSnap /\ UNCHANGED <<wsCfg, wsSnap, svccfg, svcSnap>>
    BY <1>12 DEF BeInstall, TableOf, wsvars
  <2>2. active' \cap Inst \subseteq svccfg.ok
    BY <2>1, SemShrinks
  <2> QED
    BY <2>1, <2>2 DEF Ind, I1, I2, I3, PassingIn
<1>13. CASE UNCHANGED vars
  BY <1>13, Untouched DEF vars, bevars, wsvars
<1> QED
  BY <1>1, <1>2, <1>3, <1>4, <1>5, <1>6, <1>7, <1>8, <1>9, <1>10, <1>11, <1>12, <1>13 DEF Next, Internal

THEOREM Ind => RoutedWerePassing
  BY DEF Ind, I3, RoutedWerePassing, PassingIn
=============================================================================
