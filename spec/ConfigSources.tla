---------------------------- MODULE ConfigSources ----------------------------
(***************************************************************************)
(* Where the value of ONE fabio configuration option comes from.           *)
(* Transcribed from the statement of property C15 and fabio's              *)
(* documentation of the configuration sources (docs: "fabio.properties",   *)
(* "command line", "environment"; config.FlagSet.ParseFlags doc comment):  *)
(*                                                                         *)
(*   command line  >  FABIO_<NAME> env  >  <NAME> env  >  file  >  default *)
(*                                                                         *)
(* Environment variable NAMES are case-insensitive.  An environment block  *)
(* may carry entries that are no assignment of a registered option at all  *)
(* (no '=', empty, empty name, unrelated or repeated variables, bytes that *)
(* are not UTF-8); they have no influence.  Loading either yields a        *)
(* configuration or an error - there is no third outcome (a crash).        *)
(*                                                                         *)
(* A value may be ANY string of the option's type - also degenerate ones    *)
(* made only of separators, blanks and empty elements (",", ";", "=", " ") *)
(* for the list- and struct-valued options: each value either is refused  *)
(* by validation (Bad) or not, the same from every source; there is no     *)
(* value that makes Load crash.                                            *)
(*                                                                         *)
(* One process may load several times (tests, embedding, reload): every    *)
(* Load starts from THE defaults and its result belongs to the caller - a  *)
(* later Load neither sees what an earlier one was given nor changes what  *)
(* an earlier one returned (Again, HistoryIndependent).                    *)
(*                                                                         *)
(* Options do not interfere: Load walks over all registered options in the *)
(* order of their names; what the environment or the file says about a     *)
(* NEIGHBOUR - an option that comes before or after this one in that walk, *)
(* with a well-formed or an ill-formed value - changes nothing for this    *)
(* option, and a well-formed neighbour takes its value whatever this one   *)
(* is given (ScanNeighbour, NeighbourIndependent).  A configuration that   *)
(* is accepted can be run: an accepted value is one the running proxy      *)
(* understands (Runnable; spellings of enumerated values in another        *)
(* letter case are either refused or understood).                          *)
(*                                                                         *)
(* Where the file comes from is a dimension of its own: -cfg names a local  *)
(* path or an http(s) URL which Load fetches itself.  A fetch can fail or   *)
(* break off: not found, server error, a body that ends before its         *)
(* announced length, a connection reset in the middle.  Load then returns  *)
(* an error - never the configuration of the part that happened to arrive  *)
(* (Fetch, NeverPartial); a complete transfer means what the same file at  *)
(* a path means.                                                           *)
(*                                                                         *)
(* Load is modelled in the shape of config.Load: the command line is       *)
(* parsed (which also yields the path of the properties file), the file is *)
(* read, then for an option not yet set the environment is consulted with  *)
(* the prefixes in order, then the file, and finally the collected value   *)
(* is validated.                                                           *)
(***************************************************************************)
EXTENDS Integers, Sequences, FiniteSets

CONSTANTS
    Vals,        \* abstract values an option can be given (strings)
    Bad,         \* the values in Vals that validation rejects (type-correct, semantically invalid)
    Spellings,   \* letter-case spellings of an environment variable name
    JunkClasses, \* classes of environment entries that assign no registered option
    NbrSays,     \* what a source may say about a neighbour option: [side, src, form]
    Runnable,    \* the values the running proxy understands
    MaxLoads,    \* how many Loads one process performs (history part)
    HistGivens   \* what the sources may say in the Loads of a history

None    == "-"          \* "this source does not set the option" (a string, like the values)
Default == "default"    \* the built-in default value
Order   == <<"cmd", "fenv", "env", "file">>      \* precedence, highest first
Sources == {Order[i] : i \in DOMAIN Order}
EnvSources == {"fenv", "env"}

ASSUME None \notin Vals /\ Default \notin Vals /\ Bad \subseteq Vals

VARIABLES
    given,    \* [Sources -> Vals \cup {None}] : what every source says about the option
    spell,    \* [EnvSources -> Spellings]     : how the variable name is spelled in the block
    junk,     \* SUBSET JunkClasses            : other entries present in the environment block
    fstate,   \* "absent" | "ok" | "junk"      : the properties file named by -cfg
    pc, val, setby, result,
    fetch,    \* how the file named by -cfg is obtained: "path" or the course of the transfer from a URL
    nbr,      \* what is said about the neighbour in this Load (NoNbr: nothing)
    nbrset,   \* the neighbour took its value
    hist      \* the completed earlier Loads of this process: <<[given, value, result], ...>>
vars == <<given, spell, junk, fstate, pc, val, setby, result, fetch, nbr, nbrset, hist>>
Transfers == {"complete", "truncated", "reset", "notfound", "servererror"}
Broken == Transfers \ {"complete"}
NoNbr == [side |-> "-", src |-> "-", form |-> "-"]

-----------------------------------------------------------------------------
\* the declarative meaning
First(g, i) == LET F[k \in 1..5] == IF k = 5 THEN 5 ELSE IF g[Order[k]] # None THEN k ELSE F[k + 1] IN F[i]
Winner(g)    == LET k == First(g, 1) IN IF k = 5 THEN Default ELSE Order[k]
Effective(g) == LET k == First(g, 1) IN IF k = 5 THEN Default ELSE g[Order[k]]

\* an environment block is a set of entries; looking a name up ignores its spelling
EnvBlock == {[src |-> s, spelled |-> spell[s], v |-> given[s]] : s \in {x \in EnvSources : given[x] # None}}
EnvHas(s)   == \E e \in EnvBlock : e.src = s
EnvValue(s) == (CHOOSE e \in EnvBlock : e.src = s).v

-----------------------------------------------------------------------------
Canonical == CHOOSE c \in Spellings : TRUE
Init == /\ given \in [Sources -> Vals \cup {None}]
        /\ spell \in [EnvSources -> Spellings]
        /\ \A s \in EnvSources : given[s] = None => spell[s] = Canonical
        /\ junk \in SUBSET JunkClasses
        /\ fstate \in {"absent", "ok", "junk"}
        /\ (given["file"] # None) => fstate = "ok"       \* a file that sets the option is a readable file
        /\ pc = "cmdline" /\ val = Default /\ setby = Default /\ result = None
        /\ hist = <<>>
        /\ fetch \in {"path"} \cup Transfers
        /\ fetch # "path" => (fstate = "ok" /\ junk = {} /\ \A s \in EnvSources : spell[s] = Canonical)
        /\ nbr \in NbrSays \cup {NoNbr} /\ nbrset = FALSE
        /\ (nbr # NoNbr => fetch = "path")
        /\ nbr # NoNbr => /\ junk = {} /\ fstate # "junk" /\ \A s \in EnvSources : spell[s] = Canonical
                          /\ nbr.src = "file" => fstate = "ok"

Take(s) == /\ val' = given[s]
           /\ setby' = s

ParseCmdline == /\ pc = "cmdline"
                /\ IF given["cmd"] # None THEN Take("cmd") ELSE UNCHANGED <<val, setby>>
                /\ pc' = "readfile"
                /\ UNCHANGED <<given, spell, junk, fstate, result, fetch, nbr, nbrset, hist>>

\* a junk file is either refused by the properties reader (error) or read as a file
\* that says nothing about the option
ReadFile == /\ pc = "readfile"
            /\ \/ /\ fstate = "junk"
                  /\ result' = "error" /\ pc' = "done"
               \/ /\ fetch \in Broken           \* the transfer failed or broke off: an error, whatever arrived
                  /\ result' = "error" /\ pc' = "done"
               \/ /\ fetch \notin Broken
                  /\ pc' = "nbefore" /\ UNCHANGED result
            /\ UNCHANGED <<given, spell, junk, fstate, val, setby, fetch, nbr, nbrset, hist>>

ApplyEnv == /\ pc = "env"
            /\ IF setby # Default THEN UNCHANGED <<val, setby>>
               ELSE IF EnvHas("fenv") THEN val' = EnvValue("fenv") /\ setby' = "fenv"
               ELSE IF EnvHas("env")  THEN val' = EnvValue("env")  /\ setby' = "env"
               ELSE UNCHANGED <<val, setby>>
            /\ pc' = "file"
            /\ UNCHANGED <<given, spell, junk, fstate, result, fetch, nbr, nbrset, hist>>

ApplyFile == /\ pc = "file"
             /\ IF setby = Default /\ given["file"] # None THEN Take("file") ELSE UNCHANGED <<val, setby>>
             /\ pc' = "nafter"
             /\ UNCHANGED <<given, spell, junk, fstate, result, fetch, nbr, nbrset, hist>>

\* the walk reaches the neighbour: a well-formed value is taken, an ill-formed one is ignored -
\* and in both cases the walk goes on to the next option
ScanNeighbour(side) == /\ pc = "n" \o side
                       /\ nbrset' = (nbrset \/ (nbr.side = side /\ nbr.form = "ok"))
                       /\ pc' = IF side = "before" THEN "env" ELSE "validate"
                       /\ UNCHANGED <<given, spell, junk, fstate, val, setby, result, fetch, nbr, hist>>

Validate == /\ pc = "validate"
            /\ result' = IF val \in Bad THEN "error" ELSE "cfg"
            /\ pc' = "done"
            /\ UNCHANGED <<given, spell, junk, fstate, val, setby, fetch, nbr, nbrset, hist>>

Next == ParseCmdline \/ ReadFile \/ ScanNeighbour("before") \/ ApplyEnv \/ ApplyFile \/ ScanNeighbour("after") \/ Validate
Spec == Init /\ [][Next]_vars /\ WF_vars(Next)

\* the same process loads again: the completed Load is filed, the next one starts from the
\* default whatever the earlier ones were given
Again(g) == /\ pc = "done" /\ Len(hist) < MaxLoads - 1
            /\ hist' = Append(hist, [given |-> given, value |-> val, result |-> result])
            /\ given' = g
            /\ fstate' = IF g["file"] # None THEN "ok" ELSE "absent"
            /\ pc' = "cmdline" /\ val' = Default /\ setby' = Default /\ result' = None
            /\ nbrset' = FALSE
            /\ UNCHANGED <<spell, junk, nbr, fetch>>
HistInit == /\ Init /\ nbr = NoNbr /\ fetch = "path" /\ given \in HistGivens /\ junk = {} /\ fstate = (IF given["file"] # None THEN "ok" ELSE "absent")
            /\ \A s \in EnvSources : spell[s] = Canonical
HistNext == Next \/ \E g \in HistGivens : Again(g)
HistSpec == HistInit /\ [][HistNext]_vars

-----------------------------------------------------------------------------
TypeOK == /\ pc \in {"cmdline", "readfile", "nbefore", "env", "file", "nafter", "validate", "done"}
          /\ val \in Vals \cup {Default}
          /\ setby \in Sources \cup {Default}
          /\ result \in {None, "cfg", "error"}

\* Load returns a configuration or an error, nothing else
TwoOutcomes == pc = "done" => result \in {"cfg", "error"}
\* the value in a returned configuration is the effective one, whatever the spelling / junk
ResultIsEffective == (pc = "done" /\ result = "cfg") =>
                        /\ val = Effective(given) /\ setby = Winner(given) /\ val \notin Bad
ErrorIsJustified == (pc = "done" /\ result = "error") => (fstate = "junk" \/ fetch \in Broken \/ Effective(given) \in Bad)
NeverPartial == (pc = "done" /\ fetch \in Broken) => result = "error"
BadIsRejected == (pc = "done" /\ fstate # "junk" /\ Effective(given) \in Bad) => result = "error"
\* consequences spelled out the way the property statement does
SingleSource == (pc = "done" /\ result = "cfg") =>
                   \A s \in Sources : (\A t \in Sources \ {s} : given[t] = None) /\ given[s] # None => val = given[s]
PairPrecedence == (pc = "done" /\ result = "cfg") =>
                   \A i, j \in DOMAIN Order : (i < j /\ given[Order[i]] # None /\ given[Order[j]] # None) => setby # Order[j]
\* what is said about a neighbour neither changes this option (ResultIsEffective does not mention
\* nbr) nor is lost: a well-formed neighbour value is taken, an ill-formed one is not
NeighbourIndependent == (pc = "done" /\ result = "cfg") => (nbrset <=> nbr.form = "ok")
AcceptedIsRunnable == (pc = "done" /\ result = "cfg") => val \in Runnable \cup {Default}
\* what an earlier Load returned is a function of what IT was given, and stays so
HistoryIndependent == \A i \in DOMAIN hist :
                         /\ hist[i].result \in {"cfg", "error"}
                         /\ hist[i].result = "cfg" => (hist[i].value = Effective(hist[i].given) /\ hist[i].value \notin Bad)
                         /\ hist[i].result = "error" => Effective(hist[i].given) \in Bad
Terminates == <>(pc = "done")
=============================================================================
