---------------------------- MODULE UpdateLoop_MC ----------------------------
EXTENDS UpdateLoop, Json, TLC
\* service texts: s0 = empty, v1/v2 two valid configurations, sbad = rejected by the parser,
\* shostile = a hostile but syntactically plausible text (may be accepted or rejected: see harness)
MCSvc == {"s0", "v1", "v2", "sbad"}
MCMan == {"m0", "m1", "mbad"}
MCBad == {"sbad", "mbad"}
\* targets: t1,t2 from v1; t2,t3 from v2; m1 deletes t2 and adds tm
Base(s) == CASE s = "v1" -> {"t1", "t2"} [] s = "v2" -> {"t2", "t3"} [] OTHER -> {}
MCDen == [c \in MCSvc \X MCMan |-> IF c[2] = "m1" THEN (Base(c[1]) \ {"t2"}) \cup {"tm"} ELSE Base(c[1])]
\* custom backend: one channel; j1 = two targets (the first with tags and options), j2 = two targets without,
\* jempty = valid empty list, jbadjson / jinvalid / j500 = undecodable body, invalid command, HTTP 500
MCSvcC == {"s0", "j1", "j2", "jempty", "jbadjson", "jinvalid", "j500", "jnosrc", "jdelnosrc"}
MCManC == {"m0"}
MCBadC == {"jbadjson", "jinvalid", "j500", "jnosrc"}   \* jnosrc: route add without a source
MCDenC == [c \in MCSvcC \X MCManC |-> CASE c[1] = "j1" -> {"t1|x,y|strip=/a", "t2"} [] c[1] \in {"j2", "jdelnosrc"} -> {"t2", "t3"} [] OTHER -> {}]   \* jdelnosrc = j2 + two del commands without source that select nothing
=============================================================================
