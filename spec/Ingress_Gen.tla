----------------------------- MODULE Ingress_Gen -----------------------------
(* Behaviours for the S->C replay of Ingress.  A history is the sequence of the moves of   *)
(* the ENVIRONMENT of one connection - the client sends the next k tokens of its stream,   *)
(* half-closes, the header timer or the read timer fires, the routing table is replaced -  *)
(* each followed by the observable state the connection settles in (no internal step       *)
(* enabled).  The internal steps are deterministic, so the settled state is a function of  *)
(* the moves; the harness makes the same moves against a real listener and must observe    *)
(* the same thing after every move: effective address (through X-Forwarded-For/Forwarded/  *)
(* X-Real-Ip, the access rules, the access log, the outgoing PROXY header), what the       *)
(* upstream has received so far, the answers, whether fabio has closed the connection.     *)
(*                                                                                        *)
(* Segmentations: the first cut is at EVERY token position k with k % CutMod = CutRem (all *)
(* positions for CutMod = 1), at most MaxSeg segments; the timer may fire before the first *)
(* segment or between two segments; the client may give up after the first segment.        *)
EXTENDS Ingress_MC, Json

CONSTANTS MaxSeg, CutMod, CutRem, EarlyFin
VARIABLES hist, pend, nseg, ntmo, nrt, ntab, done, t0

gvars == <<hist, pend, nseg, ntmo, nrt, ntab, done, t0>>
None == [ev |-> "", n |-> 0, to |-> ""]

GInit == Init /\ hist = <<>> /\ pend = None /\ nseg = 0 /\ ntmo = 0 /\ nrt = 0 /\ ntab = 0 /\ done = FALSE /\ t0 = tbl

Quiet == ~ENABLED Internal
Free  == Quiet /\ pend = None /\ ~done /\ ~closed

GStep == Internal /\ UNCHANGED gvars

CutOK(k) == nseg > 0 \/ k = Len(stream) \/ k % CutMod = CutRem
GSend(k) == /\ Free /\ nseg < MaxSeg /\ Send(k) /\ CutOK(k)
            /\ (nseg + 1 = MaxSeg => sent + k = Len(stream))
            /\ pend' = [ev |-> "send", n |-> k, to |-> ""] /\ nseg' = nseg + 1
            /\ UNCHANGED <<hist, ntmo, nrt, ntab, done, t0>>
GTimeout == /\ Free /\ ntmo = 0 /\ Timeout
            /\ pend' = [ev |-> "timeout", n |-> 0, to |-> ""] /\ ntmo' = 1
            /\ UNCHANGED <<hist, nseg, nrt, ntab, done, t0>>
GRt ==      /\ Free /\ nrt = 0 /\ RtFire
            /\ pend' = [ev |-> "rt", n |-> 0, to |-> ""] /\ nrt' = 1
            /\ UNCHANGED <<hist, nseg, ntmo, ntab, done, t0>>
GFin ==     /\ Free /\ Fin /\ (sent = Len(stream) \/ (EarlyFin /\ nseg = 1))
            /\ pend' = [ev |-> "fin", n |-> 0, to |-> ""]
            /\ UNCHANGED <<hist, nseg, ntmo, nrt, ntab, done, t0>>
GTable(t) == /\ Free /\ ntab = 0 /\ TableChange(t)
             /\ pend' = [ev |-> "table", n |-> 0, to |-> t] /\ ntab' = 1
             /\ UNCHANGED <<hist, nseg, ntmo, nrt, done, t0>>
GObs ==     /\ Quiet /\ pend # None
            /\ hist' = Append(hist, [ev |-> pend.ev, n |-> pend.n, to |-> pend.to,
                                     eff |-> eff, up |-> up, upeof |-> upeof, resps |-> resps,
                                     closed |-> closed, disp |-> disp, tls |-> tls, ph |-> ph])
            /\ pend' = None
            /\ UNCHANGED <<vars, nseg, ntmo, nrt, ntab, done, t0>>
GDone ==    /\ Quiet /\ pend = None /\ ~done /\ (fin \/ closed) /\ hist # <<>>
            /\ done' = TRUE
            /\ PrintT(ToJson([c |-> cfg, s |-> scr, t0 |-> t0, stream |-> stream, h |-> hist]))
            /\ UNCHANGED <<vars, hist, pend, nseg, ntmo, nrt, ntab, t0>>

GSendAny  == \E k \in 1..(Len(stream) - sent) : GSend(k)
GTableAny == \E t \in Tables : GTable(t)
GNext == GStep \/ GSendAny \/ GTimeout \/ GRt \/ GFin \/ GTableAny \/ GObs \/ GDone
GSpec == GInit /\ [][GNext]_<<vars, gvars>>

(* every generated state satisfies the invariants of the design that are expected to hold  *)
(* for the deviation constants of this run (checked by the driver through the cfg)         *)
GenTypeOK == TypeOK /\ Len(hist) <= 2 * MaxSeg + 6
=============================================================================
