----------------------------- MODULE Ingress_MC -----------------------------
(* Bounded universe for Ingress: every listener kind x pxyproto on/off x every header    *)
(* kind (both address families for the valid ones) x payload variants x server names.    *)
(* The client cuts its stream wherever it likes (Send(k) for every k), half-closes when   *)
(* it likes, the timers fire when they like: every segmentation of every stream of the    *)
(* universe is a behaviour.                                                               *)
EXTENDS Ingress, TLC

CONSTANTS HeadSel,     \* header kinds explored ({} = all)
          ProtoSel,    \* listener kinds explored ({} = all)
          Slim         \* TRUE: IPv4 declared sources and the plain payload only (smoke runs of the quick tier)

MCTables == {"A", "B"}

Flat(p, x)  == [proto |-> p, pxy |-> x, ropt |-> "na", rt |-> FALSE]
MCCfgs ==
    {Flat(p, x) : p \in {"http", "https", "tcp+sni", "https+tcp+sni"}, x \in BOOLEAN}
    \cup {[proto |-> "tcp", pxy |-> x, ropt |-> r, rt |-> t] : x \in BOOLEAN, r \in {"bare", "pxy"}, t \in BOOLEAN}
    \cup {[proto |-> "tcp", pxy |-> x, ropt |-> "acl", rt |-> FALSE] : x \in BOOLEAN}
    \cup {[proto |-> "tcps", pxy |-> x, ropt |-> "pxy", rt |-> FALSE] : x \in BOOLEAN}

MCHeadFam == {<<"none", 4>>, <<"v1", 4>>, <<"v1", 6>>, <<"unk", 4>>, <<"v2", 4>>, <<"v2", 6>>, <<"lf", 4>>,
              <<"range", 4>>, <<"xfam", 4>>, <<"xip", 4>>, <<"xport", 4>>, <<"xshort", 4>>, <<"xlong", 4>>}
PaysFor(c) == IF c.proto \in {"http", "tcp"} /\ ~Slim THEN {"plain", "pro"} ELSE {"plain"}
SnisFor(c) == CASE c.proto = "tcp+sni"       -> {"raw", "acl", "none"}
                [] c.proto = "https+tcp+sni" -> {"tun", "sw", "h"}
                [] OTHER                     -> {"-"}
ScriptsFor(c) == {[head |-> hf[1], fam |-> hf[2], pay |-> p, sni |-> n] :
                     hf \in {x \in MCHeadFam : (HeadSel = {} \/ x[1] \in HeadSel) /\ (Slim => x[2] = 4)}, p \in PaysFor(c), n \in SnisFor(c)}
MCUniverse == UNION {{[c |-> c, s |-> s] : s \in ScriptsFor(c)} : c \in {x \in MCCfgs : ProtoSel = {} \/ x.proto \in ProtoSel}}

(* Internal steps first: a listener that has bytes to look at looks at them before the   *)
(* client's next move.  The lagging interleavings this leaves out (a timer firing while    *)
(* unread bytes wait) end in the same states as the ones in which those bytes are sent     *)
(* after the timer; they are part of Spec, of the reduced-universe run and of every        *)
(* validated trace.                                                                        *)
UNext == Internal \/ (~ENABLED Internal /\ (Timeout \/ RtFire \/ SendAny \/ Fin \/ TableAny))
USpec == Init /\ [][UNext]_vars /\ WF_vars(Internal) /\ WF_vars(Timeout) /\ WF_vars(RtFire)
=============================================================================
