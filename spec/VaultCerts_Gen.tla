--------------------------- MODULE VaultCerts_Gen ---------------------------
(* Generators of histories for the S->C replay of X07.  The actions are the *)
(* ones of VaultCerts under a schedule (the environment moves only when the *)
(* real code can be brought to the same point by a causal barrier), plus a  *)
(* history variable that is printed as JSON.                                *)
EXTENDS VaultCerts_MC, Json

CONSTANTS GWide,        \* A: TRUE = any change of Vault between two rounds, FALSE = one entry or the fault
          GSteps        \* B: environment moves per history

VARIABLES gh,           \* the history
          turn,         \* A: "env" | "load" | "post"     B: mode "pre" | "firing" | "fired" | "expiring" | "expired"
          gn,           \* B: environment moves so far;  C: 1 when the outcome of the next request is chosen
          round1,       \* B: the certificates whose timers fire in the round
          dirty         \* B: an environment move whose consequences are not yet printed

gvars == <<gh, turn, gn, round1, dirty>>

-----------------------------------------------------------------------------
(* A: one entry of the history per refresh round.  The harness holds the real *)
(* watcher at the preflight request of every round, sets Vault up, releases   *)
(* it and judges when the preflight of the next round arrives.               *)
GAInit == Init /\ gh = <<>> /\ turn = "env" /\ gn = 0 /\ round1 = {} /\ dirty = FALSE

GAEnv(k, f) ==
    /\ turn = "env" /\ wpc = "load" /\ nloads < MaxLoads
    /\ kv' = k /\ kfault' = f /\ turn' = "load"
    /\ UNCHANGED <<reg, last, pend, wpc, clock, loadAt, pubSince, nloads, nenv, spin, lastGood, badPub, bvars, cvars, gh, gn, round1, dirty>>

GALoad ==
    /\ turn = "load" /\ KLoad /\ turn' = "post"
    /\ gh' = Append(gh, [kv |-> kv, fault |-> kfault, kind |-> Kind(kv, kfault), need |-> ReqKind(kv, kfault),
                         pub |-> IF wpc' = "publish" THEN "y" ELSE "n",
                         gap |-> IF pubSince THEN "n" ELSE "y",
                         reg |-> IF wpc' = "publish" THEN pend'.set ELSE reg])
    /\ PrintT(ToJson([a |-> gh']))
    /\ UNCHANGED <<gn, round1, dirty>>

GAPost ==
    /\ turn = "post" /\ (KPublish \/ KSleep) /\ turn' = "env"
    /\ UNCHANGED <<gh, gn, round1, dirty>>

GANext ==
    \/ \E k \in (IF GWide THEN AllKV ELSE ANear(kv)), f \in KFaults : (GWide \/ k = kv \/ f = kfault) /\ GAEnv(k, f)
    \/ GALoad \/ GAPost
GASpec == GAInit /\ [][GANext]_<<vars, gvars>>
GAView == <<kv, kfault, reg, last, pend, wpc, pubSince, nloads, turn>>

-----------------------------------------------------------------------------
(* B: one client, one thing at a time.                                        *)
Ev(op, name, id, ids) == [op |-> op, name |-> name, id |-> id, ids |-> ids]
Armed == {i \in Ids : certs[i].timer = "armed"}
MinOf(S) == CHOOSE x \in S : \A y \in S : x <= y
TflIds(st) == {t.id : t \in {u \in tfl : u.st = st}}
TflOf(i) == CHOOSE t \in tfl : t.id = i

Calm == /\ hs[c1].pc \in {"idle", "done"} /\ \A n \in PNames : flight[n].st = "none"
        /\ pending = {} /\ tfl = {} /\ turn \in {"pre", "fired", "expired"}

GBInit == Init /\ gh = <<>> /\ turn = "pre" /\ gn = 0 /\ round1 = {} /\ dirty = FALSE

Keep == UNCHANGED <<turn, gn, round1, dirty>>
Same == UNCHANGED <<gh, turn, gn, round1, dirty>>
Move == gn' = gn + 1 /\ dirty' = TRUE

GBEnv ==
    /\ Calm /\ ~dirty /\ gn < GSteps
    /\ \/ \E n \in PNames : HsStart(c1, n) /\ gh' = Append(gh, Ev("hs", n, 0, {})) /\ Move /\ UNCHANGED <<turn, round1>>
       \/ \E f \in IssueFaults : PFault(f) /\ gh' = Append(gh, Ev("fault", f, 0, {})) /\ Move /\ UNCHANGED <<turn, round1>>
       \/ /\ turn = "pre" /\ Armed # {}
          /\ turn' = "firing" /\ round1' = Armed /\ gh' = Append(gh, Ev("round", "", 0, Armed)) /\ Move /\ UNCHANGED vars
       \/ /\ turn = "fired"
          /\ turn' = "expiring" /\ gh' = Append(gh, Ev("expire", "", 0, round1)) /\ Move /\ UNCHANGED <<vars, round1>>

\* strictmatch=false: which certificate is "the first" is not specified for this source (the snapshot is built
\* from a map); the generator takes one, the history names all that are allowed (ids of the "end" event)
GFallback ==
    /\ ~Strict /\ hs[c1].pc = "started" /\ Match(hs[c1].name) = {} /\ Live # {}
    /\ Present(c1, MinOf(Live))
    /\ UNCHANGED <<certs, store, cache, pending, flight, tfl, pfault, asked, dupIssue, benv>> /\ BOnly

GBInternal ==
    \/ (HsHit(c1) \/ GFallback \/ HsMiss(c1) \/ HsJoin(c1) \/ HsCached(c1) \/ HsLead(c1)) /\ Same
    \/ \E n \in PNames : IssueReq(n) /\ gh' = Append(gh, Ev("issue", n, flight'[n].out, {})) /\ Keep
    \/ \E n \in PNames : (IssueResp(n) \/ IssueDone(n) \/ FlightRet(n)) /\ Same
    \/ \E s \in pending : Deliver(s) /\ gh' = Append(gh, Ev("install", "", 0, s)) /\ Keep
    \/ pending = {} /\ hs[c1].pc \in {"got", "failed"} /\ HsEnd(c1) /\ gh' = Append(gh, Ev("end", hs[c1].name, hs[c1].res,
                                         IF hs[c1].res > 0 /\ certs[hs[c1].res].name # hs[c1].name THEN Live ELSE {})) /\ Keep
    \* the round: every timer fires, every request arrives (held by the fake), then one answer at a time
    \/ turn = "firing" /\ round1 \cap Armed # {} /\ TimerFire(MinOf(round1 \cap Armed)) /\ Same
    \/ /\ turn = "firing" /\ round1 \cap Armed = {} /\ TflIds("lead") # {}
       /\ LET t == TflOf(MinOf(TflIds("lead"))) IN
          TIssueReq(t) /\ gh' = Append(gh, Ev("tissue", certs[t.id].name, Decide(certs[t.id].name).out, {})) /\ Keep
    \/ /\ turn = "firing" /\ round1 \cap Armed = {} /\ TflIds("lead") = {} /\ TflIds("resp") = {} /\ pending = {} /\ TflIds("req") # {}
       /\ TIssueResp(TflOf(MinOf(TflIds("req")))) /\ Same
    \/ turn = "firing" /\ TflIds("resp") # {} /\ TRet(TflOf(MinOf(TflIds("resp")))) /\ gh' = Append(gh, Ev("tret", "", 0, {})) /\ Keep
    \/ /\ turn = "firing" /\ round1 \cap Armed = {} /\ tfl = {} /\ pending = {}
       /\ turn' = "fired" /\ UNCHANGED <<vars, gh, gn, round1, dirty>>
    \/ /\ turn = "expiring" /\ \E i \in round1 : certs[i].st # "expired"
       /\ Expire(MinOf({i \in round1 : certs[i].st # "expired"})) /\ Same
    \/ /\ turn = "expiring" /\ \A i \in round1 : certs[i].st = "expired"
       /\ turn' = "expired" /\ UNCHANGED <<vars, gh, gn, round1, dirty>>

GBSettle ==
    /\ Calm /\ dirty /\ dirty' = FALSE
    /\ (gn = GSteps => PrintT(ToJson([b |-> gh])))
    /\ UNCHANGED <<vars, gh, turn, gn, round1>>

GBNext == GBEnv \/ GBInternal \/ GBSettle
GBSpec == GBInit /\ [][GBNext]_<<vars, gvars>>

-----------------------------------------------------------------------------
(* C: the outcome of every request to the token endpoints is chosen when it  *)
(* is due; the history is the sequence of requests with their times.         *)
GCInit == Init /\ gh = <<>> /\ turn = "c" /\ gn = 0 /\ round1 = {} /\ dirty = FALSE

Due == (kpc = "start" /\ tnow >= tat) \/ (kpc = "timer" /\ tnow = tat)
GCNext ==
    \/ /\ Due /\ gn = 0 /\ gn' = 1 /\ tfault' \in BOOLEAN
       /\ UNCHANGED <<avars, bvars, tnow, texp, trenewable, tdead, kpc, tat, tfailat, cenv, treqs, gh, turn, round1, dirty>>
    \/ Due /\ gn = 1 /\ (TLookup \/ TRenew) /\ gn' = 0 /\ UNCHANGED <<gh, turn, round1, dirty>>
    \/ TTick /\ UNCHANGED gvars
    \/ /\ tnow = MaxT /\ ~Due /\ ~dirty /\ dirty' = TRUE
       /\ PrintT(ToJson([c |-> treqs, renewable |-> trenewable, dead |-> tdead, ttl |-> TTL, kpc |-> kpc]))
       /\ UNCHANGED <<vars, gh, turn, gn, round1>>
GCSpec == GCInit /\ [][GCNext]_<<vars, gvars>>
=============================================================================
