---------------------------- MODULE UpdateLoop ----------------------------
(***************************************************************************)
(* Property C02, history part: the update loop of main.watchBackend seen   *)
(* from its two input channels, and the poll loop of the custom backend.   *)
(*                                                                         *)
(* Messages are abstract configuration texts.  Den[m] is the set of        *)
(* targets a text denotes; Bad is the set of texts the parser rejects.     *)
(* The loop keeps the last service text and the last manual text, builds   *)
(* the candidate from both ("manual overrides service": manual commands    *)
(* are applied after the service commands), and                            *)
(*    - Same:    candidate text = text of the active table  -> nothing     *)
(*    - Reject:  candidate invalid -> active table and its text unchanged  *)
(*    - Install: otherwise -> the candidate's table is published           *)
(* There is no crash action: no text may end the loop.                     *)
(***************************************************************************)
EXTENDS Integers, Sequences, FiniteSets

CONSTANTS SvcMsgs, ManMsgs, Bad, Den, MaxSteps
\* Den is a function on SvcMsgs \X ManMsgs giving the denoted table (a set)

VARIABLES svccfg, mancfg, last, active, pc, alive, steps
vars == <<svccfg, mancfg, last, active, pc, alive, steps>>

Valid(s, m) == s \notin Bad /\ m \notin Bad
Init == /\ svccfg = "s0" /\ mancfg = "m0" /\ last = <<"none", "none">> /\ active = {}
        /\ pc = "select" /\ alive = TRUE /\ steps = 0
RecvSvc(v) == /\ pc = "select" /\ steps < MaxSteps /\ svccfg' = v /\ pc' = "process" /\ steps' = steps + 1
              /\ UNCHANGED <<mancfg, last, active, alive>>
RecvMan(v) == /\ pc = "select" /\ steps < MaxSteps /\ mancfg' = v /\ pc' = "process" /\ steps' = steps + 1
              /\ UNCHANGED <<svccfg, last, active, alive>>
Same    == /\ pc = "process" /\ <<svccfg, mancfg>> = last /\ pc' = "select"
           /\ UNCHANGED <<svccfg, mancfg, last, active, alive, steps>>
Reject  == /\ pc = "process" /\ <<svccfg, mancfg>> # last /\ ~Valid(svccfg, mancfg) /\ pc' = "select"
           /\ UNCHANGED <<svccfg, mancfg, last, active, alive, steps>>
Install == /\ pc = "process" /\ <<svccfg, mancfg>> # last /\ Valid(svccfg, mancfg) /\ pc' = "select"
           /\ active' = Den[<<svccfg, mancfg>>] /\ last' = <<svccfg, mancfg>>
           /\ UNCHANGED <<svccfg, mancfg, alive, steps>>
Next == (\E v \in SvcMsgs : RecvSvc(v)) \/ (\E v \in ManMsgs : RecvMan(v)) \/ Same \/ Reject \/ Install
Spec == Init /\ [][Next]_vars /\ WF_vars(Same \/ Reject \/ Install)

\* C02: the active table is the complete table of the most recent valid candidate
LastGood == active = (IF last[1] = "none" THEN {} ELSE Den[last])
NeverDies == alive
InvalidKeeps == [][(pc = "process" /\ ~Valid(svccfg, mancfg)) => active' = active]_vars
NextValidApplied == [][(pc = "process" /\ pc' = "select" /\ Valid(svccfg, mancfg)) => active' = Den[<<svccfg, mancfg>>]]_vars
AtSelectCurrent == (pc = "select" /\ steps > 0 /\ Valid(svccfg, mancfg)) => active = Den[<<svccfg, mancfg>>]
=============================================================================
