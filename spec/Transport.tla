----------------------------- MODULE Transport -----------------------------
(***************************************************************************)
(* The upstream connection limits of fabio's HTTP proxy, transcribed from  *)
(* the statement of property C19 and the documentation of the options      *)
(* proxy.dialtimeout, proxy.responseheadertimeout, proxy.keepalivetimeout, *)
(* proxy.idleconntimeout and proxy.maxconn.                                *)
(*                                                                         *)
(* State: the package-level configuration the transports are built from    *)
(* (transport.cfg), what the operator configured last, and the transports   *)
(* built so far.  Actions: SetConfig(c), NewTransport(kind) for the default *)
(* and the skip-verify ("insecure") transport of a proxy,                   *)
(* AddTargetTransport for the per-route transport of a target with a host   *)
(* override (route.addTarget), RoundTrip(i, d): a request through           *)
(* transport i to an upstream that sends its response header after d.       *)
(*                                                                         *)
(* "The configured limits are the ones used" has two halves: every built   *)
(* transport carries the five configured values, AND NO OTHER LIMIT is      *)
(* introduced that would defeat them (a cap on idle connections over all    *)
(* hosts defeats "idle connections per host"; a cap on connections per host *)
(* makes requests queue inside the transport, a wait bounded by neither the *)
(* dial nor the response-header timeout; disabled keep-alives defeat the    *)
(* idle options).  A transport is therefore specified by its observable     *)
(* limits: Outcome, Concurrent, NewConnsAfterBursts.                        *)
(*                                                                         *)
(* The second machine (Main...) is the start-up order of main(): the        *)
(* configuration is set, the FIRST routing table is built (per-route        *)
(* transports), the servers are started (default and skip-verify            *)
(* transports).                                                             *)
(*                                                                         *)
(* Named deviations (the required design has none of them):                 *)
(*   SelfAssign      SetConfig assigns its parameter to itself (pinned tree) *)
(*   ExtraLimit      "maxidletotal" | "maxconns": NewTransport also sets    *)
(*                   MaxIdleConns / MaxConnsPerHost from proxy.maxconn      *)
(*   LateSetConfig   main() sets the configuration only after the first     *)
(*                   table was built                                        *)
(*   HandlerDeviation "gzipdelay": the compressing handler in front of the  *)
(*                   transport swallows a status that comes without a body; *)
(*                   "expectwait": the transport waits for 100 Continue     *)
(*                   before it sends the body of an Expect request;         *)
(*                   "retryreused": a body-less request that failed on a    *)
(*                   connection taken from the idle pool is sent once more, *)
(*                   a timeout included; "bodydeadline": the request gets a *)
(*                   deadline of dial + response-header timeout which also  *)
(*                   cuts the copy of the response body                     *)
(*                                                                         *)
(*                   "wraperror": something around the transport (tracing)  *)
(*                   wraps its errors, the timeout is no longer recognised; *)
(*                   "redial": a dial that timed out is tried once more;    *)
(*                   "firststatus": after an informational (1xx) response   *)
(*                   the final status is not written any more               *)
(*                                                                         *)
(* Histories: a request may travel over a NEW connection or over one an     *)
(* earlier request left in the idle pool (ConnKinds); the response header   *)
(* may be followed by a body that takes long to arrive.  The response-      *)
(* header timeout bounds the wait for the header on either kind of          *)
(* connection, and no option bounds the body: a response whose header came  *)
(* in time is delivered completely.                                         *)
(*                                                                         *)
(* Value ranges: the options keep the meaning of the Go fields they are     *)
(* documented to configure: a timeout of 0 is "none", proxy.maxconn 0 is    *)
(* Go's default, keep-alive 0 is Go's default probe idle time (15 s) and a  *)
(* NEGATIVE keep-alive switches the probes off (net.Dialer.KeepAlive).      *)
(***************************************************************************)
EXTENDS Integers, Sequences, FiniteSets

CONSTANTS
    Configs,        \* records [name, dial, rht, ka, idle, maxidle]; durations in ms, all positive
    DelayClasses,   \* {"zero", "below", "above"}: upstream delay relative to the response-header timeout
    MaxOps,
    SelfAssign, ExtraLimit, LateSetConfig, HandlerDeviation

Kinds == {"default", "insecure", "hostoverride"}
Zero == [name |-> "zero", dial |-> 0, rht |-> 0, ka |-> 0, idle |-> 0, maxidle |-> 0]   \* Go zero values: unlimited

NoExtra == [maxidletotal |-> 0, maxconns |-> 0]     \* 0 = no such limit (Go's zero Transport)
ExtraOf(c) == CASE ExtraLimit = "maxidletotal" -> [NoExtra EXCEPT !.maxidletotal = c.maxidle]
                [] ExtraLimit = "maxconns" -> [NoExtra EXCEPT !.maxconns = c.maxidle]
                [] OTHER -> NoExtra

VARIABLES
    cfg,            \* transport.cfg
    configured,     \* ghost: what the operator configured last (Zero: nothing yet)
    built,          \* transports: <<[kind, vals, want]>>, want = ghost: the configuration in force when it was built
    hist,           \* ghost: the operations so far
    mpc             \* main(): "start" | "configured" | "tabled" | "serving1" | "serving" (second machine, below)
vars == <<cfg, configured, built, hist, mpc>>

Init == cfg = Zero /\ configured = Zero /\ built = <<>> /\ hist = <<>> /\ mpc = "start"

SetConfig(c) ==
    /\ Len(hist) < MaxOps
    /\ cfg' = IF SelfAssign THEN cfg ELSE c
    /\ configured' = c
    /\ hist' = Append(hist, [op |-> "set", kind |-> "", c |-> c])
    /\ UNCHANGED <<built, mpc>>

Build(kind) ==
    /\ Len(hist) < MaxOps
    /\ built' = Append(built, [kind |-> kind, vals |-> cfg, want |-> configured, extra |-> ExtraOf(cfg)])
    /\ hist' = Append(hist, [op |-> "new", kind |-> kind, c |-> configured])
    /\ UNCHANGED <<cfg, configured, mpc>>
NewTransport(kind) == kind \in {"default", "insecure"} /\ Build(kind)
AddTargetTransport == Build("hostoverride")

\* the delay of a class, relative to the timeout T (>= 10x apart)
DelayOf(class, T) == CASE class = "zero" -> 0 [] class = "below" -> T \div 10 [] class = "above" -> T * 10
\* what a client of the proxy sees: status and the time within which it must arrive (slack is
\* added by the check).  vals.rht = 0 means no limit.
Outcome(vals, d) ==
    IF vals.rht > 0 /\ d > vals.rht THEN [status |-> 504, within |-> vals.rht]
    ELSE [status |-> 200, within |-> d]

\* k requests at once through one transport to one upstream that answers after d: request i
\* (1..k) is answered like a single one -- unless connections per host are capped, then it
\* waits for (i-1) \div cap earlier rounds to time out first.
Concurrent(vals, extra, k, d) ==
    [i \in 1..k |->
        LET o == Outcome(vals, d)
            rounds == IF extra.maxconns > 0 THEN (i - 1) \div extra.maxconns ELSE 0 IN
        [status |-> o.status, within |-> o.within * (rounds + 1)]]

\* Bursts of n concurrent requests to upstream A, then to upstream B, then to A again through
\* one transport (idle timeout not elapsed): how many NEW connections does the second A burst
\* open?  Per host min(n, maxidle) connections stay idle (maxidle = 0: Go keeps 2); a cap on
\* the total evicts the oldest (A's) first when B's become idle.
Min(a, b) == IF a < b THEN a ELSE b
Max2(a, b) == IF a > b THEN a ELSE b
NewConnsAfterBursts(vals, extra, n) ==
    LET perhost == Min(n, IF vals.maxidle > 0 THEN vals.maxidle ELSE 2)
        keptA == IF extra.maxidletotal > 0 THEN Min(perhost, Max2(0, extra.maxidletotal - perhost)) ELSE perhost
    IN n - keptA

\* what a dialled connection shows of proxy.keepalivetimeout (ms): -1 = probes off, else the
\* idle time in seconds before the first probe
KeepIdleOf(ka) == IF ka < 0 THEN -1 ELSE IF ka = 0 THEN 15 ELSE ka \div 1000

\* The handlers fabio puts in front of the transport (compression when proxy.gzip.contenttype
\* is set and the client accepts gzip, the access log) and the kind of request (GET, HEAD,
\* POST with a body, POST with "Expect: 100-continue") do not change what the client sees.
\* (also tracing when tracing.TracingEnabled is set, the metrics of metrics.target)
Wraps == {"plain", "gzip", "log", "gzip+log", "trace", "metrics", "trace+metrics+gzip+log"}
HasTrace(w) == w \in {"trace", "trace+metrics+gzip+log"}
HasGzip(w) == w \in {"gzip", "gzip+log", "trace+metrics+gzip+log"}
ReqKinds == {"GET", "HEAD", "POST", "EXPECT"}
Served(vals, d, wrap, req) ==
    LET o == Outcome(vals, d) IN
    IF HandlerDeviation = "gzipdelay" /\ HasGzip(wrap) /\ o.status = 504
    THEN [o EXCEPT !.status = 200]
    ELSE IF HandlerDeviation = "wraperror" /\ HasTrace(wrap) /\ o.status = 504
    THEN [o EXCEPT !.status = 500]
    ELSE IF HandlerDeviation = "expectwait" /\ req = "EXPECT" /\ o.status = 504
    THEN [o EXCEPT !.within = @ + 1000]
    ELSE o

\* ... nor does the connection the request travels on
ConnKinds == {"new", "reused"}
ServedOn(vals, d, req, conn) ==
    LET o == Outcome(vals, d) IN
    IF HandlerDeviation = "retryreused" /\ conn = "reused" /\ req \in {"GET", "HEAD"} /\ o.status = 504
    THEN [o EXCEPT !.within = @ * 2]
    ELSE o
\* An upstream that never answers the SYN: the dial timeout bounds the wait for the connection
\* the same way (dial 0: no bound of fabio's own); the client gets a gateway error.
Unreachable(vals) ==
    [status |-> 504, within |-> IF HandlerDeviation = "redial" THEN 2 * vals.dial ELSE vals.dial]
\* An upstream may send informational responses (103 Early Hints, 102 Processing) first.  They
\* are not the answer: the response-header timeout waits for the FINAL header, and the client
\* sees the final status `final` of the upstream when that comes in time.
Informed(vals, d, pre, final) ==
    LET o == Outcome(vals, d)
        st == IF o.status = 200 THEN final ELSE o.status IN
    IF HandlerDeviation = "firststatus" /\ pre # "none" THEN [o EXCEPT !.status = 200] ELSE [o EXCEPT !.status = st]
\* a response whose header arrives after d and whose body takes another b to arrive
Delivered(vals, d, b) ==
    LET o == Outcome(vals, d) IN
    [status |-> o.status, within |-> o.within,
     complete |-> ~(HandlerDeviation = "bodydeadline" /\ vals.rht > 0 /\ d + b > vals.dial + vals.rht)]
\* a body that outlasts dial timeout + response-header timeout together (2x)
LongBody(c) == 2 * (c.dial + c.rht)

Next == \/ \E c \in Configs : SetConfig(c)
        \/ \E k \in {"default", "insecure"} : NewTransport(k)
        \/ AddTargetTransport
Spec == Init /\ [][Next]_vars

-----------------------------------------------------------------------------
\* the configuration in force at position i of the history, recomputed from the history alone
RECURSIVE LastSet(_, _)
LastSet(h, i) == IF i = 0 THEN Zero ELSE IF h[i].op = "set" THEN h[i].c ELSE LastSet(h, i - 1)
BuildPositions == {i \in DOMAIN hist : hist[i].op = "new"}
NthBuild(n) == CHOOSE i \in BuildPositions : Cardinality({j \in BuildPositions : j <= i}) = n

TypeOK == cfg \in Configs \cup {Zero} /\ \A i \in DOMAIN built : built[i].kind \in Kinds

\* every transport carries the five values configured when it was built
CarriesConfigured ==
    \A n \in DOMAIN built : built[n].vals = LastSet(hist, NthBuild(n)) /\ built[n].want = LastSet(hist, NthBuild(n))

\* ... and therefore a slow upstream is cut off, a timely one is served
LimitsEnforced ==
    \A n \in DOMAIN built : built[n].want.rht > 0 =>
        \A cl \in DelayClasses :
            LET T == built[n].want.rht
                o == Outcome(built[n].vals, DelayOf(cl, T)) IN
            IF cl = "above" THEN o.status = 504 /\ o.within <= T ELSE o.status = 200

\* ... whatever handlers wrap the transport and whatever kind of request it is
HandlersTransparent ==
    \A n \in DOMAIN built : built[n].want.rht > 0 =>
        \A cl \in DelayClasses : \A w \in Wraps : \A r \in ReqKinds :
            LET d == DelayOf(cl, built[n].want.rht) IN
            Served(built[n].vals, d, w, r) = Outcome(built[n].want, d)

ReuseTransparent ==
    \A n \in DOMAIN built : built[n].want.rht > 0 =>
        \A cl \in DelayClasses : \A r \in ReqKinds : \A k \in ConnKinds :
            LET d == DelayOf(cl, built[n].want.rht) IN
            ServedOn(built[n].vals, d, r, k) = Outcome(built[n].want, d)
DialBounded ==
    \A n \in DOMAIN built : built[n].want.dial > 0 =>
        Unreachable(built[n].vals).within <= built[n].want.dial
InformationalTransparent ==
    \A n \in DOMAIN built : built[n].want.rht > 0 =>
        \A cl \in DelayClasses : \A f \in {200, 404} :
            LET d == DelayOf(cl, built[n].want.rht)
                o == Outcome(built[n].want, d) IN
            Informed(built[n].vals, d, "103", f).status = (IF o.status = 200 THEN f ELSE o.status)
\* ... and a response that began in time is delivered completely, however long its body takes
BodyNotLimited ==
    \A n \in DOMAIN built : built[n].want.rht > 0 =>
        \A b \in {0, LongBody(built[n].want)} :
            LET r == Delivered(built[n].vals, DelayOf("below", built[n].want.rht), b) IN
            r.status = 200 /\ r.complete

\* ... no other limit is introduced
NoOtherLimit == \A n \in DOMAIN built : built[n].extra = NoExtra
\* ... so k concurrent requests to a hanging upstream are ALL cut off within the timeout
Burst(m) == {1, m, m + 1, 10 * m}
ConcurrencyBounded ==
    \A n \in DOMAIN built : built[n].want.rht > 0 =>
        LET T == built[n].want.rht IN
        \A k \in Burst(built[n].want.maxidle) :
            LET r == Concurrent(built[n].vals, built[n].extra, k, DelayOf("above", T)) IN
            \A i \in 1..k : r[i].status = 504 /\ r[i].within <= T
\* ... and the idle connections to one upstream survive traffic to another one
IdlePerHostKept ==
    \A n \in DOMAIN built : built[n].want # Zero =>
        \A b \in 1..built[n].want.maxidle : NewConnsAfterBursts(built[n].vals, built[n].extra, b) = 0

-----------------------------------------------------------------------------
(* main(): start-up order.  The operator's configuration exists from the start; the        *)
(* transports of the first routing table and of the servers must carry it.                  *)
CONSTANT Operator       \* the configuration the operator wrote
mvars == vars
MainInit == cfg = Zero /\ configured = Operator /\ built = <<>> /\ hist = <<>> /\ mpc = "start"
MBuild(kind) == /\ built' = Append(built, [kind |-> kind, vals |-> cfg, want |-> configured, extra |-> ExtraOf(cfg)])
                /\ hist' = Append(hist, [op |-> "new", kind |-> kind, c |-> configured])
                /\ UNCHANGED <<cfg, configured>>
MSetConfig == /\ mpc = (IF LateSetConfig THEN "tabled" ELSE "start")
              /\ cfg' = IF SelfAssign THEN cfg ELSE Operator
              /\ hist' = Append(hist, [op |-> "set", kind |-> "", c |-> Operator])
              /\ mpc' = (IF LateSetConfig THEN "late-configured" ELSE "configured")
              /\ UNCHANGED <<configured, built>>
\* the first routing table: one target with a host override
FirstTable == /\ mpc = (IF LateSetConfig THEN "start" ELSE "configured")
              /\ MBuild("hostoverride") /\ mpc' = "tabled"
\* startServers -> newHTTPProxy: the default transport (the skip-verify one follows in StartServers2)
StartServers == /\ mpc = (IF LateSetConfig THEN "late-configured" ELSE "tabled")
                /\ MBuild("default") /\ mpc' = "serving1"
StartServers2 == /\ mpc = "serving1" /\ MBuild("insecure") /\ mpc' = "serving"
MainNext == MSetConfig \/ FirstTable \/ StartServers \/ StartServers2
MainSpec == MainInit /\ [][MainNext]_mvars
\* every transport main() ever builds carries the operator's configuration
MainCarries == \A n \in DOMAIN built : built[n].vals = Operator
MainServes == mpc = "serving" => Len(built) = 3
=============================================================================
