----------------------------- MODULE Transport -----------------------------
(***************************************************************************)
(* The upstream connection limits of fabio's HTTP proxy, transcribed from  *)
(* the statement of property C19 and the documentation of the options      *)
(* proxy.dialtimeout, proxy.responseheadertimeout, proxy.keepalivetimeout, *)
(* proxy.idleconntimeout and proxy.maxconn.                                *)
(*                                                                         *)
(* State: the package-level configuration the transports are built from    *)
(* (transport.cfg), what the operator configured last, and the transports   *)
(* built so far.  Actions: SetConfig(c), NewTransport(kind) for the default *)
(* and the skip-verify ("insecure") transport of a proxy,                   *)
(* AddTargetTransport for the per-route transport of a target with a host   *)
(* override (route.addTarget), RoundTrip(i, d): a request through           *)
(* transport i to an upstream that sends its response header after d.       *)
(*                                                                         *)
(* SelfAssign names the deviation of the pinned tree (SetConfig assigns its *)
(* parameter to itself, the package configuration never changes); the       *)
(* required design has it FALSE.                                            *)
(***************************************************************************)
EXTENDS Integers, Sequences, FiniteSets

CONSTANTS
    Configs,        \* records [name, dial, rht, ka, idle, maxidle]; durations in ms, all positive
    DelayClasses,   \* {"zero", "below", "above"}: upstream delay relative to the response-header timeout
    MaxOps,
    SelfAssign

Kinds == {"default", "insecure", "hostoverride"}
Zero == [name |-> "zero", dial |-> 0, rht |-> 0, ka |-> 0, idle |-> 0, maxidle |-> 0]   \* Go zero values: unlimited

VARIABLES
    cfg,            \* transport.cfg
    configured,     \* ghost: what the operator configured last (Zero: nothing yet)
    built,          \* transports: <<[kind, vals, want]>>, want = ghost: the configuration in force when it was built
    hist            \* ghost: the operations so far
vars == <<cfg, configured, built, hist>>

Init == cfg = Zero /\ configured = Zero /\ built = <<>> /\ hist = <<>>

SetConfig(c) ==
    /\ Len(hist) < MaxOps
    /\ cfg' = IF SelfAssign THEN cfg ELSE c
    /\ configured' = c
    /\ hist' = Append(hist, [op |-> "set", kind |-> "", c |-> c])
    /\ UNCHANGED built

Build(kind) ==
    /\ Len(hist) < MaxOps
    /\ built' = Append(built, [kind |-> kind, vals |-> cfg, want |-> configured])
    /\ hist' = Append(hist, [op |-> "new", kind |-> kind, c |-> configured])
    /\ UNCHANGED <<cfg, configured>>
NewTransport(kind) == kind \in {"default", "insecure"} /\ Build(kind)
AddTargetTransport == Build("hostoverride")

\* the delay of a class, relative to the timeout T (>= 10x apart)
DelayOf(class, T) == CASE class = "zero" -> 0 [] class = "below" -> T \div 10 [] class = "above" -> T * 10
\* what a client of the proxy sees: status and the time within which it must arrive (slack is
\* added by the check).  vals.rht = 0 means no limit.
Outcome(vals, d) ==
    IF vals.rht > 0 /\ d > vals.rht THEN [status |-> 504, within |-> vals.rht]
    ELSE [status |-> 200, within |-> d]

Next == \/ \E c \in Configs : SetConfig(c)
        \/ \E k \in {"default", "insecure"} : NewTransport(k)
        \/ AddTargetTransport
Spec == Init /\ [][Next]_vars

-----------------------------------------------------------------------------
\* the configuration in force at position i of the history, recomputed from the history alone
RECURSIVE LastSet(_, _)
LastSet(h, i) == IF i = 0 THEN Zero ELSE IF h[i].op = "set" THEN h[i].c ELSE LastSet(h, i - 1)
BuildPositions == {i \in DOMAIN hist : hist[i].op = "new"}
NthBuild(n) == CHOOSE i \in BuildPositions : Cardinality({j \in BuildPositions : j <= i}) = n

TypeOK == cfg \in Configs \cup {Zero} /\ \A i \in DOMAIN built : built[i].kind \in Kinds

\* every transport carries the five values configured when it was built
CarriesConfigured ==
    \A n \in DOMAIN built : built[n].vals = LastSet(hist, NthBuild(n)) /\ built[n].want = LastSet(hist, NthBuild(n))

\* ... and therefore a slow upstream is cut off, a timely one is served
LimitsEnforced ==
    \A n \in DOMAIN built : built[n].want # Zero =>
        \A cl \in DelayClasses :
            LET T == built[n].want.rht
                o == Outcome(built[n].vals, DelayOf(cl, T)) IN
            IF cl = "above" THEN o.status = 504 /\ o.within <= T ELSE o.status = 200
=============================================================================
