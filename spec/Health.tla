---------------------------- MODULE Health ----------------------------
(***************************************************************************)
(* The health rule of property C01, transcribed from the statement: an     *)
(* instance (node, service id) is routed iff it has at least one service   *)
(* check, some check of the instance has an accepted status (all of them   *)
(* in strict mode), the node's agent is alive (no critical serfHealth),    *)
(* the node is not in maintenance, the service is not in maintenance, and  *)
(* the service advertises a routing tag.                                   *)
(*                                                                         *)
(* A check is a record [node, sid, kind, st]; kind is "c1"/"c2" (ordinary  *)
(* service checks), "serf", "nodemaint" (sid = "") or "svcmaint".          *)
(* Maintenance checks are always critical, as Consul creates them.         *)
(***************************************************************************)
EXTENDS Integers, Sequences, FiniteSets

ServiceKinds == {"c1", "c2"}

\* M is a sequence of checks (a multiset: order is irrelevant to the rule)
Idx(M) == DOMAIN M
OfInstance(M, n, s) == {k \in Idx(M) : M[k].node = n /\ M[k].sid = s}
Healthy(M, n, s, acc, strict, tagged) ==
    LET all  == OfInstance(M, n, s)
        mine == {k \in all : M[k].kind \in ServiceKinds} IN
    /\ <<n, s>> \in tagged        \* tagged: the set of instances <<node, service id>> that advertise a routing tag
    /\ mine # {}
    /\ \E k \in all : M[k].st \in acc
    /\ strict => \A k \in all : M[k].st \in acc
    /\ ~\E k \in Idx(M) : M[k].node = n /\ M[k].kind = "serf" /\ M[k].st = "critical"
    /\ ~\E k \in Idx(M) : M[k].node = n /\ M[k].kind = "nodemaint"
    /\ ~\E k \in all : M[k].kind = "svcmaint" /\ M[k].st = "critical"
=============================================================================
