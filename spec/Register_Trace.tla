---------------------------- MODULE Register_Trace ----------------------------
(* Validation of executions recorded from the real consul backend (and, in mode "loop", the  *)
(* real main.watchBackend) against Register: every event logged by the fake agent            *)
(* (harness/x/x01_agent.go) and by the harness must be the corresponding action; channel     *)
(* operations, goroutine starts and timers are not observable and are silent steps.          *)
(*                                                                                           *)
(*   Reset{mode}            a new rig (fresh backend, fresh agent)                           *)
(*   Boot / Ret             initBackend's Register(nil): invocation / response               *)
(*   Call{want} / Ret       mode "be": direct be.Register(want)                              *)
(*   KResp{val}, HResp      mode "loop": a watcher has a value for the update loop           *)
(*   Install{aliases}       mode "loop": route.SetTable (hook)                               *)
(*   Shut / ShutRet         DeregisterAll: invocation / response                             *)
(*   Lose{n}                fault injected into the agent                                    *)
(*   AReg{n,ok,body} ADereg{n} ASvcs{has} ATTL{n}    requests answered by the agent          *)
EXTENDS Register_MC, IOUtils
VARIABLES l, mode, pendK, pendS, mancfg

TraceLog == ndJsonDeserialize(IOEnv.VERIF_TRACE)
ToSet(q) == {q[i] : i \in DOMAIN q}
tvars == <<l, mode, pendK, pendS, mancfg>>
allvars == <<vars, tvars>>

TInit == TLCSet(1, 0) /\ Init /\ l = 1 /\ mode = "be" /\ pendK = "-" /\ pendS = FALSE /\ mancfg = "none"
Ev(e) == l <= Len(TraceLog) /\ TraceLog[l].ev = e /\ l' = l + 1
E == TraceLog[l]
Same == UNCHANGED <<mode, pendK, pendS, mancfg>>
CandOf(id) == CHOOSE c \in Cands : c.id = id

TReset == /\ Ev("Reset") /\ mode' = E.mode /\ pendK' = "-" /\ pendS' = FALSE /\ mancfg' = "none"
          /\ catalog' = {} /\ ttl' = [n \in Names |-> "none"] /\ age' = [n \in Names |-> 0]
          /\ dmap' = {} /\ g' = [n \in Names |-> NoG] /\ timer' = [n \in Names |-> 0]
          /\ upd' = [pc |-> "reg", want |-> OwnSet, cur |-> "-", ok |-> FALSE, doc |-> {}, cid |-> "boot"]
          /\ sig' = [pc |-> "idle", seen |-> {}, cur |-> "-"]
          /\ wanted' = OwnSet /\ active' = {} /\ lastOk' = "init" /\ exited' = FALSE
          /\ nfault' = 0 /\ nfail' = 0 /\ ncand' = 0 /\ stale' = {}
TBoot  == Ev("Boot") /\ upd.cid = "boot" /\ upd.pc = "reg" /\ dmap = {} /\ UNCHANGED vars /\ Same
TCall  == /\ Ev("Call") /\ mode = "be" /\ Same
          /\ Candidate([id |-> ToString(l), adds |-> ToSet(E.want), dels |-> {}, ok |-> TRUE])
TRet   == Ev("Ret") /\ UpdFinish /\ Same
TLose  == Ev("Lose") /\ AgentLoses(E.n) /\ Same
TShut  == Ev("Shut") /\ SigStart /\ Same
TShutRet == Ev("ShutRet") /\ SigDone /\ Same

TAReg  == /\ Ev("AReg") /\ E.body = "ok" /\ Same
          /\ \/ E.ok = 1 /\ GRegister(E.n, TRUE)
             \/ E.ok = 0 /\ GRegister(E.n, FALSE)
\* a deregistration / TTL update with an empty service id comes from a goroutine whose register request failed
TADereg == /\ Ev("ADereg") /\ Same
           /\ \/ E.n # "" /\ g[E.n].sid /\ GDereg(E.n)
              \/ E.n = "" /\ \E n \in Names : ~g[n].sid /\ GDereg(n)
TASvcs == /\ Ev("ASvcs") /\ Same /\ ToSet(E.has) = catalog
          /\ \E n \in Names : g[n].sid /\ GCheck(n)
TTLOf(n) == \/ GPass(n)
            \/ GRefresh(n)
            \/ g[n].pc = "wait" /\ RefreshEffect(n)         \* timer fired + refresh request
TATTL  == /\ Ev("ATTL") /\ Same /\ E.status = "passing"
          /\ \/ E.n # "" /\ g[E.n].sid /\ TTLOf(E.n)
             \/ E.n = "" /\ \E n \in Names : ~g[n].sid /\ TTLOf(n)

\* mode "loop": what the two watchers hand to the update loop
TKResp == /\ Ev("KResp") /\ mode = "loop" /\ pendK = "-" /\ pendK' = E.val
          /\ UNCHANGED <<vars, mode, pendS, mancfg>>
THResp == /\ Ev("HResp") /\ mode = "loop" /\ ~pendS /\ pendS' = TRUE
          /\ UNCHANGED <<vars, mode, pendK, mancfg>>
TInstall == /\ Ev("Install") /\ mode = "loop" /\ upd.ok /\ UpdFinish /\ active' = ToSet(E.aliases) /\ Same
TSkip  == /\ l <= Len(TraceLog) /\ TraceLog[l].ev \in {"Reg", "KReq", "HReq", "CResp"} /\ l' = l + 1
          /\ UNCHANGED vars /\ Same

\* silent steps
TakeK  == /\ mode = "loop" /\ pendK # "-" /\ upd.pc = "idle" /\ Candidate(CandOf(pendK))
          /\ mancfg' = pendK /\ pendK' = "-" /\ UNCHANGED <<l, mode, pendS>>
TakeS  == /\ mode = "loop" /\ pendS /\ upd.pc = "idle" /\ Candidate(CandOf(mancfg))
          /\ pendS' = FALSE /\ UNCHANGED <<l, mode, pendK, mancfg>>
FinishBad == mode = "loop" /\ ~upd.ok /\ upd.cid # "boot" /\ UpdFinish /\ UNCHANGED tvars
Silent == \/ /\ UNCHANGED tvars
             /\ \/ UpdPickAny \/ UpdSend \/ UpdRecv \/ UpdSpawnAny
                \/ SigPickAny \/ SigSend \/ SigRecv
                \/ \E n \in Names : ~g[n].sid /\ GCheck(n)
          \/ TakeK \/ TakeS \/ FinishBad

TNext == \/ TReset \/ TBoot \/ TCall \/ TRet \/ TLose \/ TShut \/ TShutRet
         \/ TAReg \/ TADereg \/ TASvcs \/ TATTL \/ TKResp \/ THResp \/ TInstall \/ TSkip \/ Silent
TSpec == TInit /\ [][TNext]_allvars

HW == TLCSet(1, IF TLCGet(1) < l THEN l ELSE TLCGet(1))
\* on rejection the first event no behaviour of the specification explains is printed
Accepted == \/ TLCGet(1) = Len(TraceLog) + 1
            \/ PrintT(<<"x01-unexplained", TLCGet(1), ToJson(TraceLog[TLCGet(1)])>>) /\ FALSE
=============================================================================
