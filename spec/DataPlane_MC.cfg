SPECIFICATION Spec
CONSTANTS
  Procs = {1, 2, 3}
  Ring <- MCRing
  Patterns = {"p1", "p2", "p3"}
  Paths = {"/x", "/y"}
  Addrs = {"in-1", "out"}
  CacheSize = 2
  MaxOps = 5
  FineGrain = FALSE
INVARIANTS ExactShare OwnLocation OwnDecision CacheBounded
CHECK_DEADLOCK FALSE
