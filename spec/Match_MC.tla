---------------------------- MODULE Match_MC ----------------------------
(* Bounded universe for Match, the well-definedness check and the case generator.          *)
(*                                                                                         *)
(* Two-level (three-phase) enumeration so that all TLC workers are used: "build" grows the *)
(* table route by route (a table is a set of indices into the route universe, so each      *)
(* table is one state however it was reached), "ask" examines one transition per           *)
(* (request host, TLS) and that transition prints ONE JSON line holding the expected       *)
(* winner for every request path x matcher x glob on/off.  All fields are integers; the    *)
(* first line of a run (printed by Init) maps the indices to strings.                      *)
EXTENDS Match, Json, TLC

CONSTANTS MaxRoutes,    \* routes per table
          MaxGone,      \* routes that were added and deleted again (`route del`) before the lookup
          MaxBad,       \* 0, or 2: a later configuration document of two routes + one invalid entry is refused
          ObsSel,       \* observers that may read the installed table before the lookup
          MaxObs,       \* how many of them
          PatSel,       \* indices into PatU usable in this run
          PathSel,      \* indices into PathU usable in this run
          HostSel       \* indices into HostU asked in this run

H(n)     == [name |-> n, port |-> <<>>]
HP(n, p) == [name |-> n, port |-> p]

\* host patterns of routes
PatU == <<
    NoHost,                                                     \*  1  (no host)
    H(<<"a", ".", "i", "o">>),                                  \*  2  a.io
    H(<<"*", ".", "i", "o">>),                                  \*  3  *.io
    H(<<"*", ".", "a", ".", "i", "o">>),                        \*  4  *.a.io
    H(<<"b", ".", "a", ".", "i", "o">>),                        \*  5  b.a.io
    H(<<"*", "a", ".", "i", "o">>),                             \*  6  *a.io
    H(<<"*">>),                                                 \*  7  *
    HP(<<"a", ".", "i", "o">>, <<"8", "0">>),                   \*  8  a.io:80
    HP(<<"a", ".", "i", "o">>, <<"8", "0", "8", "0">>),         \*  9  a.io:8080
    H(<<"A", ".", "i", "o">>),                                  \* 10  A.io
    HP(<<"a", ".", "i", "o">>, <<"4", "4", "3">>),              \* 11  a.io:443
    HP(<<"*", ".", "i", "o">>, <<"8", "0", "8", "0">>),         \* 12  *.io:8080
    H(<<"[", ":", ":", "1", "]">>),                             \* 13  [::1]       IPv6 literal
    HP(<<"[", ":", ":", "1", "]">>, <<"8", "0">>),              \* 14  [::1]:80
    HP(<<"[", ":", ":", "1", "]">>, <<"8", "0", "8", "0">>),    \* 15  [::1]:8080
    H(<<"[", ":", ":", "A", "]">>),                             \* 16  [::A]       upper-case hex
    H(<<"{", "b", ",", "c", "}", ".", "a", ".", "i", "o">>),    \* 17  {b,c}.a.io  alternatives
    H(<<"?", ".", "a", ".", "i", "o">>),                        \* 18  ?.a.io      any one character
    H(<<"[", "b", "c", "]", ".", "a", ".", "i", "o">>),         \* 19  [bc].a.io   character class
    HP(<<"*", ".", "a", ".", "i", "o">>, <<"8", "0">>),         \* 20  *.a.io:80   wildcard with explicit default port
    HP(<<"*", ".", "a", ".", "i", "o">>, <<"4", "4", "3">>),    \* 21  *.a.io:443
    HP(<<"*", ".", "a", ".", "i", "o">>, <<"8", "0", "8", "0">>) \* 22  *.a.io:8080
>>
\* route paths
PathU == <<
    <<"/">>,                                                    \* 1  /
    <<"/", "x">>,                                               \* 2  /x
    <<"/", "x", "/", "y">>,                                     \* 3  /x/y
    <<"/", "X", "/", "y">>,                                     \* 4  /X/y
    <<"/", "x", "y">>,                                          \* 5  /xy
    <<"/", "x", "*">>,                                          \* 6  /x*
    <<"/", "x", "/", "y", "*">>,                                \* 7  /x/y*
    <<"/", "*">>                                                \* 8  /*
>>
\* request hosts
HostU == <<
    H(<<"a", ".", "i", "o">>),                                  \*  1  a.io
    H(<<"A", ".", "I", "O">>),                                  \*  2  A.IO
    H(<<"b", ".", "a", ".", "i", "o">>),                        \*  3  b.a.io
    H(<<"B", ".", "a", ".", "I", "o">>),                        \*  4  B.a.Io
    H(<<"c", ".", "b", ".", "a", ".", "i", "o">>),              \*  5  c.b.a.io
    H(<<"x", "a", ".", "i", "o">>),                             \*  6  xa.io
    H(<<"q", ".", "n", "e", "t">>),                             \*  7  q.net
    HP(<<"a", ".", "i", "o">>, <<"8", "0">>),                   \*  8  a.io:80
    HP(<<"a", ".", "i", "o">>, <<"4", "4", "3">>),              \*  9  a.io:443
    HP(<<"a", ".", "i", "o">>, <<"8", "0", "8", "0">>),         \* 10  a.io:8080
    HP(<<"A", ".", "i", "O">>, <<"8", "0", "8", "0">>),         \* 11  A.iO:8080
    H(<<"[", ":", ":", "1", "]">>),                             \* 12  [::1]
    HP(<<"[", ":", ":", "1", "]">>, <<"8", "0">>),              \* 13  [::1]:80
    HP(<<"[", ":", ":", "1", "]">>, <<"4", "4", "3">>),         \* 14  [::1]:443
    HP(<<"[", ":", ":", "1", "]">>, <<"8", "0", "8", "0">>),    \* 15  [::1]:8080
    H(<<"[", ":", ":", "a", "]">>),                             \* 16  [::a]
    HP(<<"[", ":", ":", "A", "]">>, <<"8", "0">>),              \* 17  [::A]:80
    H(<<"c", ".", "a", ".", "i", "o">>),                        \* 18  c.a.io
    H(<<"d", ".", "a", ".", "i", "o">>),                        \* 19  d.a.io
    HP(<<"b", ".", "a", ".", "i", "o">>, <<"8", "0", "8", "0">>), \* 20  b.a.io:8080
    HP(<<"B", ".", "a", ".", "i", "o">>, <<"8", "0">>)          \* 21  B.a.io:80
>>
\* request paths
ReqPathU == <<
    <<"/">>,                                                    \* 1  /
    <<"/", "x">>,                                               \* 2  /x
    <<"/", "x", "/", "y">>,                                     \* 3  /x/y
    <<"/", "X", "/", "Y", "/", "w">>,                           \* 4  /X/Y/w
    <<"/", "x", "y">>,                                          \* 5  /xy
    <<"/", "z">>,                                               \* 6  /z
    <<"/", "x", "/", "y", "z">>                                 \* 7  /x/yz
>>
\* order of the six (matcher, glob) columns of a result row
ComboU == << <<"prefix", TRUE>>, <<"prefix", FALSE>>, <<"iprefix", TRUE>>, <<"iprefix", FALSE>>,
             <<"glob", TRUE>>, <<"glob", FALSE>> >>

NPath == Len(PathU)
\* route index i <-> (pattern, path)
RPat(i)  == ((i - 1) \div NPath) + 1
RPath(i) == ((i - 1) % NPath) + 1
\* a route carries its index as an extra field (Match only looks at .h and .p)
RouteOf(i) == [h |-> PatU[RPat(i)], p |-> PathU[RPath(i)], id |-> i]
RouteIds == {i \in 1..(Len(PatU) * NPath) : RPat(i) \in PatSel /\ RPath(i) \in PathSel}

MCAllPats  == 1..Len(PatU)
MCAllPaths == 1..Len(PathU)
MCAllHosts == 1..Len(HostU)
MCCorePats  == {1, 2, 3, 4, 6, 8, 10, 13, 17, 18, 20}
MCCorePaths == {1, 2, 4, 6}
MCMiniPats  == {1, 2, 3, 4, 6, 13, 17}
MCMiniPaths == {1, 2, 4, 6}
MCTinyPats  == {1, 2, 3}
MCTinyPaths == {1, 2, 3}
MCTwoPats   == {1, 2}

\* The table a request is looked up in is what a HISTORY of route commands has left: the
\* routes that were added and still have a target.  A route whose targets were all deleted
\* again is not a route of the table (it can neither serve nor shadow anything).
\* Between the installation of a table and a lookup other parties READ the table: the text
\* rendering (Table.String), the dump, the admin API (GET /api/routes, with and without ?raw).
\* Reading is not an action on the table: Observe leaves tbl unchanged, so every answer after any
\* number of observations is the answer before them.
VARIABLES tbl,    \* set of route indices: the routes of the table
          gone,   \* routes that were added and then deleted (history; they are not in the table)
          seenBy, \* observers that have read the installed table so far
          bad,    \* routes of a LATER configuration that was refused (it had an invalid entry after them)
          ph      \* "build" | "ask" | "done"
vars == <<tbl, gone, seenBy, bad, ph>>
MCNoObs  == {}
MCAllObs == {"String", "Dump", "api-routes", "api-routes-raw"}

Table(t) == {RouteOf(i) : i \in t}

Universe == [universe |-> [pats  |-> [i \in 1..Len(PatU) |-> [name |-> PatU[i].name, port |-> PatU[i].port]],
                           paths |-> PathU,
                           hosts |-> [i \in 1..Len(HostU) |-> [name |-> HostU[i].name, port |-> HostU[i].port]],
                           rpaths |-> ReqPathU,
                           combos |-> [i \in 1..Len(ComboU) |-> [m |-> ComboU[i][1], g |-> IF ComboU[i][2] THEN 1 ELSE 0]],
                           npath |-> NPath]]

\* normal forms and host classifications of the whole universe, computed once (constant definitions)
NRouteU == [tls \in BOOLEAN |-> [i \in 1..(Len(PatU) * NPath) |-> NRoute(RouteOf(i), tls)]]
NReqU   == [tls \in BOOLEAN |-> [hi \in 1..Len(HostU) |-> [q \in 1..Len(ReqPathU) |->
                NReq(Req(HostU[hi], tls, ReqPathU[q]))]]]
KindU   == [tls \in BOOLEAN |-> [pi \in 1..Len(PatU) |-> [hi \in 1..Len(HostU) |-> [g \in BOOLEAN |->
                MatchKind(HostStr(PatU[pi], tls), HostStr(HostU[hi], tls), g)]]]]
NT(t, tls) == {NRouteU[tls][i] : i \in t}
KT(t, tls, hi, g) == {[r |-> NRouteU[tls][i].r, h |-> NRouteU[tls][i].h, p |-> NRouteU[tls][i].p,
                       lp |-> NRouteU[tls][i].lp, mk |-> KindU[tls][RPat(i)][hi][g]] : i \in t}

\* expected result of one lookup: route index, 0 = no route may be returned, -1 = not well posed
Expect(kt, posed, q, m) ==
    IF ~posed THEN -1
    ELSE LET w == WinnersK(kt, q, m) IN IF w = {} THEN 0 ELSE (CHOOSE v \in w : TRUE).r.id
Rows(t, hi, tls) ==
    LET nt == NT(t, tls)
        kt == [g \in BOOLEAN |-> KT(t, tls, hi, g)]
        wp == [m \in Matchers |-> WellPosedN(nt, m)]
        wa == [g \in BOOLEAN |-> WildAmbiguousK(kt[g])] IN
    [q \in 1..Len(ReqPathU) |->
        [k \in 1..Len(ComboU) |->
            Expect(kt[ComboU[k][2]], wp[ComboU[k][1]] /\ ~wa[ComboU[k][2]], NReqU[tls][hi][q], ComboU[k][1])]]
\* Table.LookupHost(server name): route index that must be returned, 0 = no claim, -1 = not posed
ExpectSni(t, h) ==
    IF h.port # <<>> THEN -1
    ELSE LET c == SniCand(t, h) IN
         IF c = {} THEN 0 ELSE IF Cardinality(c) > 1 THEN -1 ELSE (CHOOSE r \in c : TRUE).id

CaseJson(hi, tls) ==
    LET t == Table(tbl) IN
    [t |-> tbl, d |-> gone, o |-> seenBy, b |-> bad, h |-> hi, tls |-> IF tls THEN 1 ELSE 0,
     w |-> Rows(tbl, hi, tls),
     sni |-> ExpectSni(t, HostU[hi])]

Init == tbl = {} /\ gone = {} /\ seenBy = {} /\ bad = {} /\ ph = "build" /\ PrintT(ToJson(Universe))
\* A configuration that is refused (one of its entries is invalid) changes nothing: the table in
\* force stays the last one that was accepted, whatever valid entries preceded the invalid one.
RejectDoc(i, j) == /\ ph = "ask" /\ MaxBad = 2 /\ bad = {} /\ seenBy = {} /\ i < j /\ RPat(i) = RPat(j)   \* two routes of one host
                   /\ bad' = {i, j} /\ UNCHANGED <<tbl, gone, seenBy, ph>>
Observe(o) == /\ ph = "ask" /\ bad = {} /\ o \in ObsSel \ seenBy /\ Cardinality(seenBy) < MaxObs
              /\ seenBy' = seenBy \cup {o} /\ UNCHANGED <<tbl, gone, bad, ph>>
\* route add
Grow(i) == /\ ph = "build" /\ Cardinality(tbl) < MaxRoutes /\ i \notin tbl \cup gone
           /\ tbl' = tbl \cup {i} /\ ph' = ph /\ gone' = gone /\ seenBy' = seenBy /\ bad' = bad
\* route del of everything route i has
Retire(i) == /\ ph = "build" /\ i \in tbl /\ Cardinality(gone) < MaxGone
             /\ tbl' = tbl \ {i} /\ gone' = gone \cup {i} /\ ph' = ph /\ seenBy' = seenBy /\ bad' = bad
Seal == ph = "build" /\ tbl # {} /\ ph' = "ask" /\ tbl' = tbl /\ gone' = gone /\ seenBy' = seenBy /\ bad' = bad
Ask(hi, tls) == /\ ph = "ask"
                /\ PrintT(ToJson(CaseJson(hi, tls)))
                /\ ph' = "done" /\ tbl' = tbl /\ gone' = gone /\ seenBy' = seenBy /\ bad' = bad
Next == \/ \E i \in RouteIds : Grow(i)
        \/ \E i \in RouteIds : Retire(i)
        \/ \E o \in ObsSel : Observe(o)
        \/ \E i, j \in RouteIds : RejectDoc(i, j)
        \/ Seal
        \/ \E hi \in HostSel, tls \in BOOLEAN : Ask(hi, tls)
Spec == Init /\ [][Next]_vars

\* simulation picks ONE action at random per step, so for random tables all requests of a table
\* are printed by a single action
AskAll == /\ ph = "ask"
          /\ \A hi \in HostSel, tls \in BOOLEAN : PrintT(ToJson(CaseJson(hi, tls)))
          /\ ph' = "done" /\ tbl' = tbl /\ gone' = gone /\ seenBy' = seenBy /\ bad' = bad
SimNext == (\E i \in RouteIds : Grow(i)) \/ (\E i \in RouteIds : Retire(i)) \/ Seal \/ AskAll
SimSpec == Init /\ [][SimNext]_vars

\* the same enumeration without printing, for the well-definedness check
QInit == tbl = {} /\ gone = {} /\ seenBy = {} /\ bad = {} /\ ph = "build"
QNext == (\E i \in RouteIds : Grow(i)) \/ (\E i \in RouteIds : Retire(i)) \/ (\E o \in ObsSel : Observe(o)) \/ Seal
\* reading does not change the table (and hence no answer)
ObserveInv == [][(\E o \in ObsSel : Observe(o)) => tbl' = tbl /\ gone' = gone]_vars
QSpec == QInit /\ [][QNext]_vars

\* Best is well defined: on every well-posed table of the universe, for every request,
\* matcher and glob setting there is exactly one winner iff there is a candidate, and it is
\* what the statement describes.
WellDefined ==
    ph = "ask" =>
      \A tls \in BOOLEAN :
        LET nt == NT(tbl, tls)
            wp == [m \in Matchers |-> WellPosedN(nt, m)] IN
        \A hi \in HostSel, g \in BOOLEAN :
          LET kt == KT(tbl, tls, hi, g)
              wa == WildAmbiguousK(kt) IN
          \A q \in 1..Len(ReqPathU), m \in Matchers :
            (wp[m] /\ ~wa) => BestUniqueK(kt, NReqU[tls][hi][q], m) /\ BestSoundK(kt, NReqU[tls][hi][q], m)
\* the constant tables agree with the definitions on un-normalised data (checked on each table)
TablesAgree ==
    ph = "ask" =>
      \A tls \in BOOLEAN :
        /\ NT(tbl, tls) = NTable(Table(tbl), tls)
        /\ \A hi \in HostSel, q \in 1..Len(ReqPathU) : NReqU[tls][hi][q] = NReq(Req(HostU[hi], tls, ReqPathU[q]))
        /\ \A hi \in HostSel, g \in BOOLEAN :
             /\ KT(tbl, tls, hi, g) = KOf(Table(tbl), Req(HostU[hi], tls, <<"/">>), g)
             /\ \A m \in Matchers : WellPosed(Table(tbl), Req(HostU[hi], tls, <<"/">>), m, g)
                                    = WellPosedK(NT(tbl, tls), KT(tbl, tls, hi, g), m)
\* the glob language: what the patterns of the universe denote, spelled out
GlobFacts ==
    LET b == <<"b", ".", "a", ".", "i", "o">>  c == <<"c", ".", "a", ".", "i", "o">>
        d == <<"d", ".", "a", ".", "i", "o">>  v6 == <<"[", ":", ":", "1", "]">>
        P(i) == HostStr(PatU[i], FALSE) IN
    /\ GlobMatch(P(17), b) /\ GlobMatch(P(17), c) /\ ~GlobMatch(P(17), d) /\ ~GlobMatch(P(17), <<"a", ".", "i", "o">>)
    /\ GlobMatch(P(18), b) /\ GlobMatch(P(18), d) /\ ~GlobMatch(P(18), <<"x", "a", ".", "i", "o">>)
    /\ GlobMatch(P(19), b) /\ GlobMatch(P(19), c) /\ ~GlobMatch(P(19), d)
    /\ GlobMatch(P(4), b) /\ ~GlobMatch(P(4), <<"a", ".", "i", "o">>) /\ GlobMatch(P(6), <<"a", ".", "i", "o">>)
    /\ GlobMatch(P(7), v6) /\ ~GlobMatch(P(13), v6)          \* as a glob "[::1]" is a character class ...
    /\ MatchKind(P(13), v6, TRUE) = "exact" /\ MatchKind(P(13), v6, FALSE) = "exact"   \* ... but it IS the host [::1]
    /\ MatchKind(P(17), b, TRUE) = "wild" /\ MatchKind(P(17), b, FALSE) = "no"
    /\ LitSuffixLen(P(20)) = 5 /\ LitSuffixLen(HostStr(PatU[20], TRUE)) = 8 /\ LitSuffixLen(HostStr(PatU[22], FALSE)) = 10
    /\ LitSuffixLen(P(17)) = 5 /\ LitSuffixLen(P(4)) = 5 /\ LitSuffixLen(P(3)) = 3 /\ LitSuffixLen(P(7)) = 0 /\ LitSuffixLen(P(2)) = 4
ASSUME GlobFacts
\* the universe is not vacuous: route identities are distinct
DistinctRoutes == \A i, j \in RouteIds : i # j => (RouteOf(i).h # RouteOf(j).h \/ RouteOf(i).p # RouteOf(j).p)
ASSUME DistinctRoutes
=============================================================================
