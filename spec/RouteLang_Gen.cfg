\* case generator: one JSON line per examined transition
SPECIFICATION GenSpec
CONSTANTS
  Svc = {"A", "B"}
  Dst = {"http://u1:80/", "http://u2:80/"}
  Srcs <- MCSrcsFull
  W <- MCW
  TagSeqs <- MCTagSeqs
  OptSet <- MCOptsFull
  MaxCmds = 2
VIEW View
CHECK_DEADLOCK FALSE
