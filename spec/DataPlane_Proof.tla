---------------------------- MODULE DataPlane_Proof ----------------------------
(* TLAPS proof that, in the repaired grain (FineGrain = FALSE), the answer to a redirect    *)
(* request and the access decision for a request depend on that request alone - for EVERY   *)
(* number of request processes, ring, set of patterns, paths and addresses and any number   *)
(* of operations (TLC decides it for 3 processes and <=6 operations).                       *)
(* Checked with: tlapm --threads 8 DataPlane_Proof.tla                                      *)
EXTENDS DataPlane, TLAPS

ASSUME Repaired == FineGrain = FALSE

Own == \A g \in Procs :
         /\ (pend[g].op = "redirect" /\ pend[g].res # "?") => pend[g].res = pend[g].arg
         /\ (pend[g].op = "access" /\ pend[g].res # "?") => pend[g].res = Admitted(pend[g].arg)
TypeInv == DOMAIN pend = Procs /\ \A g \in Procs : DOMAIN pend[g] = {"op", "arg", "res", "tmp"}
Ind == TypeInv /\ Own

LEMMA InitInd == Init => Ind
  BY DEF Init, Ind, TypeInv, Own, Idle

LEMMA StepInd == Ind /\ [Next]_vars => Ind'
<1> SUFFICES ASSUME Ind, [Next]_vars PROVE Ind'
  OBVIOUS
<1>0. CASE UNCHANGED vars
  BY <1>0 DEF vars, Ind, TypeInv, Own
<1>1. ASSUME NEW g \in Procs, NEW op, NEW arg, Inv(g, op, arg) PROVE Ind'
  BY <1>1 DEF Inv, Ind, TypeInv, Own
<1>2. ASSUME NEW g \in Procs, LinPick(g) PROVE Ind'
  BY <1>2 DEF LinPick, Ind, TypeInv, Own, U
<1>3. ASSUME NEW g \in Procs, PickRead(g) \/ PickAdd(g) \/ RedirWrite(g) \/ RedirRead(g) PROVE Ind'
  BY <1>3, Repaired DEF PickRead, PickAdd, RedirWrite, RedirRead
<1>4. ASSUME NEW g \in Procs, LinGlob(g) PROVE Ind'
  BY <1>4 DEF LinGlob, Ind, TypeInv, Own
<1>5. ASSUME NEW g \in Procs, LinRedirect(g) PROVE Ind'
  BY <1>5 DEF LinRedirect, Ind, TypeInv, Own
<1>6. ASSUME NEW g \in Procs, LinAccess(g) PROVE Ind'
  BY <1>6 DEF LinAccess, Ind, TypeInv, Own, Admitted
<1>7. ASSUME NEW g \in Procs, LinObserve(g) PROVE Ind'
  BY <1>7 DEF LinObserve, Ind, TypeInv, Own
<1>8. ASSUME NEW g \in Procs, Ret(g) PROVE Ind'
  BY <1>8 DEF Ret, Ind, TypeInv, Own, Idle
<1> QED
  BY <1>0, <1>1, <1>2, <1>3, <1>4, <1>5, <1>6, <1>7, <1>8 DEF Next

THEOREM OwnAnswers == Spec => [](OwnLocation /\ OwnDecision)
<1>1. Init => Ind
  BY InitInd
<1>2. Ind /\ [Next]_vars => Ind'
  BY StepInd
<1>3. Ind => OwnLocation /\ OwnDecision
  BY DEF Ind, Own, OwnLocation, OwnDecision
<1> QED
  BY <1>1, <1>2, <1>3, PTL DEF Spec
=============================================================================
