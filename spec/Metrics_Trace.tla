---------------------------- MODULE Metrics_Trace ----------------------------
(* Validation of an execution recorded from the real proxy front under concurrent clients, a    *)
(* table swapper and a snapshotter (harness/main/x05_conc_test.go) against Metrics.              *)
(*                                                                                              *)
(* Events (one logical clock):                                                                  *)
(*   Inv{c,k,cls,tg,s,sure}  client c starts an exchange; the outcome the client OBSERVED (class, *)
(*                          target that answered, status) is filled in by the recorder          *)
(*   Ret{c}                 the client has the complete answer.  sure=1: the end of the answer    *)
(*                          is causally after the handler returned (HTTP with Connection: close, *)
(*                          tcp); sure=0: the accounting may still be under way (grpc: the stats  *)
(*                          handler runs after the status is sent; a closed tunnel)              *)
(*   Swap{table}            route.SetTable                                                      *)
(*   SnapB{src} SnapE{src,vals,gauge}   one read of a provider (prometheus scrape, stdout lines,  *)
(*                          statsd flush): every value was read between the two events           *)
(*   Settle                 no goroutine is inside a proxy handler any more except open tunnels  *)
(*   Exact{src,vals,gauge,open}  a read while nothing runs                                      *)
(*                                                                                              *)
(* The increments of Metrics (action Inc) are not observable one by one.  The trace actions are  *)
(* macro steps of Metrics that take every increment as LATE as possible: at Ret (sure) or at      *)
(* Settle.  A snapshot is explained iff a schedule of the pending increments exists that yields  *)
(* it: each (group of) metric(s) lies between what had ENDED when the read began and what had     *)
(* STARTED when it ended, and never decreases from one read of the same provider to the next.    *)
(* While nothing runs the store is exact.  Provider views group metrics (stdout has no labels:   *)
(* "status.*" is the sum over the codes; statsd keys route timers by rendered name).             *)
(* Named deviation of the statsd-family providers (go-kit's lv.Space appends an observation to    *)
(* its series outside the lock that Reset takes for a flush): FlushLossy = TRUE admits that a     *)
(* flush which runs while requests are accounted loses observations; the statsd view then has     *)
(* only its upper bounds.                                                                        *)
EXTENDS Metrics_MC, IOUtils
CONSTANT FlushLossy
VARIABLES l, late, lo, last, ws, wsB

TraceLog == ndJsonDeserialize(IOEnv.VERIF_TRACE)
E == TraceLog[l]
Ev(e) == l <= Len(TraceLog) /\ TraceLog[l].ev = e /\ l' = l + 1
ToSet(q) == {q[i] : i \in DOMAIN q}
Srcs == {"prom", "flat", "statsd"}

NameKeys == {"name." \o t : t \in Targets}
ViewKeys == Keys \cup {"status.*", "route.*", "grpc.status.*", "redirect.*"} \cup NameKeys
GroupOf(k) ==
    CASE k = "status.*"      -> {StatusKey(s) : s \in AllStatuses}
      [] k = "route.*"       -> {RouteKey(t) : t \in Targets}
      [] k = "grpc.status.*" -> {GStatusKey(c) : c \in AllCodes}
      [] k = "redirect.*"    -> {"redirect.301"}
      [] k \in NameKeys      -> LET t == CHOOSE u \in Targets : k = "name." \o u IN
                                {RouteKey(u) : u \in {v \in Targets : Name[v] = Name[t]}}
      [] OTHER               -> {k}
Sum(f, G) == MapThenSumSet(LAMBDA c : f[c], G)
Pending(G) == Cardinality({r \in Slots : req[r].pc = "acct" /\ req[r].todo \cap G # {}})

tvars == <<vars, l, late, lo, last, ws, wsB>>
WsZero == [oS |-> 0, oC |-> 0, cS |-> 0, cC |-> 0]
TInit == /\ TLCSet(1, 0) /\ Init /\ l = 2           \* line 1 is the Meta event
         /\ late = Zero(Keys) /\ lo = [s \in Srcs |-> Zero(Keys)] /\ last = [s \in Srcs |-> Zero(ViewKeys)]
         /\ ws = WsZero /\ wsB = [s \in Srcs |-> WsZero]

TTouch(cls, t, s) == IF cls = "wsopen" THEN {} ELSE CodeTouch(cls, t, s)
TInv == /\ Ev("Inv") /\ E.c \in Slots /\ req[E.c].pc = "idle"
        /\ E.cls \in Classes \cup {"wsopen"}
        /\ req' = [req EXCEPT ![E.c] = [pc |-> "acct", k |-> E.k, t |-> E.tg, s |-> E.s, cls |-> E.cls,
                                        todo |-> TTouch(E.cls, E.tg, E.s), gv |-> E.sure]]
        /\ nreq' = nreq + 1
        /\ ws' = IF E.cls = "wsopen" THEN [ws EXCEPT !.oS = @ + 1]
                 ELSE IF E.cls = "ws" THEN [ws EXCEPT !.cS = @ + 1] ELSE ws
        /\ UNCHANGED <<table, nswaps, cnt, conns, gauge, gcode, gdoc, hist, late, lo, last, wsB>>
Ended(r) ==     \* ghost bookkeeping of Metrics!End
    /\ gdoc' = IF req[r].cls = "wsopen" THEN gdoc ELSE Bump(gdoc, DocTouch(req[r].cls, req[r].t, req[r].s))
    /\ hist' = IF req[r].cls = "wsopen" THEN hist ELSE [hist EXCEPT ![req[r].cls] = @ + 1]
TRet == /\ Ev("Ret") /\ E.c \in Slots /\ req[E.c].pc = "acct"
        /\ LET r == E.c IN
           /\ IF req[r].gv = 1
              THEN cnt' = Bump(cnt, req[r].todo) /\ gcode' = Bump(gcode, req[r].todo) /\ late' = late
              ELSE late' = Bump(late, req[r].todo) /\ UNCHANGED <<cnt, gcode>>
           /\ Ended(r)
           /\ ws' = IF req[r].cls = "wsopen" THEN [ws EXCEPT !.oC = @ + 1] ELSE ws
           /\ req' = [req EXCEPT ![r] = Idle]
        /\ UNCHANGED <<table, nswaps, nreq, conns, gauge, lo, last, wsB>>
TSwap == /\ Ev("Swap") /\ ToSet(E.table) \in Tables
         /\ table' = ToSet(E.table) /\ nswaps' = nswaps + 1
         /\ UNCHANGED <<req, nreq, cnt, conns, gauge, gcode, gdoc, hist, late, lo, last, ws, wsB>>
TSnapB == /\ Ev("SnapB") /\ E.src \in Srcs
          /\ lo' = [lo EXCEPT ![E.src] = cnt] /\ wsB' = [wsB EXCEPT ![E.src] = ws]
          /\ UNCHANGED <<vars, late, last, ws>>
GaugeOK(v, b) == IF GaugeAtomic THEN b.oC - ws.cS <= v /\ v <= ws.oS - b.cC
                 ELSE 0 <= v /\ v <= Cardinality(Slots)
TSnapE == /\ Ev("SnapE") /\ E.src \in Srcs
          /\ \A k \in DOMAIN E.vals :
               /\ k \in ViewKeys
               /\ LET G == GroupOf(k) IN
                  /\ (IF FlushLossy /\ E.src = "statsd" THEN TRUE ELSE Sum(lo[E.src], G) <= E.vals[k])
                  /\ last[E.src][k] <= E.vals[k]
                  /\ E.vals[k] <= Sum(cnt, G) + Sum(late, G) + Pending(G)
          /\ GaugeOK(E.gauge, wsB[E.src])
          /\ last' = [last EXCEPT ![E.src] = [k \in ViewKeys |-> IF k \in DOMAIN E.vals THEN E.vals[k] ELSE @[k]]]
          /\ UNCHANGED <<vars, late, lo, ws, wsB>>
TSettle == /\ Ev("Settle") /\ \A r \in Slots : req[r].pc = "idle"
           /\ cnt' = [c \in Keys |-> cnt[c] + late[c]] /\ gcode' = [c \in Keys |-> gcode[c] + late[c]]
           /\ late' = Zero(Keys) /\ ws' = [ws EXCEPT !.cC = ws.cS]
           /\ UNCHANGED <<table, nswaps, req, nreq, conns, gauge, gdoc, hist, lo, last, wsB>>
TExact == /\ Ev("Exact") /\ E.src \in Srcs /\ late = Zero(Keys) /\ \A r \in Slots : req[r].pc = "idle"
          /\ \A k \in DOMAIN E.vals :
               /\ k \in ViewKeys
               /\ IF FlushLossy /\ E.src = "statsd"
                  THEN last[E.src][k] <= E.vals[k] /\ E.vals[k] <= Sum(cnt, GroupOf(k))
                  ELSE E.vals[k] = Sum(cnt, GroupOf(k))
          /\ ws.oS = ws.oC /\ ws.cS = ws.cC /\ E.open = ws.oC - ws.cC
          /\ IF GaugeAtomic THEN E.gauge = E.open ELSE 0 <= E.gauge /\ E.gauge <= Cardinality(Slots)
          /\ last' = [last EXCEPT ![E.src] = [k \in ViewKeys |-> IF k \in DOMAIN E.vals THEN E.vals[k] ELSE @[k]]]
          /\ UNCHANGED <<vars, late, lo, ws, wsB>>

TNext == TInv \/ TRet \/ TSwap \/ TSnapB \/ TSnapE \/ TSettle \/ TExact
TSpec == TInit /\ [][TNext]_tvars

TraceSlots == 1..TraceLog[1].clients
\* the documented conservation laws, evaluated whenever nothing is pending
AtRest == late = Zero(Keys)
TTimerExact    == AtRest => TimerExact
TGrpcExact     == AtRest => GrpcExact
TTcpPartition  == AtRest => TcpPartition
TOneTimerEach  == AtRest => OneTimerEach
TOneStatusEach == AtRest => OneStatusEach
TRequestsExact == AtRest => RequestsExact
TStatusExact   == AtRest => StatusExact
TNoRouteExact  == AtRest => NoRouteExact
TraceAccounted == cnt = gcode /\ \A c \in Keys : late[c] >= 0
HW == TLCSet(1, IF TLCGet(1) < l THEN l ELSE TLCGet(1))
Accepted == \/ TLCGet(1) = Len(TraceLog) + 1
            \/ PrintT(<<"first event that no action of the specification explains:", TLCGet(1), TraceLog[TLCGet(1)]>>) /\ FALSE
=============================================================================
