------------------------------- MODULE Register -------------------------------
(***************************************************************************)
(* fabio's self-registration with the local Consul agent and the alias     *)
(* registrations asked for by routes with the option register=NAME         *)
(* (registry/consul/register.go, backend.go: Register / Deregister /       *)
(* DeregisterAll; main.go: initBackend, watchBackend, the exit handler).   *)
(*                                                                         *)
(* State: the agent's service catalog restricted to fabio's ids with the   *)
(* status of the TTL check of each id, fabio's map of registrations        *)
(* (be.dereg), one registration goroutine per map entry, the update loop   *)
(* (the caller of Register), the signal handler (the caller of             *)
(* DeregisterAll), the aliases asked for by the active routing table.      *)
(*                                                                         *)
(* One action per step another process can observe:                        *)
(*   Candidate(c)           the update loop has a new candidate table      *)
(*   UpdPick/UpdSend/UpdRecv/UpdSpawn/UpdFinish   be.Register(aliases)     *)
(*   GCheck/GRegister/GPass/GTimer/GRefresh/GDereg   the goroutine's HTTP  *)
(*                          calls to the agent and its select              *)
(*   SigStart/SigPick/SigSend/SigRecv/SigDone     DeregisterAll            *)
(*   AgentLoses(n)          fault: the agent forgets a service (restart)   *)
(*   ProcessExit, Crash, Tick, Reap               end of life, time, the   *)
(*                          agent's reaper of critical services            *)
(*                                                                         *)
(* What the documentation promises is stated as invariants / temporal      *)
(* properties at the end.  Where the code does something else the          *)
(* difference is a NAMED constant (TRUE = what the code does):             *)
(*   UnsyncShutdown       DeregisterAll neither clears be.dereg nor stops  *)
(*                        later Register calls, and is not synchronised    *)
(*                        with the update loop                             *)
(*   InvalidDropsAliases  a candidate with a syntax error makes the loop   *)
(*                        call Register(nil): every alias is removed while *)
(*                        the last good table stays active                 *)
(*   DeletedKeepsAlias    ParseAliases collects register= from every       *)
(*                        `route add` line, also of routes that a later    *)
(*                        `route del` removes from the table               *)
(***************************************************************************)
EXTENDS Integers, FiniteSets, Sequences

CONSTANTS
    Alias,                \* alias names that routes can ask for (strings)
    Own,                  \* registry.consul.register.name
    Enabled,              \* registry.consul.register.enabled
    Cands,                \* candidate tables: records [id, adds, dels, ok]
                          \*   adds = names in register= options of `route add` lines,
                          \*   dels \subseteq adds = those whose route a later `route del` removes,
                          \*   ok   = the text parses
    MaxCands, MaxFaults, MaxRegFails,
    Timed,                \* TRUE: discrete time (Tick), TTL expiry, reaper
    RefreshTicks,         \* TTLRefreshInterval in ticks
    TTLTicks,             \* TTLInterval in ticks
    UnsyncShutdown, InvalidDropsAliases, DeletedKeepsAlias

Names  == Alias \cup {Own}
OwnSet == IF Enabled THEN {Own} ELSE {}

VARIABLES
    catalog,    \* the agent: names of fabio's services it has registered
    ttl,        \* the agent: status of the TTL check of each name: none | crit | pass | expired
    age,        \* ticks since the TTL check last passed
    dmap,       \* keys of be.dereg
    g,          \* goroutine per name: [pc, sid]; sid = the goroutine's serviceID variable is set
    timer,      \* ticks a goroutine has spent in its select
    upd,        \* update loop: [pc, want, cur, ok, doc, cid]
    sig,        \* signal handler: [pc, seen, cur]
    wanted,     \* argument (+ own name) of the last Register call that was started
    active,     \* aliases asked for by the routes of the active table
    lastOk,     \* id of the candidate the active table was built from (main.go: lastTable)
    exited,
    nfault, nfail, ncand,
    stale       \* ghost: names whose goroutine still has to repair something
                \* (lost by the agent / failed register request)

agentvars == <<catalog, ttl, age>>
vars == <<catalog, ttl, age, dmap, g, timer, upd, sig, wanted, active, lastOk, exited,
          nfault, nfail, ncand, stale>>

NoG     == [pc |-> "none", sid |-> FALSE]
Live(n) == g[n].pc # "none"
LiveSet == {n \in Names : Live(n)}
IdleUpd == [pc |-> "idle", want |-> {}, cur |-> "-", ok |-> FALSE, doc |-> {}, cid |-> "-"]

\* what the code derives from a candidate, and what the table built from it asks for
CodeAliases(c) == IF ~c.ok THEN {} ELSE IF DeletedKeepsAlias THEN c.adds ELSE c.adds \ c.dels
DocAliases(c)  == c.adds \ c.dels

\* initBackend: Register(nil) is the first call
Init ==
    /\ catalog = {} /\ ttl = [n \in Names |-> "none"] /\ age = [n \in Names |-> 0]
    /\ dmap = {} /\ g = [n \in Names |-> NoG] /\ timer = [n \in Names |-> 0]
    /\ upd = [pc |-> "reg", want |-> OwnSet, cur |-> "-", ok |-> FALSE, doc |-> {}, cid |-> "boot"]
    /\ sig = [pc |-> "idle", seen |-> {}, cur |-> "-"]
    /\ wanted = OwnSet /\ active = {} /\ lastOk = "init" /\ exited = FALSE
    /\ nfault = 0 /\ nfail = 0 /\ ncand = 0 /\ stale = {}

-----------------------------------------------------------------------------
\* ---- update loop (main.watchBackend -> be.Register)
Candidate(c) ==
    /\ ~exited /\ upd.pc = "idle" /\ ncand < MaxCands /\ ncand' = ncand + 1
    /\ IF c.id = lastOk
       THEN UNCHANGED <<upd, wanted>>                        \* same text as the installed one: skipped
       ELSE IF ~c.ok /\ ~InvalidDropsAliases
       THEN UNCHANGED <<upd, wanted>>                        \* documented: an invalid candidate changes nothing
       ELSE IF sig.pc # "idle" /\ ~UnsyncShutdown
       THEN /\ upd' = [pc |-> "fin", want |-> {}, cur |-> "-", ok |-> c.ok, doc |-> DocAliases(c), cid |-> c.id]
            /\ UNCHANGED wanted                              \* documented: no registration after shutdown began
       ELSE /\ upd' = [pc |-> "reg", want |-> OwnSet \cup CodeAliases(c), cur |-> "-",
                       ok |-> c.ok, doc |-> DocAliases(c), cid |-> c.id]
            /\ wanted' = OwnSet \cup CodeAliases(c)
    /\ UNCHANGED <<agentvars, dmap, g, timer, sig, active, lastOk, exited, nfault, nfail, stale>>

\* be.Register, first loop: `for service := range b.dereg` picks an entry that is not needed ...
UpdPick(n) ==
    /\ ~exited /\ upd.pc = "reg" /\ n \in dmap \ upd.want
    /\ upd' = [upd EXCEPT !.pc = "send", !.cur = n]
    /\ UNCHANGED <<agentvars, dmap, g, timer, sig, wanted, active, lastOk, exited, nfault, nfail, ncand, stale>>
\* ... be.Deregister: `dereg <- true` is accepted only by a goroutine in its select
UpdSend ==
    /\ ~exited /\ upd.pc = "send" /\ g[upd.cur].pc = "wait"
    /\ g' = [g EXCEPT ![upd.cur].pc = "dereg"]
    /\ upd' = [upd EXCEPT !.pc = "await"]
    /\ UNCHANGED <<agentvars, dmap, timer, sig, wanted, active, lastOk, exited, nfault, nfail, ncand, stale>>
\* `<-dereg`; delete(b.dereg, service)
UpdRecv ==
    /\ ~exited /\ upd.pc = "await" /\ g[upd.cur].pc = "ack"
    /\ g' = [g EXCEPT ![upd.cur] = NoG]
    /\ dmap' = dmap \ {upd.cur}
    /\ stale' = stale \ {upd.cur}
    /\ upd' = [upd EXCEPT !.pc = "reg", !.cur = "-"]
    /\ UNCHANGED <<agentvars, timer, sig, wanted, active, lastOk, exited, nfault, nfail, ncand>>
\* second loop: register(b.c, serviceReg) starts a goroutine whose serviceID is still empty
UpdSpawn(n) ==
    /\ ~exited /\ upd.pc = "reg" /\ dmap \ upd.want = {} /\ n \in upd.want \ dmap
    /\ dmap' = dmap \cup {n}
    /\ g' = [g EXCEPT ![n] = [pc |-> "register", sid |-> FALSE]]
    /\ stale' = stale \cup {n}
    /\ UNCHANGED <<agentvars, timer, upd, sig, wanted, active, lastOk, exited, nfault, nfail, ncand>>
\* Register returns; route.NewTable; route.SetTable when the candidate is valid
UpdFinish ==
    /\ ~exited
    /\ \/ upd.pc = "fin"
       \/ upd.pc = "reg" /\ dmap \ upd.want = {} /\ upd.want \ dmap = {}
    /\ IF upd.ok THEN active' = upd.doc /\ lastOk' = upd.cid ELSE UNCHANGED <<active, lastOk>>
    /\ upd' = IdleUpd
    /\ UNCHANGED <<agentvars, dmap, g, timer, sig, wanted, exited, nfault, nfail, ncand, stale>>

\* ---- the registration goroutine (register.go)
\* registered(serviceID): GET /v1/agent/services; with an empty serviceID no request is made
GCheck(n) ==
    /\ g[n].pc = "check"
    /\ IF g[n].sid /\ n \in catalog
       THEN g' = [g EXCEPT ![n].pc = "wait"] /\ timer' = [timer EXCEPT ![n] = 0]
       ELSE g' = [g EXCEPT ![n].pc = "register"] /\ UNCHANGED timer
    /\ UNCHANGED <<agentvars, dmap, upd, sig, wanted, active, lastOk, exited, nfault, nfail, ncand, stale>>
\* PUT /v1/agent/service/register; the TTL check of a new registration starts critical
GRegister(n, ok) ==
    /\ g[n].pc = "register"
    /\ IF ok
       THEN /\ catalog' = catalog \cup {n} /\ ttl' = [ttl EXCEPT ![n] = "crit"] /\ age' = [age EXCEPT ![n] = 0]
            /\ g' = [g EXCEPT ![n] = [pc |-> "pass", sid |-> TRUE]]
            /\ stale' = stale \ {n} /\ UNCHANGED nfail
       ELSE /\ nfail < MaxRegFails /\ nfail' = nfail + 1
            /\ g' = [g EXCEPT ![n] = [pc |-> "pass", sid |-> FALSE]]
            /\ stale' = stale \cup {n} /\ UNCHANGED agentvars
    /\ UNCHANGED <<dmap, timer, upd, sig, wanted, active, lastOk, exited, nfault, ncand>>
\* PUT /v1/agent/check/update/<id>-ttl (passing); unknown check ids are answered with an error
PassEffect(n) ==
    IF g[n].sid /\ n \in catalog
    THEN ttl' = [ttl EXCEPT ![n] = "pass"] /\ age' = [age EXCEPT ![n] = 0] /\ UNCHANGED catalog
    ELSE UNCHANGED agentvars
GPass(n) ==
    /\ g[n].pc = "pass" /\ PassEffect(n)
    /\ g' = [g EXCEPT ![n].pc = "wait"] /\ timer' = [timer EXCEPT ![n] = 0]
    /\ UNCHANGED <<dmap, upd, sig, wanted, active, lastOk, exited, nfault, nfail, ncand, stale>>
\* time.After(TTLRefreshInterval) fires
GTimer(n) ==
    /\ g[n].pc = "wait" /\ (Timed => timer[n] >= RefreshTicks)
    /\ g' = [g EXCEPT ![n].pc = "refresh"]
    /\ UNCHANGED <<agentvars, dmap, timer, upd, sig, wanted, active, lastOk, exited, nfault, nfail, ncand, stale>>
RefreshEffect(n) ==
    /\ PassEffect(n)
    /\ g' = [g EXCEPT ![n].pc = "check"]
    /\ UNCHANGED <<dmap, timer, upd, sig, wanted, active, lastOk, exited, nfault, nfail, ncand, stale>>
GRefresh(n) == g[n].pc = "refresh" /\ RefreshEffect(n)
\* PUT /v1/agent/service/deregister/<serviceID>
GDereg(n) ==
    /\ g[n].pc = "dereg"
    /\ IF g[n].sid
       THEN catalog' = catalog \ {n} /\ ttl' = [ttl EXCEPT ![n] = "none"] /\ UNCHANGED age
       ELSE UNCHANGED agentvars
    /\ g' = [g EXCEPT ![n].pc = "ack"]
    /\ UNCHANGED <<dmap, timer, upd, sig, wanted, active, lastOk, exited, nfault, nfail, ncand, stale>>

GStep(n) == GCheck(n) \/ GRegister(n, TRUE) \/ GPass(n) \/ GTimer(n) \/ GRefresh(n) \/ GDereg(n)

\* ---- faults of the agent
AgentLoses(n) ==
    /\ n \in catalog /\ nfault < MaxFaults /\ nfault' = nfault + 1
    /\ catalog' = catalog \ {n} /\ ttl' = [ttl EXCEPT ![n] = "none"] /\ UNCHANGED age
    /\ stale' = IF Live(n) THEN stale \cup {n} ELSE stale
    /\ UNCHANGED <<dmap, g, timer, upd, sig, wanted, active, lastOk, exited, nfail, ncand>>

\* ---- shutdown (exit handler -> be.DeregisterAll)
SigStart ==
    /\ ~exited /\ sig.pc = "idle" /\ (UnsyncShutdown \/ upd.pc = "idle")
    /\ sig' = [sig EXCEPT !.pc = "all"]
    /\ UNCHANGED <<agentvars, dmap, g, timer, upd, wanted, active, lastOk, exited, nfault, nfail, ncand, stale>>
SigPick(n) ==
    /\ ~exited /\ sig.pc = "all" /\ n \in dmap \ sig.seen
    /\ sig' = [sig EXCEPT !.pc = "send", !.cur = n]
    /\ UNCHANGED <<agentvars, dmap, g, timer, upd, wanted, active, lastOk, exited, nfault, nfail, ncand, stale>>
SigSend ==
    /\ ~exited /\ sig.pc = "send" /\ g[sig.cur].pc = "wait"
    /\ g' = [g EXCEPT ![sig.cur].pc = "dereg"]
    /\ sig' = [sig EXCEPT !.pc = "await"]
    /\ UNCHANGED <<agentvars, dmap, timer, upd, wanted, active, lastOk, exited, nfault, nfail, ncand, stale>>
SigRecv ==
    /\ ~exited /\ sig.pc = "await" /\ g[sig.cur].pc = "ack"
    /\ g' = [g EXCEPT ![sig.cur] = NoG]
    /\ dmap' = IF UnsyncShutdown THEN dmap ELSE dmap \ {sig.cur}      \* the code keeps the map entry
    /\ stale' = stale \ {sig.cur}
    /\ sig' = [pc |-> "all", seen |-> sig.seen \cup {sig.cur}, cur |-> "-"]
    /\ UNCHANGED <<agentvars, timer, upd, wanted, active, lastOk, exited, nfault, nfail, ncand>>
SigDone ==
    /\ ~exited /\ sig.pc = "all" /\ dmap \ sig.seen = {}
    /\ sig' = [sig EXCEPT !.pc = "done"]
    /\ UNCHANGED <<agentvars, dmap, g, timer, upd, wanted, active, lastOk, exited, nfault, nfail, ncand, stale>>
\* proxy.Shutdown returned, the process ends: every goroutine is gone
ProcessExit ==
    /\ ~exited /\ sig.pc = "done"
    /\ exited' = TRUE /\ g' = [n \in Names |-> NoG] /\ stale' = {}
    /\ UNCHANGED <<agentvars, dmap, timer, upd, sig, wanted, active, lastOk, nfault, nfail, ncand>>
\* the process dies without running the exit handler
Crash ==
    /\ Timed /\ ~exited
    /\ exited' = TRUE /\ g' = [n \in Names |-> NoG] /\ stale' = {}
    /\ UNCHANGED <<agentvars, dmap, timer, upd, sig, wanted, active, lastOk, nfault, nfail, ncand>>

\* ---- time: every HTTP call of a goroutine takes less than one tick
Urgent == \E n \in Names : \/ g[n].pc \in {"check", "register", "pass", "refresh", "dereg"}
                           \/ g[n].pc = "wait" /\ timer[n] >= RefreshTicks
Tick ==
    /\ Timed /\ ~Urgent
    /\ timer' = [n \in Names |-> IF g[n].pc = "wait" /\ timer[n] < RefreshTicks THEN timer[n] + 1 ELSE timer[n]]
    /\ age' = [n \in Names |-> IF ttl[n] = "pass" /\ age[n] < TTLTicks THEN age[n] + 1 ELSE age[n]]
    /\ ttl' = [n \in Names |-> IF ttl[n] = "pass" /\ age[n] + 1 >= TTLTicks THEN "expired" ELSE ttl[n]]
    /\ UNCHANGED <<catalog, dmap, g, upd, sig, wanted, active, lastOk, exited, nfault, nfail, ncand, stale>>
\* the agent's reaper removes a service whose check stayed critical (DeregisterCriticalServiceAfter)
Reap(n) ==
    /\ Timed /\ exited /\ n \in catalog /\ ttl[n] \in {"expired", "crit"}
    /\ catalog' = catalog \ {n} /\ ttl' = [ttl EXCEPT ![n] = "none"] /\ UNCHANGED age
    /\ UNCHANGED <<dmap, g, timer, upd, sig, wanted, active, lastOk, exited, nfault, nfail, ncand, stale>>

\* named so that -coverage reports each of them
NewCandidate == \E c \in Cands : Candidate(c)
UpdPickAny   == \E n \in Names : UpdPick(n)
UpdSpawnAny  == \E n \in Names : UpdSpawn(n)
GCheckAny    == \E n \in Names : GCheck(n)
GRegisterOk  == \E n \in Names : GRegister(n, TRUE)
GRegisterErr == \E n \in Names : GRegister(n, FALSE)
GPassAny     == \E n \in Names : GPass(n)
GTimerAny    == \E n \in Names : GTimer(n)
GRefreshAny  == \E n \in Names : GRefresh(n)
GDeregAny    == \E n \in Names : GDereg(n)
LoseAny      == \E n \in Names : AgentLoses(n)
SigPickAny   == \E n \in Names : SigPick(n)
ReapAny      == \E n \in Names : Reap(n)

Next == \/ NewCandidate \/ UpdPickAny \/ UpdSend \/ UpdRecv \/ UpdSpawnAny \/ UpdFinish
        \/ GCheckAny \/ GRegisterOk \/ GRegisterErr \/ GPassAny \/ GTimerAny \/ GRefreshAny \/ GDeregAny
        \/ LoseAny \/ SigStart \/ SigPickAny \/ SigSend \/ SigRecv \/ SigDone \/ ProcessExit
        \/ Crash \/ Tick \/ ReapAny

Fairness ==
    /\ \A n \in Names : WF_vars(GStep(n)) /\ WF_vars(UpdPick(n)) /\ WF_vars(UpdSpawn(n))
                        /\ WF_vars(SigPick(n)) /\ WF_vars(Reap(n))
    \* a sender blocked on `dereg <- true` is served by the goroutine's next select (the channel is
    \* ready before the timer): strong fairness
    /\ SF_vars(UpdSend) /\ WF_vars(UpdRecv) /\ WF_vars(UpdFinish)
    /\ SF_vars(SigSend) /\ WF_vars(SigRecv) /\ WF_vars(SigDone) /\ WF_vars(Tick)
Spec == Init /\ [][Next]_vars /\ Fairness

-----------------------------------------------------------------------------
TypeOK ==
    /\ catalog \subseteq Names /\ dmap \subseteq Names /\ wanted \subseteq Names /\ active \subseteq Names
    /\ stale \subseteq Names
    /\ ttl \in [Names -> {"none", "crit", "pass", "expired"}]
    /\ \A n \in Names : g[n].pc \in {"none", "check", "register", "pass", "wait", "refresh", "dereg", "ack"}
    /\ upd.pc \in {"idle", "reg", "send", "await", "fin"} /\ sig.pc \in {"idle", "all", "send", "await", "done"}
    /\ \A n \in Names : (n \in catalog) <=> (ttl[n] # "none")

Running   == ~exited /\ sig.pc = "idle"
Quiescent == /\ upd.pc = "idle" /\ sig.pc \in {"idle", "done"}
             /\ \A n \in Names : g[n].pc \in {"none", "wait"}
             /\ stale = {}

\* registry.consul.register.enabled / .name: fabio's own service is asked for by every Register call
OwnWanted == OwnSet \subseteq wanted
\* at quiescence the agent's catalog (restricted to fabio's ids) is exactly what Register was last
\* asked for - own service iff enabled, plus the aliases of the last candidate - every one of them
\* is kept alive by one goroutine and its TTL check is passing ("traffic can be served immediately")
QuiescentCorrect ==
    (Quiescent /\ Running) => /\ catalog = wanted /\ dmap = wanted /\ LiveSet = wanted
                              /\ \A n \in catalog : ttl[n] = "pass"
\* deregistration is synchronous: when Register has returned nothing unwanted is registered
NoForeign == (upd.pc = "idle" /\ Running) => catalog \subseteq wanted
\* every registration in the agent is maintained by a goroutine, and every goroutine can be reached
\* through the map (a goroutine outside the map would keep its service registered for ever:
\* "no double registration")
NoOrphan  == ~exited => catalog \subseteq LiveSet
LiveInMap == LiveSet \subseteq dmap
\* docs/content/cfg, option register=name: the registered aliases are those the routes of the ACTIVE
\* table ask for (holds only without InvalidDropsAliases / DeletedKeepsAlias)
AliasesFollowTable == (Quiescent /\ Running) => catalog = OwnSet \cup active
\* proxy.deregistergraceperiod.md / registry.consul.register.deregisterCriticalServiceAfter.md:
\* "After a signal is caught Fabio will immediately de-register from the service registry",
\* "services are always deregistered immediately when fabio exits normally"
ShutdownClean == sig.pc = "done" => catalog = {}
NoReappear    == [][sig.pc = "done" => catalog' \subseteq catalog]_vars
\* a caller never waits for a goroutine that no longer exists
NoStuckCaller == /\ ~(upd.pc = "send" /\ ~exited /\ g[upd.cur].pc = "none")
                 /\ ~(sig.pc = "send" /\ ~exited /\ g[sig.cur].pc = "none")
\* register.go: "The TTL check must be refreshed before its timeout is crossed"
NeverExpired == ~exited => \A n \in Names : ttl[n] # "expired"

\* liveness (fair goroutines, finitely many faults): a registration that is wanted is (re-)established
Restored == \A n \in Names :
    (n \in wanted /\ Running /\ upd.pc = "idle") ~> (n \in catalog \/ n \notin wanted \/ ~Running)
\* DeregisterAll terminates
ShutdownCompletes == (sig.pc = "all") ~> (sig.pc = "done" \/ exited)
\* "Services are now always deregistered shortly after fabio exits for any reason"
ExitReaped == exited ~> (catalog = {})
=============================================================================
