SPECIFICATION TSpec
CONSTANTS
  Alias <- MCAlias2
  Own = "fabio"
  Enabled = TRUE
  Cands <- MCLoopCands
  MaxCands = 100000000
  MaxFaults = 100000000
  MaxRegFails = 100000000
  Timed = FALSE
  RefreshTicks = 2
  TTLTicks = 3
  UnsyncShutdown = TRUE
  InvalidDropsAliases = TRUE
  DeletedKeepsAlias = TRUE
CONSTRAINT HW
INVARIANTS TypeOK OwnWanted QuiescentCorrect NoForeign NoOrphan LiveInMap
POSTCONDITION Accepted
CHECK_DEADLOCK FALSE
