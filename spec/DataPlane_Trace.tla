---------------------------- MODULE DataPlane_Trace ----------------------------
(* Validates a recorded concurrent execution of real lookups: events Inv{g,op,arg}, Ret{g,res}; *)
(* the atomic effects are silent.  A final Snap event binds the end state (cursor, cache keys).   *)
EXTENDS DataPlane, Json, IOUtils, TLC
VARIABLE l
TraceLog == ndJsonDeserialize(IOEnv.VERIF_TRACE)
E == TraceLog[l]
Ev(e) == l <= Len(TraceLog) /\ TraceLog[l].ev = e /\ l' = l + 1
TRing == LET q == TraceLog[1].ring IN [i \in 1..Len(q) |-> q[i]]
TInit == TLCSet(1, 0) /\ Init /\ l = 2        \* line 1 is the Setup event (ring, cache size)
TInv == Ev("Inv") /\ Inv(E.g, E.op, E.arg)
TRet == Ev("Ret") /\ Ret(E.g) /\ pend[E.g].res = E.res
TSnap == /\ Ev("Snap") /\ UNCHANGED vars
         /\ cursor = E.cursor
         /\ {cache[i] : i \in DOMAIN cache} = {E.cache[i] : i \in DOMAIN E.cache}
         /\ \A g \in Procs : pend[g].op = "idle"
Silent == l' = l /\ \E g \in Procs : LinPick(g) \/ LinGlob(g) \/ LinRedirect(g) \/ LinAccess(g) \/ LinObserve(g)
TNext == TInv \/ TRet \/ TSnap \/ Silent
TSpec == TInit /\ [][TNext]_<<vars, l>>
HW == TLCSet(1, IF TLCGet(1) < l THEN l ELSE TLCGet(1))
Accepted == TLCGet(1) = Len(TraceLog) + 1
=============================================================================
