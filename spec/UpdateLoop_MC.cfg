SPECIFICATION Spec
CONSTANTS
  SvcMsgs <- MCSvc
  ManMsgs <- MCMan
  Bad <- MCBad
  Den <- MCDen
  MaxSteps = 5
INVARIANTS LastGood NeverDies AtSelectCurrent
PROPERTIES InvalidKeeps NextValidApplied
CHECK_DEADLOCK FALSE
