SPECIFICATION Spec
CONSTANTS
  Ports <- MCPorts
  Ips <- MCIps
  Inst <- MCInst
  PortOf <- MCPortOf
  IpOf <- MCIpOf
  Tcp <- MCTcp
  Clients = {}
  MaxChanges = 3
  MaxForeign = 2
  ProbeThenBind = FALSE
  CloseKillsTunnels = TRUE
INVARIANTS TypeOK Exclusive NoCrash OnlyWanted QuiescentExact RoutedRight
PROPERTIES NoCollateralTeardown KeepsWanted
CHECK_DEADLOCK FALSE
