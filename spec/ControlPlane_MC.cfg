SPECIFICATION Spec
CONSTANTS
  Inst <- MCInst3
  Node = {"n1", "n2"}
  Services = {"A", "B"}
  NodeOf <- MCNodeOf3
  SvcOf <- MCSvcOf3
  Manual <- MCManual
  MaxChanges = 3
  MaxFaults = 1
  PoisonTables = FALSE
INVARIANTS TypeOK QuiescentCorrect LastGood Isolation RoutedWerePassing
PROPERTIES MonotoneSnapshot InvalidKeeps NextValidApplied
CHECK_DEADLOCK FALSE
