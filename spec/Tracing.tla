------------------------------ MODULE Tracing ------------------------------
(* X08 - request identification and tracing headers of the HTTP proxy.                          *)
(*                                                                                              *)
(* Sources (the oracle): fabio.properties on proxy.header.requestid ("When set non-empty value   *)
(* the proxy will set this header on every request to the unique UUID value") and on tracing.*  *)
(* (TracingEnabled "enables/disables Open Tracing", CollectorType http + ConnectString,         *)
(* ServiceName / SpanName "used in reporting span information", SamplerRate "<= 0 never sample, *)
(* >= 1.0 always sample, values between are the percentage", SpanHost "host information ...     *)
(* when sending spans to a collector", "Currently supports ZipKin Collector"), the option       *)
(* tracing.TraceID128Bit ("Generate 128 bit trace IDs"), and the convention of Zipkin's headers *)
(* (B3 propagation): X-B3-TraceId is 16 or 32 lower-hex characters, X-B3-SpanId and             *)
(* X-B3-ParentSpanId 16; a service that receives a context continues the SAME trace with a NEW  *)
(* span whose parent is the received span; X-B3-Sampled 1/0 is a decision downstream services   *)
(* respect, an absent decision is deferred to the receiver; X-B3-Flags: 1 (debug) implies an    *)
(* accept decision; a sampling decision may travel alone (without ids); a root span has no      *)
(* parent id.                                                                                   *)
(*                                                                                              *)
(* State: the process configuration, concurrent requests through one proxy (each: the incoming  *)
(* headers, the header map the proxy works on, its span, what the upstream saw, the answer),    *)
(* the two id generators (span/trace ids, request ids) and the asynchronous reporter (queue,    *)
(* what the collector has received, flush).  One action per step that touches shared state.     *)
(*                                                                                              *)
(* Where the code deviates from the convention, the deviation is a NAMED constant (FALSE = the   *)
(* documented design).  NonAtomicIds is a wrong design kept to show that the uniqueness         *)
(* properties bite.                                                                             *)
EXTENDS Integers, Sequences, FiniteSets, TLC

CONSTANTS Reqs,                  \* identities of the requests (they run concurrently)
          Ids,                   \* what a generator can hand out
          Cfgs,                  \* process configurations: [on, rate, b128, rid]
          Incomings,             \* universe of incoming header sets (see IncOK)
          Routes,                \* subset of {"fwd", "noroute", "redirect", "denied"}
          RootZeroParent,        \* a root span started from an (empty) extracted context sends X-B3-ParentSpanId: 000..0
          MalformedParentLeaks,  \* a root span started after a failed extraction leaves the incoming X-B3-ParentSpanId in place
          DeferredNotSampled,    \* an incoming context without decision is never sampled (the sampler is not asked)
          DebugNotSampled,       \* X-B3-Flags: 1 does not imply sampling
          SampledAloneIgnored,   \* a decision that arrives without ids is ignored (and the debug flag dropped)
          NonAtomicIds           \* WRONG DESIGN: the id generator's read and update are two steps

VARIABLES cfg, rq, used, usedU, snap, queue, received, flushed
vars == <<cfg, rq, used, usedU, snap, queue, received, flushed>>

Zero16 == "0000000000000000"
Absent == "-"

\* --------------------------------------------------------------------------- incoming headers
\* class of every header (what the value is) and the value itself (what was sent, byte for byte)
IncOK(i) == /\ i.tid \in {"-", "w64", "w128", "bad"} /\ i.sid \in {"-", "ok", "bad"} /\ i.pid \in {"-", "ok", "bad"}
            /\ i.smp \in {"-", "0", "1", "bad"} /\ i.flg \in {"-", "0", "1", "bad"} /\ i.rid \in {"-", "given"}
            /\ (i.tid = "-") = (i.tidv = Absent) /\ (i.sid = "-") = (i.sidv = Absent) /\ (i.pid = "-") = (i.pidv = Absent)
            /\ (i.smp = "-") = (i.smpv = Absent) /\ (i.flg = "-") = (i.flgv = Absent) /\ (i.rid = "-") = (i.ridv = Absent)
            /\ (i.smp \in {"0", "1"} => i.smpv = i.smp) /\ (i.flg \in {"0", "1"} => i.flgv = i.flg)
NoInc == [tid |-> "-", sid |-> "-", pid |-> "-", smp |-> "-", flg |-> "-", rid |-> "-",
          tidv |-> Absent, sidv |-> Absent, pidv |-> Absent, smpv |-> Absent, flgv |-> Absent, ridv |-> Absent]

Width(c) == IF c = "w64" THEN 64 ELSE IF c = "w128" THEN 128 ELSE 0
HasAny(i) == \E c \in {i.tid, i.sid, i.pid, i.smp, i.flg} : c # "-"
AnyBad(i) == \E c \in {i.tid, i.sid, i.pid, i.smp, i.flg} : c = "bad"
\* a well-formed context: both ids, optional parent, optional decision / flags
WF(i) == /\ i.tid \in {"w64", "w128"} /\ i.sid = "ok" /\ ~AnyBad(i)
\* a decision travelling alone
DecisionOnly(i) == /\ i.tid = "-" /\ i.sid = "-" /\ i.pid = "-" /\ ~AnyBad(i) /\ (i.smp # "-" \/ i.flg # "-")
NoCtx(i) == ~HasAny(i)
Malformed(i) == HasAny(i) /\ ~WF(i) /\ ~DecisionOnly(i)
Debug(i) == i.flg = "1"
Decided(i) == Debug(i) \/ i.smp \in {"0", "1"}     \* the caller has decided
Accept(i) == Debug(i) \/ i.smp = "1"

\* what the code's extraction does with the headers: it fails on any unparsable value and when exactly one of the
\* two ids is there; otherwise it yields a context (possibly an empty one)
ExtractFails(i) == AnyBad(i) \/ ((i.tid = "-") # (i.sid = "-"))

\* --------------------------------------------------------------------------- per request state
Hdr(i) == [tid |-> i.tidv, sid |-> i.sidv, pid |-> i.pidv, smp |-> i.smpv, flg |-> i.flgv, rid |-> i.ridv, tw |-> Width(i.tid)]
NoHdr == Hdr(NoInc)
NoSpan == [n |-> 0, tid |-> Absent, tw |-> 0, id |-> Absent, pid |-> Absent, smp |-> FALSE, dbg |-> FALSE, root |-> FALSE]
Idle == [pc |-> "idle", inc |-> NoInc, route |-> "-", hdr |-> NoHdr, sp |-> NoSpan, up |-> NoHdr, seen |-> FALSE, st |-> 0]

StatusOf(r) == CASE r = "fwd" -> 200 [] r = "noroute" -> 404 [] r = "redirect" -> 301 [] r = "denied" -> 403 [] OTHER -> 0

\* candidates a generator may return (an MC configuration may narrow this to one, ids are interchangeable)
Cand(S) == S
Pool(i) == Ids \ (IF NonAtomicIds THEN snap[i] ELSE used)

Init == /\ cfg \in Cfgs
        /\ rq = [i \in Reqs |-> Idle]
        /\ used = {} /\ usedU = {} /\ snap = [i \in Reqs |-> {}]
        /\ queue = {} /\ received = <<>> /\ flushed = FALSE

\* the request enters ServeHTTP
ArriveWith(i, inc, route) ==
    /\ ~flushed /\ rq[i].pc = "idle"
    /\ rq' = [rq EXCEPT ![i] = [Idle EXCEPT !.pc = "rid", !.inc = inc, !.route = route, !.hdr = Hdr(inc)]]
    /\ UNCHANGED <<cfg, used, usedU, snap, queue, received, flushed>>
Arrive(i) == /\ ~flushed /\ rq[i].pc = "idle"       \* (guard first: the universe is only enumerated for an idle request)
             /\ \E inc \in Incomings, route \in Routes : ArriveWith(i, inc, route)

\* proxy.header.requestid: "set this header on every request to the unique UUID value"
SetReqIdWith(i, u) ==
    /\ rq[i].pc = "rid"
    /\ IF cfg.rid THEN /\ u \notin usedU
                       /\ usedU' = usedU \cup {u}
                       /\ rq' = [rq EXCEPT ![i].hdr.rid = u, ![i].pc = IF NonAtomicIds /\ cfg.on THEN "peek" ELSE "span"]
               ELSE /\ usedU' = usedU
                    /\ rq' = [rq EXCEPT ![i].pc = IF NonAtomicIds /\ cfg.on THEN "peek" ELSE "span"]
    /\ UNCHANGED <<cfg, used, snap, queue, received, flushed>>
SetReqId(i) == IF cfg.rid THEN \E u \in Cand(Ids \ usedU) : SetReqIdWith(i, u) ELSE SetReqIdWith(i, Absent)

\* (wrong design only) the generator's state is read ...
Peek(i) == /\ rq[i].pc = "peek"
           /\ snap' = [snap EXCEPT ![i] = used]
           /\ rq' = [rq EXCEPT ![i].pc = "span"]
           /\ UNCHANGED <<cfg, used, usedU, queue, received, flushed>>

\* the sampler: rate <= 0 never, >= 1 always, in between either
Sampler(d) == CASE cfg.rate = "zero" -> FALSE [] cfg.rate = "one" -> TRUE [] OTHER -> d

ChildDecision(inc, d) ==
    IF Debug(inc) /\ inc.smp # "1" THEN (IF DebugNotSampled THEN FALSE ELSE TRUE)
    ELSE IF inc.smp = "1" THEN TRUE
    ELSE IF inc.smp = "0" THEN FALSE
    ELSE IF DeferredNotSampled THEN FALSE ELSE Sampler(d)
RootDecision(inc, d) ==
    IF DecisionOnly(inc) /\ Decided(inc) /\ ~SampledAloneIgnored THEN Accept(inc) ELSE Sampler(d)
RootDebug(inc) == DecisionOnly(inc) /\ Debug(inc) /\ ~SampledAloneIgnored
\* the parent a root span carries: none - unless the deviation applies (the span then reports parent 0 as well)
RootPid(inc) == IF ~ExtractFails(inc) /\ RootZeroParent THEN Zero16 ELSE Absent

\* tracing on: the incoming context is extracted and a span started (child of a usable context, else a new root)
StartSpanWith(i, t, s, d) ==
    LET inc == rq[i].inc IN
    /\ rq[i].pc = "span"
    /\ IF ~cfg.on
       THEN /\ rq' = [rq EXCEPT ![i].pc = "route"]
            /\ used' = used
       ELSE IF ~ExtractFails(inc) /\ inc.tid # "-"
       THEN /\ s \in Pool(i)
            /\ used' = used \cup {s}
            /\ rq' = [rq EXCEPT ![i].pc = "route",
                                ![i].sp = [n |-> 1, tid |-> inc.tidv, tw |-> Width(inc.tid), id |-> s, pid |-> inc.sidv,
                                           smp |-> ChildDecision(inc, d), dbg |-> Debug(inc), root |-> FALSE]]
       ELSE /\ s \in Pool(i) /\ t \in Pool(i) /\ t # s
            /\ used' = used \cup {s, t}
            /\ rq' = [rq EXCEPT ![i].pc = "route",
                                ![i].sp = [n |-> 1, tid |-> t, tw |-> IF cfg.b128 THEN 128 ELSE 64, id |-> s, pid |-> RootPid(inc),
                                           smp |-> RootDecision(inc, d), dbg |-> RootDebug(inc), root |-> TRUE]]
    /\ UNCHANGED <<cfg, usedU, snap, queue, received, flushed>>
StartSpan(i) == IF ~cfg.on THEN StartSpanWith(i, Absent, Absent, FALSE)
                ELSE \E s \in Cand(Pool(i)) : \E t \in Cand(Pool(i) \ {s}) : \E d \in BOOLEAN : StartSpanWith(i, t, s, d)

\* fabio answers itself (no route, redirect, access denied): nothing is forwarded
Answer(i) == /\ rq[i].pc = "route" /\ rq[i].route # "fwd"
             /\ rq' = [rq EXCEPT ![i].pc = "fin", ![i].st = StatusOf(rq[i].route)]
             /\ UNCHANGED <<cfg, used, usedU, snap, queue, received, flushed>>

\* the span's context is written into the header map the upstream request is made of (a header that is not written
\* keeps what it had)
Injected(h, sp) == [h EXCEPT !.tid = sp.tid, !.tw = sp.tw, !.sid = sp.id,
                             !.pid = IF sp.pid # Absent THEN sp.pid ELSE IF MalformedParentLeaks THEN h.pid ELSE Absent,
                             !.smp = IF sp.smp THEN "1" ELSE "0",
                             !.flg = IF sp.dbg THEN "1" ELSE "0"]
Inject(i) == /\ rq[i].pc = "route" /\ rq[i].route = "fwd"
             /\ rq' = [rq EXCEPT ![i].pc = "fwd", ![i].hdr = IF cfg.on THEN Injected(rq[i].hdr, rq[i].sp) ELSE rq[i].hdr]
             /\ UNCHANGED <<cfg, used, usedU, snap, queue, received, flushed>>

\* the upstream receives the request
Forward(i) == /\ rq[i].pc = "fwd"
              /\ rq' = [rq EXCEPT ![i].pc = "fin", ![i].up = rq[i].hdr, ![i].seen = TRUE, ![i].st = 200]
              /\ UNCHANGED <<cfg, used, usedU, snap, queue, received, flushed>>

Report(i) == [rq |-> i, tid |-> rq[i].sp.tid, tw |-> rq[i].sp.tw, id |-> rq[i].sp.id, pid |-> rq[i].sp.pid]
\* ServeHTTP returns: the span is finished; a sampled one is handed to the reporter
Finish(i) == /\ rq[i].pc = "fin"
             /\ rq' = [rq EXCEPT ![i].pc = "done"]
             /\ queue' = IF rq[i].sp.n = 1 /\ rq[i].sp.smp THEN queue \cup {Report(i)} ELSE queue
             /\ UNCHANGED <<cfg, used, usedU, snap, received, flushed>>

\* the reporter posts asynchronously (batches: any number of steps)
DeliverWith(x) == /\ x \in queue
                  /\ queue' = queue \ {x}
                  /\ received' = Append(received, x)
                  /\ UNCHANGED <<cfg, rq, used, usedU, snap, flushed>>
Deliver == \E x \in queue : DeliverWith(x)

\* the environment's barrier: nothing is in flight and the reporter has been flushed / closed
Quiet == \A i \in Reqs : rq[i].pc \in {"idle", "done"}
Flush == /\ ~flushed /\ Quiet /\ queue = {}
         /\ flushed' = TRUE
         /\ UNCHANGED <<cfg, rq, used, usedU, snap, queue, received>>

Step(i) == Arrive(i) \/ SetReqId(i) \/ Peek(i) \/ StartSpan(i) \/ Answer(i) \/ Inject(i) \/ Forward(i) \/ Finish(i)
Next == (\E i \in Reqs : Step(i)) \/ Deliver \/ Flush
Spec == Init /\ [][Next]_vars
FairSpec == Spec /\ WF_vars(Deliver) /\ \A i \in Reqs : WF_vars(SetReqId(i) \/ Peek(i) \/ StartSpan(i) \/ Answer(i) \/ Inject(i) \/ Forward(i) \/ Finish(i))

\* =========================================================================== what MUST hold
Fwd(i) == rq[i].seen
B3 == {"tid", "sid", "pid", "smp", "flg"}
Field(h, f) == CASE f = "tid" -> h.tid [] f = "sid" -> h.sid [] f = "pid" -> h.pid [] f = "smp" -> h.smp [] f = "flg" -> h.flg [] OTHER -> h.rid

TypeOK == /\ flushed \in BOOLEAN
          /\ \A i \in Reqs : /\ rq[i].pc \in {"idle", "rid", "peek", "span", "route", "fwd", "fin", "done"}
                             /\ IncOK(rq[i].inc) /\ rq[i].sp.n \in {0, 1}

\* tracing off: no B3 header is invented or altered - the upstream sees what the client sent, byte for byte
OffTransparent == \A i \in Reqs : (~cfg.on /\ Fwd(i)) => \A f \in B3 : Field(rq[i].up, f) = Field(Hdr(rq[i].inc), f)
OffSilent == ~cfg.on => (received = <<>> /\ queue = {} /\ \A i \in Reqs : rq[i].sp.n = 0)

\* tracing on: every forwarded request carries a consistent context made by fabio
Consistent == \A i \in Reqs : (cfg.on /\ Fwd(i)) =>
                 /\ rq[i].up.tw \in {64, 128} /\ rq[i].up.tid # Absent
                 /\ rq[i].up.sid \in used
                 /\ rq[i].up.smp \in {"0", "1"} /\ rq[i].up.flg \in {Absent, "0", "1"}
\* ... the trace of a well-formed incoming context is continued,
TracePreserved == \A i \in Reqs : (cfg.on /\ Fwd(i) /\ WF(rq[i].inc)) => (rq[i].up.tid = rq[i].inc.tidv /\ rq[i].up.tw = Width(rq[i].inc.tid))
\* ... with a fresh span that is a child of the incoming one,
ChildOfIncoming == \A i \in Reqs : (cfg.on /\ Fwd(i) /\ WF(rq[i].inc)) => (rq[i].up.pid = rq[i].inc.sidv /\ rq[i].up.sid # rq[i].inc.sidv)
\* ... and without a usable context a new root trace of the configured width is started; a root has no parent
NewRoot == \A i \in Reqs : (cfg.on /\ Fwd(i) /\ ~WF(rq[i].inc)) => (rq[i].up.tid \in used /\ rq[i].up.tw = IF cfg.b128 THEN 128 ELSE 64)
RootHasNoParent == \A i \in Reqs : (cfg.on /\ Fwd(i) /\ (NoCtx(rq[i].inc) \/ DecisionOnly(rq[i].inc))) => rq[i].up.pid = Absent
\* a malformed / partial incoming context never leaks into the outgoing one: every B3 value the upstream sees is fabio's
MalformedNeverLeaks == \A i \in Reqs : (cfg.on /\ Fwd(i) /\ Malformed(rq[i].inc)) =>
                          /\ rq[i].up.tid \in used /\ rq[i].up.sid \in used /\ rq[i].up.pid = Absent
                          /\ rq[i].up.smp \in {"0", "1"} /\ rq[i].up.flg \in {Absent, "0", "1"}
\* ... and never changes the answer
Served == \A i \in Reqs : rq[i].pc = "done" => rq[i].st = StatusOf(rq[i].route)

\* the caller's decision is respected; debug implies sampling; no decision = the local sampler decides
DecisionRespected == \A i \in Reqs : (cfg.on /\ Fwd(i) /\ WF(rq[i].inc) /\ rq[i].inc.smp \in {"0", "1"} /\ ~Debug(rq[i].inc)) => rq[i].up.smp = rq[i].inc.smp
DebugSampled == \A i \in Reqs : (cfg.on /\ Fwd(i) /\ WF(rq[i].inc) /\ Debug(rq[i].inc)) => (rq[i].sp.smp /\ rq[i].up.flg = "1")
AloneRespected == \A i \in Reqs : (cfg.on /\ Fwd(i) /\ DecisionOnly(rq[i].inc) /\ Decided(rq[i].inc)) =>
                     /\ rq[i].sp.smp = Accept(rq[i].inc)
                     /\ (Debug(rq[i].inc) => rq[i].up.flg = "1")
RootUndecided(i) == NoCtx(rq[i].inc) \/ Malformed(rq[i].inc) \/ (DecisionOnly(rq[i].inc) /\ ~Decided(rq[i].inc))
Undecided(i) == (WF(rq[i].inc) /\ ~Decided(rq[i].inc)) \/ RootUndecided(i)
SamplerRules == \A i \in Reqs : (cfg.on /\ rq[i].sp.n = 1 /\ RootUndecided(i)) =>
                   /\ (cfg.rate = "zero" => ~rq[i].sp.smp)
                   /\ (cfg.rate = "one" => rq[i].sp.smp)
\* what the upstream is told is what the span is
HeaderMatchesSpan == \A i \in Reqs : (cfg.on /\ Fwd(i)) =>
                        /\ rq[i].up.tid = rq[i].sp.tid /\ rq[i].up.sid = rq[i].sp.id /\ rq[i].up.tw = rq[i].sp.tw
                        /\ (rq[i].up.smp = "1") = rq[i].sp.smp
                        /\ (rq[i].sp.pid # Absent => rq[i].up.pid = rq[i].sp.pid)

\* reporting: nothing invented, nothing twice, everything after a flush; rate 0 reports nothing of its own accord
Recs == {received[k] : k \in DOMAIN received}
NothingInvented == \A x \in Recs \cup queue : /\ rq[x.rq].sp.n = 1 /\ rq[x.rq].sp.smp /\ rq[x.rq].pc = "done"
                                              /\ x = Report(x.rq)
AtMostOnce == \A k1, k2 \in DOMAIN received : received[k1].rq = received[k2].rq => k1 = k2
QueueOrReceived == \A x \in queue : x \notin Recs
AllReported == flushed => \A i \in Reqs : (rq[i].pc = "done" /\ rq[i].sp.n = 1 /\ rq[i].sp.smp) => Report(i) \in Recs
RateZeroSilent == cfg.rate = "zero" => \A x \in Recs : Decided(rq[x.rq].inc) /\ Accept(rq[x.rq].inc)
\* one span per proxied request when everything is sampled
RateOneAll == (flushed /\ cfg.on /\ cfg.rate = "one") => \A i \in Reqs : (Fwd(i) /\ (Undecided(i) \/ Accept(rq[i].inc))) => Report(i) \in Recs
UnsampledSilent == \A i \in Reqs : (rq[i].sp.n = 1 /\ ~rq[i].sp.smp) => \A x \in Recs \cup queue : x.rq # i

\* request id: added iff configured, a fresh one per request
ReqIdRule == \A i \in Reqs : Fwd(i) => IF cfg.rid THEN rq[i].up.rid \in usedU /\ rq[i].up.rid # rq[i].inc.ridv
                                                  ELSE rq[i].up.rid = rq[i].inc.ridv
\* uniqueness under concurrency
UniqueReqIds == \A i, j \in Reqs : (i # j /\ cfg.rid /\ rq[i].pc \notin {"idle", "rid"} /\ rq[j].pc \notin {"idle", "rid"}) => rq[i].hdr.rid # rq[j].hdr.rid
UniqueSpanIds == \A i, j \in Reqs : (i # j /\ rq[i].sp.n = 1 /\ rq[j].sp.n = 1) =>
                    /\ rq[i].sp.id # rq[j].sp.id
                    /\ (rq[i].sp.root /\ rq[j].sp.root => rq[i].sp.tid # rq[j].sp.tid)
                    /\ (rq[i].sp.root => rq[i].sp.tid # rq[j].sp.id)
LocalNeverForwarded == \A i \in Reqs : rq[i].route # "fwd" => ~rq[i].seen

Safety == /\ TypeOK /\ OffTransparent /\ OffSilent /\ Consistent /\ TracePreserved /\ ChildOfIncoming /\ NewRoot /\ Served
          /\ DecisionRespected /\ SamplerRules /\ HeaderMatchesSpan /\ NothingInvented /\ AtMostOnce /\ QueueOrReceived
          /\ AllReported /\ UnsampledSilent /\ RateZeroSilent /\ ReqIdRule /\ UniqueReqIds /\ UniqueSpanIds /\ LocalNeverForwarded
\* the clauses the named deviations break
DeferredRule == \A i \in Reqs : (cfg.on /\ Fwd(i) /\ WF(rq[i].inc) /\ ~Decided(rq[i].inc)) =>
                   (cfg.rate = "one" => rq[i].sp.smp) /\ (cfg.rate = "zero" => ~rq[i].sp.smp)
B3Rules == RootHasNoParent /\ MalformedNeverLeaks /\ DebugSampled /\ AloneRespected /\ DeferredRule /\ RateOneAll

\* liveness: every request is answered; every sampled span reaches the collector
Answered == \A i \in Reqs : (rq[i].pc # "idle") ~> (rq[i].pc = "done")
Reported == \A i \in Reqs : (rq[i].pc = "done" /\ rq[i].sp.n = 1 /\ rq[i].sp.smp) ~> (Report(i) \in Recs)
=============================================================================
