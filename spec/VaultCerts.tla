----------------------------- MODULE VaultCerts -----------------------------
(***************************************************************************)
(* X07 (specification growth): the two Vault certificate sources of fabio  *)
(* -- the part of certificate handling that CertStore.tla (C11) leaves out *)
(* of scope -- and the token of the Vault client.                          *)
(*                                                                         *)
(* Oracle: docs/content/feature/certificate-stores.md (Vault),             *)
(* docs/content/ref/proxy.cs.md (Vault, Vault PKI), docs/content/feature/  *)
(* vault.md, the proxy.cs comments of fabio.properties, proxy.addr         *)
(* (strictmatch), and the reading of "unusable material" fixed for C11.    *)
(*                                                                         *)
(* Part A  the KV source `type=vault`: a refresh loop; each round asks for *)
(*         the KV version of the mount, LISTs the path, reads every entry  *)
(*         and builds a certificate set.                                   *)
(* Part B  the PKI source `type=vault-pki`: an on-demand issuer behind     *)
(*         tls.Config.GetCertificate, with its cache, its re-issue timers  *)
(*         and the publication of the cache into the certificate store.    *)
(* Part C  the token: looked up once, renewed at half of its life time.    *)
(*                                                                         *)
(* The three parts share no state; every action leaves the variables of    *)
(* the other parts unchanged, and each part has its own specification      *)
(* (ASpec, BSpec, CSpec).                                                  *)
(*                                                                         *)
(* Where cert/*.go does something else than the documentation promises the *)
(* deviation is a NAMED constant (TRUE = what the code does, FALSE = the   *)
(* documented design).  The properties are stated against the documented   *)
(* design; TLC shows that they hold with the constant FALSE and are        *)
(* violated with it TRUE (non-vacuity, and the lead).                      *)
(*   ReadErrorDropsEntry  A: an entry that is listed but cannot be read    *)
(*                        (500, 403) is left out, the rest is published    *)
(*   FieldlessIgnored     A: a secret with neither `cert` nor `key` is     *)
(*                        left out without a word                          *)
(*   SpinOnError          A: never TRUE for the code; the variant that     *)
(*                        retries at once (non-vacuity of ANoSpin)         *)
(*   AsyncInstall         B: GetCertificate consults only the certificate  *)
(*                        store, which receives snapshots of the cache     *)
(*                        through unordered goroutines: a handshake after  *)
(*                        the issue and before the install issues again,   *)
(*                        an old snapshot may overwrite a newer one        *)
(*   ServesExpired        B: nothing looks at NotAfter: when the re-issue  *)
(*                        failed (it is not retried) or an old snapshot    *)
(*                        came last, the expired certificate is presented  *)
(*                        for ever                                         *)
(*   LookupFailDisables   C: one failed lookup-self at start switches      *)
(*                        token renewal off for the life of the process    *)
(***************************************************************************)
EXTENDS Integers, Sequences, FiniteSets

CONSTANTS
    KNames,         \* A: entry names below the certificate path (= server names)
    Refresh,        \* A: refresh interval in clock ticks
    MaxLoads,       \* A: bound on the refresh rounds
    MaxEnv,         \* A/B/C: bound on the moves of the environment
    ReadErrorDropsEntry, FieldlessIgnored, SpinOnError,
    PNames,         \* B: server names clients ask for
    Clients,        \* B: concurrent handshakes
    MaxIssue,       \* B: bound on the certificates Vault issues
    MaxHs,          \* B: bound on the handshakes per client
    Strict,         \* B: the listener has strictmatch=true
    AsyncInstall, ServesExpired,
    TTL,            \* C: life time of the token in Vault seconds
    MaxT,           \* C: horizon in half seconds
    LookupFailDisables

-----------------------------------------------------------------------------
(* Part A: the KV source                                                   *)

\* What Vault holds for one entry name.
\*   g1, g2      a usable certificate with its key (two different ones)
\*   nokey       the secret has no `key` field          nocert   no `cert` field
\*   badpem      the `cert` field is not PEM
\*   nofields    the secret has neither field (something else is stored there)
\*   unreadable  the entry is listed but reading it fails (500, permission denied)
Stat == {"absent", "g1", "g2", "nokey", "nocert", "badpem", "nofields", "unreadable"}
Usable(st) == st \in {"g1", "g2"}
\* the fault of a whole refresh round
\*   slow = Vault answers late but correctly; every other fault makes the round fail
KFaults == {"none", "mounts500", "list500", "sealed", "tok403", "malformed", "slow"}
Failing(f) == f \notin {"none", "slow"}

\* C11's reading: something PRESENT that cannot be used makes the load unusable as a whole
\* (else the certificate whose material broke silently drops out of the working set);
\* an ABSENT entry is a legitimate smaller set.
MustBreak == {"nokey", "nocert", "badpem", "nofields", "unreadable"}
Breaks == {"nokey", "nocert", "badpem"} \cup (IF FieldlessIgnored THEN {} ELSE {"nofields"})
                                       \cup (IF ReadErrorDropsEntry THEN {} ELSE {"unreadable"})

Empty == [n \in KNames |-> "absent"]
SetOf(k) == [n \in KNames |-> IF Usable(k[n]) THEN k[n] ELSE "absent"]
ReqKind(k, f) == IF Failing(f) THEN "error" ELSE IF \E n \in KNames : k[n] \in MustBreak THEN "unusable" ELSE "good"
Kind(k, f)    == IF Failing(f) THEN "error" ELSE IF \E n \in KNames : k[n] \in Breaks THEN "unusable" ELSE "good"
\* what a round hands to the comparison with the previous publication: LIST without keys
\* gives nil, otherwise the (possibly empty) map of what could be read
Content(k) == [nil |-> \A n \in KNames : k[n] = "absent", set |-> SetOf(k)]
Nil == [nil |-> TRUE, set |-> Empty]

VARIABLES
    kv, kfault,     \* Vault: entries and fault
    reg,            \* the certificate set in effect (what handshakes are answered from)
    last,           \* content of the last publication
    pend, wpc,      \* watcher: content on its way, "load" | "publish" | "sleep"
    clock, loadAt, pubSince, nloads, nenv,
    spin,           \* ghost: two rounds closer than Refresh with no publication between them
    lastGood,       \* ghost: the set of the most recent round that MUST count as good
    badPub          \* ghost: a round that must not count as good changed the set in effect

avars == <<kv, kfault, reg, last, pend, wpc, clock, loadAt, pubSince, nloads, nenv, spin, lastGood, badPub>>

AInit ==
    /\ kv = Empty /\ kfault = "none" /\ reg = Empty /\ last = Nil /\ pend = Nil /\ wpc = "load"
    /\ clock = 0 /\ loadAt = 0 /\ pubSince = TRUE /\ nloads = 0 /\ nenv = 0
    /\ spin = FALSE /\ lastGood = Empty /\ badPub = FALSE

\* ---- B and C variables (declared here so that A's actions can leave them unchanged)
VARIABLES
    certs,          \* B: what Vault issued: <<[name, st, timer]>>, index = serial
    store,          \* B: the ids in the certificate store (one register, replaced as a whole)
    cache,          \* B: VaultPKISource.certs: name -> id, 0 = none
    pending,        \* B: snapshots of the cache on their way to the store (unordered)
    flight,         \* B: singleflight of the handshakes: name -> [st, out]
    tfl,            \* B: re-issues started by timers: set of [id, st, out]
    hs,             \* B: handshakes: client -> [pc, name, res, n]
    pfault,         \* B: how Vault answers issue requests at present
    asked, presentedExpired, dupIssue, benv,
    tnow, texp, trenewable, tdead, kpc, tat, tfailat, tfault, cenv, treqs

bvars == <<certs, store, cache, pending, flight, tfl, hs, pfault, asked, presentedExpired, dupIssue, benv>>
cvars == <<tnow, texp, trenewable, tdead, kpc, tat, tfailat, tfault, cenv, treqs>>
vars == <<avars, bvars, cvars>>

KEnv(k, f) ==           \* somebody writes to Vault / Vault's health changes
    /\ nenv < MaxEnv /\ (k # kv \/ f # kfault)
    /\ kv' = k /\ kfault' = f /\ nenv' = nenv + 1
    /\ UNCHANGED <<reg, last, pend, wpc, clock, loadAt, pubSince, nloads, spin, lastGood, badPub, bvars, cvars>>

KLoad ==                \* one refresh round: preflight, LIST, read every entry (atomic: Scope)
    /\ wpc = "load" /\ nloads < MaxLoads
    /\ nloads' = nloads + 1 /\ loadAt' = clock /\ pubSince' = FALSE
    /\ spin' = (spin \/ (nloads > 0 /\ ~pubSince /\ clock - loadAt < Refresh))
    /\ lastGood' = IF ReqKind(kv, kfault) = "good" THEN SetOf(kv) ELSE lastGood
    /\ IF Kind(kv, kfault) = "good" /\ Content(kv) # last
       THEN pend' = Content(kv) /\ wpc' = "publish"
       ELSE pend' = pend /\ wpc' = IF SpinOnError /\ Kind(kv, kfault) # "good" THEN "load" ELSE "sleep"
    /\ badPub' = (badPub \/ (ReqKind(kv, kfault) # "good" /\ Kind(kv, kfault) = "good" /\ SetOf(kv) # reg))
    /\ UNCHANGED <<kv, kfault, reg, last, clock, nenv, bvars, cvars>>

KPublish ==             \* the set reaches the certificate store; the next round follows at once
    /\ wpc = "publish"
    /\ reg' = pend.set /\ last' = pend /\ wpc' = "load" /\ pubSince' = TRUE
    /\ UNCHANGED <<kv, kfault, pend, clock, loadAt, nloads, nenv, spin, lastGood, badPub, bvars, cvars>>

KSleep ==
    /\ wpc = "sleep"
    /\ clock' = clock + Refresh /\ wpc' = "load"
    /\ UNCHANGED <<kv, kfault, reg, last, pend, loadAt, pubSince, nloads, nenv, spin, lastGood, badPub, bvars, cvars>>

AllKV == [KNames -> Stat]
ANext ==
    \/ \E k \in AllKV, f \in KFaults : KEnv(k, f)
    \/ KLoad \/ KPublish \/ KSleep

\* ---- properties of Part A
ATypeOK == /\ kv \in AllKV /\ kfault \in KFaults /\ wpc \in {"load", "publish", "sleep"}
           /\ reg \in [KNames -> {"absent", "g1", "g2"}]
\* the set in effect is the one of the most recent GOOD round (so: unusable material and a
\* failing Vault change nothing, and a newly stored certificate is in effect when the first
\* round after the write has finished -- "within one refresh")
ARegIsLastGood == wpc # "publish" => reg = lastGood
ABadNeverPublishes == ~badPub
ANoSpin == ~spin
\* a round starts at most Refresh after the previous one ended (time of the discrete clock)
ARoundsInTime == wpc = "load" => clock - loadAt <= Refresh
\* liveness: Vault left alone and healthy, the set in effect becomes what Vault holds
AConverges == <>[](Kind(kv, kfault) = "good") => <>[](reg = SetOf(kv) \/ nloads = MaxLoads)
AFair == WF_vars(KLoad) /\ WF_vars(KPublish) /\ WF_vars(KSleep)

-----------------------------------------------------------------------------
(* Part B: the PKI source                                                  *)

IssueFaults == {"none", "500", "sealed", "403", "malformed", "nokey", "nocert", "badpem"}
NoFlight == [st |-> "none", out |-> 0]
IdleHs == [pc |-> "idle", name |-> "", res |-> 0, n |-> 0, live |-> 0]
Ids == 1..Len(certs)
Snap(c) == {c[n] : n \in {m \in PNames : c[m] > 0}}
Match(n) == {i \in store : certs[i].name = n /\ (ServesExpired \/ certs[i].st # "expired")}
Live == {i \in store : ServesExpired \/ certs[i].st # "expired"}

\* the cache holds a certificate for n that has not expired
LiveInCache(n) == cache[n] > 0 /\ certs[cache[n]].st # "expired"

BInit ==
    /\ certs = <<>> /\ store = {} /\ cache = [n \in PNames |-> 0] /\ pending = {}
    /\ flight = [n \in PNames |-> NoFlight] /\ tfl = {} /\ hs = [c \in Clients |-> IdleHs]
    /\ pfault = "none" /\ asked = {} /\ presentedExpired = FALSE /\ dupIssue = FALSE /\ benv = 0

BOnly == UNCHANGED <<avars, cvars>>

PFault(f) ==
    /\ benv < MaxEnv /\ f # pfault /\ pfault' = f /\ benv' = benv + 1
    /\ UNCHANGED <<certs, store, cache, pending, flight, tfl, hs, asked, presentedExpired, dupIssue>> /\ BOnly

HsStart(c, n) ==        \* a client opens a handshake with server name n
    /\ hs[c].pc \in {"idle", "done"} /\ hs[c].n < MaxHs
    /\ hs' = [hs EXCEPT ![c] = [pc |-> "started", name |-> n, res |-> 0, n |-> @.n + 1, live |-> IF LiveInCache(n) THEN cache[n] ELSE 0]]
    /\ asked' = asked \cup {n}
    /\ UNCHANGED <<certs, store, cache, pending, flight, tfl, pfault, presentedExpired, dupIssue, benv>> /\ BOnly

Present(c, i) ==
    /\ hs' = [hs EXCEPT ![c].pc = "got", ![c].res = i]
    /\ presentedExpired' = (presentedExpired \/ certs[i].st = "expired")

HsHit(c) ==             \* the store has a certificate for the name
    /\ hs[c].pc = "started" /\ Match(hs[c].name) # {}
    /\ \E i \in Match(hs[c].name) : Present(c, i)
    /\ UNCHANGED <<certs, store, cache, pending, flight, tfl, pfault, asked, dupIssue, benv>> /\ BOnly

HsFallback(c) ==        \* strictmatch=false: "the first certificate is used if no matching certificate was found"
    /\ ~Strict /\ hs[c].pc = "started" /\ Match(hs[c].name) = {} /\ Live # {}
    /\ \E i \in Live : Present(c, i)
    /\ UNCHANGED <<certs, store, cache, pending, flight, tfl, pfault, asked, dupIssue, benv>> /\ BOnly

HsMiss(c) ==            \* nothing suitable: ask the issuer
    /\ hs[c].pc = "started" /\ Match(hs[c].name) = {} /\ (Strict \/ Live = {})
    /\ hs' = [hs EXCEPT ![c].pc = "miss"]
    /\ UNCHANGED <<certs, store, cache, pending, flight, tfl, pfault, asked, presentedExpired, dupIssue, benv>> /\ BOnly

HsJoin(c) ==            \* an issue for the name is under way: wait for its result
    /\ hs[c].pc = "miss" /\ flight[hs[c].name].st # "none"
    /\ hs' = [hs EXCEPT ![c].pc = "wait"]
    /\ UNCHANGED <<certs, store, cache, pending, flight, tfl, pfault, asked, presentedExpired, dupIssue, benv>> /\ BOnly

\* the documented design looks into the cache once more inside the flight (AsyncInstall = FALSE)
CacheServes(n) == ~AsyncInstall /\ cache[n] > 0 /\ (ServesExpired \/ certs[cache[n]].st # "expired")

HsCached(c) ==          \* ... or, nothing under way, find the certificate in the issuer's cache
    /\ hs[c].pc = "miss" /\ flight[hs[c].name].st = "none" /\ CacheServes(hs[c].name)
    /\ Present(c, cache[hs[c].name])
    /\ UNCHANGED <<certs, store, cache, pending, flight, tfl, pfault, asked, dupIssue, benv>> /\ BOnly

HsLead(c) ==            \* ... or start an issue
    /\ hs[c].pc = "miss" /\ flight[hs[c].name].st = "none" /\ ~CacheServes(hs[c].name)
    /\ hs' = [hs EXCEPT ![c].pc = "lead"]
    /\ flight' = [flight EXCEPT ![hs[c].name] = [st |-> "lead", out |-> 0]]
    /\ UNCHANGED <<certs, store, cache, pending, tfl, pfault, asked, presentedExpired, dupIssue, benv>> /\ BOnly

\* Vault decides an issue request for name n when it arrives: a new certificate or a failure
Decide(n) == IF pfault = "none" /\ Len(certs) < MaxIssue
             THEN [out |-> Len(certs) + 1, certs |-> Append(certs, [name |-> n, st |-> "fresh", timer |-> "off"])]
             ELSE [out |-> 0, certs |-> certs]
CanDecide == pfault # "none" \/ Len(certs) < MaxIssue

IssueReq(n) ==
    /\ flight[n].st = "lead" /\ CanDecide
    /\ flight' = [flight EXCEPT ![n] = [st |-> "req", out |-> Decide(n).out]]
    /\ certs' = Decide(n).certs
    /\ dupIssue' = (dupIssue \/ (LiveInCache(n) /\ \E c \in Clients : hs[c].pc = "lead" /\ hs[c].name = n /\ hs[c].live = cache[n]))
    /\ UNCHANGED <<store, cache, pending, tfl, hs, pfault, asked, presentedExpired, benv>> /\ BOnly

IssueResp(n) ==
    /\ flight[n].st = "req"
    /\ flight' = [flight EXCEPT ![n].st = "resp"]
    /\ UNCHANGED <<certs, store, cache, pending, tfl, hs, pfault, asked, presentedExpired, dupIssue, benv>> /\ BOnly

\* the issuer caches the certificate, arms the re-issue timer and publishes a snapshot
Publish(newcache) ==
    IF AsyncInstall THEN pending' = pending \cup {Snap(newcache)} /\ store' = store
                    ELSE store' = Snap(newcache) /\ pending' = pending
Arm(cs, i) == [cs EXCEPT ![i].timer = "armed"]

IssueDone(n) ==         \* Issue has the answer: it caches the certificate, arms the timer, publishes a snapshot;
                        \* the flight is still open (handshakes can still join it)
    /\ flight[n].st = "resp"
    /\ LET i == flight[n].out IN
       IF i > 0 THEN /\ cache' = [cache EXCEPT ![n] = i] /\ certs' = Arm(certs, i)
                     /\ Publish([cache EXCEPT ![n] = i])
                ELSE UNCHANGED <<cache, certs, pending, store>>
    /\ flight' = [flight EXCEPT ![n].st = "ret"]
    /\ UNCHANGED <<tfl, hs, pfault, asked, presentedExpired, dupIssue, benv>> /\ BOnly

FlightRet(n) ==         \* Issue returns: every handshake that waited for it gets the result
    /\ flight[n].st = "ret"
    /\ LET i == flight[n].out IN
       hs' = [c \in Clients |-> IF hs[c].pc \in {"wait", "lead"} /\ hs[c].name = n
                                THEN [hs[c] EXCEPT !.pc = IF i > 0 THEN "got" ELSE "failed", !.res = i] ELSE hs[c]]
    /\ flight' = [flight EXCEPT ![n] = NoFlight]
    /\ UNCHANGED <<certs, store, cache, pending, tfl, pfault, asked, presentedExpired, dupIssue, benv>> /\ BOnly

Deliver(s) ==           \* one of the waiting snapshots reaches Store.SetCertificates
    /\ s \in pending
    /\ store' = s /\ pending' = pending \ {s}
    /\ UNCHANGED <<certs, cache, flight, tfl, hs, pfault, asked, presentedExpired, dupIssue, benv>> /\ BOnly

HsEnd(c) ==
    /\ hs[c].pc \in {"got", "failed"}
    /\ hs' = [hs EXCEPT ![c].pc = "done"]
    /\ UNCHANGED <<certs, store, cache, pending, flight, tfl, pfault, asked, presentedExpired, dupIssue, benv>> /\ BOnly

\* ---- time: a certificate's timer fires `refresh` before NotAfter, then the certificate expires
TimerFire(i) ==
    /\ i \in Ids /\ certs[i].timer = "armed"
    /\ certs' = [certs EXCEPT ![i].timer = "fired"]
    /\ tfl' = tfl \cup {[id |-> i, st |-> "lead", out |-> 0]}
    /\ UNCHANGED <<store, cache, pending, flight, hs, pfault, asked, presentedExpired, dupIssue, benv>> /\ BOnly

TIssueReq(t) ==
    /\ t \in tfl /\ t.st = "lead" /\ CanDecide
    /\ LET d == Decide(certs[t.id].name) IN
       /\ tfl' = (tfl \ {t}) \cup {[t EXCEPT !.st = "req", !.out = d.out]}
       /\ certs' = d.certs
    /\ UNCHANGED <<store, cache, pending, flight, hs, pfault, asked, presentedExpired, dupIssue, benv>> /\ BOnly

TIssueResp(t) ==
    /\ t \in tfl /\ t.st = "req"
    /\ tfl' = (tfl \ {t}) \cup {[t EXCEPT !.st = "resp"]}
    /\ UNCHANGED <<certs, store, cache, pending, flight, hs, pfault, asked, presentedExpired, dupIssue, benv>> /\ BOnly

TRet(t) ==              \* a failed re-issue is logged and forgotten ("TODO: Now what?")
    /\ t \in tfl /\ t.st = "resp"
    /\ tfl' = tfl \ {t}
    /\ LET n == certs[t.id].name IN
       IF t.out > 0 THEN /\ cache' = [cache EXCEPT ![n] = t.out] /\ certs' = Arm(certs, t.out)
                         /\ Publish([cache EXCEPT ![n] = t.out])
                    ELSE UNCHANGED <<cache, certs, pending, store>>
    /\ UNCHANGED <<flight, hs, pfault, asked, presentedExpired, dupIssue, benv>> /\ BOnly

Expire(i) ==            \* NotAfter passes (after the timer, which is set `refresh` earlier)
    /\ i \in Ids /\ certs[i].timer = "fired" /\ certs[i].st # "expired"
    /\ certs' = [certs EXCEPT ![i].st = "expired"]
    /\ UNCHANGED <<store, cache, pending, flight, tfl, hs, pfault, asked, presentedExpired, dupIssue, benv>> /\ BOnly

BNext ==
    \/ \E f \in IssueFaults : PFault(f)
    \/ \E c \in Clients, n \in PNames : HsStart(c, n)
    \/ \E c \in Clients : HsHit(c)
    \/ \E c \in Clients : HsFallback(c)
    \/ \E c \in Clients : HsMiss(c)
    \/ \E c \in Clients : HsJoin(c)
    \/ \E c \in Clients : HsCached(c)
    \/ \E c \in Clients : HsLead(c)
    \/ \E n \in PNames : IssueReq(n)
    \/ \E n \in PNames : IssueResp(n)
    \/ \E n \in PNames : IssueDone(n)
    \/ \E n \in PNames : FlightRet(n)
    \/ \E s \in pending : Deliver(s)
    \/ \E c \in Clients : HsEnd(c)
    \/ \E i \in Ids : TimerFire(i)
    \/ \E t \in tfl : TIssueReq(t)
    \/ \E t \in tfl : TIssueResp(t)
    \/ \E t \in tfl : TRet(t)
    \/ \E i \in Ids : Expire(i)

\* ---- properties of Part B
BTypeOK == /\ store \subseteq Ids /\ \A n \in PNames : cache[n] \in 0..Len(certs)
           /\ \A c \in Clients : hs[c].pc \in {"idle", "started", "miss", "wait", "lead", "got", "failed", "done"}
\* an issued certificate is never presented for another name (listeners with strictmatch=true;
\* without it proxy.addr documents the fall-back to "the first certificate")
BRightName == Strict => \A c \in Clients : (hs[c].pc \in {"got", "done"} /\ hs[c].res > 0) => certs[hs[c].res].name = hs[c].name
\* certificates are issued for the names that were asked for, the cache holds nothing else
BCacheBounded == /\ {n \in PNames : cache[n] > 0} \subseteq asked
                 /\ \A i \in Ids : certs[i].name \in asked
                 /\ \A n \in PNames : cache[n] > 0 => certs[cache[n]].name = n
\* the store holds snapshots of the cache: at most one certificate per name
BStoreOnePerName == \A i, j \in store : certs[i].name = certs[j].name => i = j
\* what IS promised about concurrent issues (golang.org/x/sync/singleflight in TLSConfig): the
\* handshakes that wait for a name share ONE request -- flight is a function of the name, and a
\* handshake only starts a request when none is under way (HsLead).  Timers are outside of it.
BOneFlight == \A n \in PNames : /\ Cardinality({c \in Clients : hs[c].pc = "lead" /\ hs[c].name = n}) <= 1
                                  /\ flight[n].st = "none" => \A c \in Clients : ~(hs[c].pc \in {"wait", "lead"} /\ hs[c].name = n)
\* a handshake that begins when the issuer holds an unexpired certificate for its name is served
\* from the cache: it does not make Vault issue another one while that certificate is valid
BServedFromCache == ~dupIssue
\* "re-issue them <refresh> before they expire": an expired certificate is never presented
BExpiredNeverPresented == ~presentedExpired
\* a failed issue fails the handshakes that waited for it and nobody else: the next one retries
BFailedRetries == \A c \in Clients : hs[c].pc = "failed" => hs[c].res = 0

-----------------------------------------------------------------------------
(* Part C: the token                                                       *)
(* Time in half seconds.  "The provided token ... should be renewable for  *)
(* the duration fabio is expected to run": fabio keeps a renewable token   *)
(* alive -- it renews it at half of its life time.                         *)

CInit ==
    /\ tnow = 0 /\ texp = 2 * TTL /\ trenewable \in BOOLEAN /\ tdead = FALSE
    /\ kpc = "start" /\ tat = 0 /\ tfailat = -10 /\ tfault = FALSE /\ cenv = 0 /\ treqs = <<>>

COnly == UNCHANGED <<avars, bvars>>

TFault ==               \* the token endpoints start / stop failing
    /\ cenv < MaxEnv /\ tfault' = ~tfault /\ cenv' = cenv + 1
    /\ UNCHANGED <<tnow, texp, trenewable, tdead, kpc, tat, tfailat, treqs>> /\ COnly

Note(k, ok) == Append(treqs, [req |-> k, at |-> tnow, ok |-> ok])

TLookup ==              \* lookup-self when the client is created (retried after a second by the documented design)
    /\ kpc = "start" /\ tnow >= tat
    /\ treqs' = Note("lookup", ~(tfault \/ tdead))
    /\ IF tfault \/ tdead
       THEN /\ tfailat' = tnow
            /\ IF LookupFailDisables THEN kpc' = "off" /\ tat' = tat ELSE kpc' = "start" /\ tat' = tnow + 2
       ELSE /\ tfailat' = tfailat
            /\ IF trenewable THEN kpc' = "timer" /\ tat' = tnow + ((texp - tnow) \div 2) ELSE kpc' = "off" /\ tat' = tat
    /\ UNCHANGED <<tnow, texp, trenewable, tdead, tfault, cenv>> /\ COnly

TRenew ==               \* renew-self when the timer fires; a failure is retried after one second
    /\ kpc = "timer" /\ tnow = tat
    /\ treqs' = Note("renew", ~(tfault \/ tdead))
    /\ IF tfault \/ tdead
       THEN tfailat' = tnow /\ tat' = tnow + 2 /\ texp' = texp
       ELSE tfailat' = tfailat /\ texp' = tnow + 2 * TTL /\ tat' = tnow + TTL
    /\ UNCHANGED <<tnow, trenewable, tdead, kpc, tfault, cenv>> /\ COnly

TTick ==                \* half a second passes; timers that are due go first
    /\ tnow < MaxT
    /\ ~(kpc = "timer" /\ tat <= tnow) /\ ~(kpc = "start" /\ tat <= tnow)
    /\ tnow' = tnow + 1
    /\ tdead' = (tdead \/ tnow + 1 >= texp)
    /\ UNCHANGED <<texp, trenewable, kpc, tat, tfailat, tfault, cenv, treqs>> /\ COnly

CNext == TFault \/ TLookup \/ TRenew \/ TTick

CTypeOK == kpc \in {"start", "timer", "off"} /\ tnow \in 0..MaxT
\* a renewable token dies only when Vault refused to extend it up to the end: the last attempt
\* (they are one second apart after a failure) failed within the last second of its life
CTokenKept == tdead => (~trenewable \/ tfailat >= texp - 2)
\* after a failed request the next one is at least one second later
CNoSpin == \A i \in DOMAIN treqs : (i > 1 /\ ~treqs[i-1].ok) => treqs[i].at - treqs[i-1].at >= 2

-----------------------------------------------------------------------------
Init == AInit /\ BInit /\ CInit
ASpec == Init /\ [][ANext]_vars
BSpec == Init /\ [][BNext]_vars
CSpec == Init /\ [][CNext]_vars
ALive == ASpec /\ AFair
=============================================================================
