SPECIFICATION TSpec
CONSTANTS
  Readers = {0, 1, 2, 3, 4, 5, 6, 7}
  Versions = {"A", "B"}
  MaxWrites = 100000000
  Probes = 5
CONSTRAINT HW
INVARIANTS ReaderSingleVersion
POSTCONDITION Accepted
CHECK_DEADLOCK FALSE
