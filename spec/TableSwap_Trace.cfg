SPECIFICATION TSpec
CONSTANTS
  Readers = {0, 1, 2, 3, 4, 5, 6, 7}
  Versions = {"A", "B"}
  MaxWrites = 100000000
  Probes = 5
  Builders = {100, 101, 102}
  MaxBuilds = 100000000
CONSTRAINT HW
INVARIANTS ReaderSingleVersion BuildIsolated
POSTCONDITION Accepted
CHECK_DEADLOCK FALSE
