---------------------------- MODULE AccessHist_MC ----------------------------
(* Universe and generator for AccessHist: one JSON line per attempt examined - the history  *)
(* up to and including it (attempts and reloads) with the verdict prescribed for every      *)
(* attempt.                                                                                 *)
EXTENDS AccessHist, Json, TLC

\* htpasswd contents:  v1 = {ops:admin42, bob:another}   v2 = {ops:changed7, bob:another}
\*                     v3 = {bob:another}  (ops removed)
\* credential classes: good = ops:admin42        newpw = ops:changed7     bad = ops:wrong
\*   shift1 = opsa:dmin42   shift2 = o:psadmin42   emptyuser = "":opsadmin42   emptypw = opsadmin42:""
\*   other = bob:another    crossed = ops:another   none = no header   malformed = unusable header
MCCredsFull  == {"good", "newpw", "bad", "shift1", "shift2", "emptyuser", "emptypw", "other", "crossed", "none", "malformed"}
MCCredsTiny  == {"good", "newpw", "other", "bad"}
MCCredsSmall == {"good", "newpw", "shift1", "emptypw", "bad", "other"}
MCVersions == {"v1", "v2", "v3"}
MCGone == "gone"
MCValid == [v \in MCVersions \cup {MCGone} |-> CASE v = "v1" -> {"good", "other"}
                                   [] v = "v2" -> {"newpw", "other"}
                                   [] v = "v3" -> {"other"}
                                   [] v = "gone" -> {}]
MCMTimesNewer == {"newer"}
MCMTimesAll   == {"newer", "older", "equal"}
MCSameConcat == {"good", "shift1", "shift2", "emptyuser", "emptypw"}

GenAttempt(c) == /\ Attempt(c)
                 /\ PrintT(ToJson([events |-> hist',
                                   \* per attempt: the verdicts the contents that may be in force prescribe
                                   allowed |-> [k \in DOMAIN verdicts' |-> AllowedFor(hist', k)]]))
GenNext == (\E c \in Creds : GenAttempt(c)) \/ (\E v \in Versions, mt \in MTimes : Reload(v, mt)) \/ Remove
GenSpec == Init /\ [][GenNext]_vars
=============================================================================
