---------------------------- MODULE Fabio_MC ----------------------------
EXTENDS Fabio, Json, TLC
MCInst3   == {"a1", "a2", "b1"}
MCNodeOf3 == [i \in MCInst3 |-> IF i = "a2" THEN "n2" ELSE "n1"]
MCSvcOf3  == [i \in MCInst3 |-> IF i = "b1" THEN "B" ELSE "A"]
MCInst2   == {"a1", "b1"}
MCNodeOf2 == [i \in MCInst2 |-> "n1"]
MCSvcOf2  == [i \in MCInst2 |-> IF i = "b1" THEN "B" ELSE "A"]
MCManual  == {"none", "delA", "weightA", "addX", "bad"}
MCManualSmall == {"none", "delA", "bad"}
MCPrefixes == {"/a", "/b2", "/x", "/none"}
MCPrefixOf3 == [i \in MCInst3 \cup {"X"} |-> CASE i \in {"a1", "a2"} -> {"/a"} [] i = "b1" -> {"/b2"} [] OTHER -> {"/x"}]
MCPrefixOf2 == [i \in MCInst2 \cup {"X"} |-> CASE i = "a1" -> {"/a"} [] i = "b1" -> {"/b2"} [] OTHER -> {"/x"}]
=============================================================================
