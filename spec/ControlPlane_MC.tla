---------------------------- MODULE ControlPlane_MC ----------------------------
EXTENDS ControlPlane, Json, TLC
\* two instances of service A on different nodes (same service ID on both nodes in the
\* concretisation), one instance of service B sharing a node with an A instance
MCInst3   == {"a1", "a2", "b1"}
MCNodeOf3 == [i \in MCInst3 |-> IF i = "a2" THEN "n2" ELSE "n1"]
MCSvcOf3  == [i \in MCInst3 |-> IF i = "b1" THEN "B" ELSE "A"]
MCInst2   == {"a1", "b1"}
MCNodeOf2 == [i \in MCInst2 |-> "n1"]
\* three service names: a2 registers under a name of its own (service monitors that do not divide evenly)
MCSvcOf3Split == [i \in MCInst3 |-> IF i = "b1" THEN "B" ELSE IF i = "a2" THEN "C" ELSE "A"]
MCSvcOf2  == [i \in MCInst2 |-> IF i = "b1" THEN "B" ELSE "A"]
MCManual  == {"none", "delA", "weightA", "addX", "bad"}
MCManualSmall == {"none", "delA", "bad"}
=============================================================================
