---------------------------- MODULE AdminKV_Trace ----------------------------
(* Validation of an execution recorded from the real admin server + real consul backend +     *)
(* real watcher loops against AdminKV.  The fake KV store logs every check-and-set, read,     *)
(* list answer and direct edit at its linearization point (under its mutex); the clients log  *)
(* invocation and response of every API request and no-route request; the SetTable hook logs  *)
(* table installs.  Rendez-vous on the channels, loop iterations that install nothing, the    *)
(* store of the no-route page and the read of it by a request are not observable: silent.     *)
(* A read of the KV store (event Get) carries no client identity: it is attributed to any     *)
(* client that is waiting for one on that document; the response event settles the choice.    *)
(* The first line of the log (ev = "Meta") names the clients, the read-only ones and the      *)
(* documents in key order.                                                                    *)
EXTENDS AdminKV_MC, IOUtils
VARIABLE l

TraceLog == ndJsonDeserialize(IOEnv.VERIF_TRACE)
ToSet(q) == {q[i] : i \in DOMAIN q}
Meta == TraceLog[1]
TraceClients == ToSet(Meta.clients)
TraceRo      == ToSet(Meta.ro)
TracePaths   == ToSet(Meta.paths)
TraceOrder   == Meta.paths
\* the texts are whatever the log carries: TypeOK without the membership of the texts in Values
TTypeOK ==
    /\ \A p \in Paths : doc[p].present \in BOOLEAN /\ doc[p].mi \in 0..gidx /\ (doc[p].present <=> doc[p].mi # 0)
    /\ \A c \in Clients : pc[c] \in PcSet /\ res[c].status \in {0, 200, 403, 409}
    /\ tomb <= gidx /\ nrTomb <= gidx /\ wkLast <= gidx /\ nkLast <= gidx

E == TraceLog[l]
Ev(e) == l <= Len(TraceLog) /\ TraceLog[l].ev = e /\ l' = l + 1
FromList(q) == [p \in Paths |-> LET m == {i \in DOMAIN q : q[i].p = p} IN
                                IF m = {} THEN None ELSE q[CHOOSE i \in m : TRUE].val]

TInit == TLCSet(1, 0) /\ Init /\ l = 2

TGetInv == Ev("GetInv") /\ GetInv(E.c, E.p)
\* the event carries what the KV store answered: the text, and the ModifyIndex (table index for a missing key)
TGet    == Ev("Get") /\ \E c \in Clients :
              /\ pc[c] = "get" /\ req[c].path = E.p /\ GetLin(c)
              /\ res'[c].val = E.val
              /\ E.ver = (IF doc[E.p].present THEN doc[E.p].mi ELSE gidx)
TGetRet == /\ Ev("GetRet") /\ pc[E.c] = "ret" /\ req[E.c].op = "get" /\ res[E.c].status = E.status
           /\ (E.status = 200 => res[E.c].val = E.val /\ res[E.c].ver = E.ver)
           /\ Ret(E.c)
TPutInv == Ev("PutInv") /\ PutInv(E.c, E.p, E.val, E.ver)
TCas    == Ev("Cas") /\ \E c \in Clients :
              /\ req[c].op = "put" /\ req[c].path = E.p /\ req[c].val = E.val
              /\ \/ pc[c] = "put1" /\ E.cas = 0 /\ Put1(c)
                 \/ pc[c] = "put2" /\ E.cas = req[c].ver /\ Put2(c)
              /\ (E.ok = 1) = (pc'[c] = "ret" /\ res'[c].status = 200)
              /\ gidx' = E.idx
TPutRet == Ev("PutRet") /\ pc[E.c] = "ret" /\ req[E.c].op = "put" /\ res[E.c].status = E.status /\ Ret(E.c)
TExt    == Ev("Ext") /\ ExtEdit(E.p, E.val) /\ gidx' = E.idx
TDel    == Ev("Del") /\ ExtDelete(E.p) /\ gidx' = E.idx
TTouch  == Ev("Touch") /\ Touch /\ gidx' = E.idx
TMReq   == Ev("MReq") /\ WkIssue /\ wkLast = E.idx
TMResp  == Ev("MResp") /\ WkAnswer /\ wkLast' = E.idx /\ wkSnap' = FromList(E.content)
\* a table install: by the manual side (the overrides in it are the ones just received), or by the
\* service side (the overrides in it are the ones in force)
TInstall == /\ Ev("Install")
            /\ \/ LoopInstall /\ {applied'[p] : p \in Paths} \ {None} = ToSet(E.man)
               \/ bePc = "select" /\ {applied[p] : p \in Paths} \ {None} = ToSet(E.man) /\ UNCHANGED vars
TNrSet   == Ev("NrSet") /\ NrSet(E.val) /\ gidx' = E.idx
TNrDel   == Ev("NrDel") /\ NrDel /\ gidx' = E.idx
TNrTouch == Ev("NrTouch") /\ NrTouch /\ gidx' = E.idx
TNReq    == Ev("NReq") /\ NkIssue /\ nkLast = E.idx
TNResp   == Ev("NResp") /\ NkAnswer /\ nkLast' = E.idx /\ nkSnap' = E.val
TReqInv  == Ev("ReqInv") /\ ReqInv
TReqRet  == Ev("ReqRet") /\ rqPc = "ret" /\ rqSeen = E.body /\ ReqRet
Silent   == l' = l /\ (LoopRecv \/ LoopSame \/ NlRecv \/ NlSet \/ ReqLin)

TNext == TGetInv \/ TGet \/ TGetRet \/ TPutInv \/ TCas \/ TPutRet \/ TExt \/ TDel \/ TTouch
         \/ TMReq \/ TMResp \/ TInstall \/ TNrSet \/ TNrDel \/ TNrTouch \/ TNReq \/ TNResp
         \/ TReqInv \/ TReqRet \/ Silent
TSpec == TInit /\ [][TNext]_<<vars, l>>

HW == TLCSet(1, IF TLCGet(1) < l THEN l ELSE TLCGet(1))
Accepted == TLCGet(1) = Len(TraceLog) + 1
=============================================================================
