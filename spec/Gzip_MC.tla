------------------------------ MODULE Gzip_MC ------------------------------
(* Bounded universes for Gzip and the behaviour generator: one JSON line per examined      *)
(* transition (VIEW without the history, so the first = a shortest interleaving reaching   *)
(* each state is kept): the interleaving of ops, and per handler the request parameters,   *)
(* the ops performed, the status and the (mode, Content-Encoding, Content-Length) triples  *)
(* the specification permits if the handler returned now.                                  *)
EXTENDS Gzip, Json, TLC

MCReqsFull  == [ae : {"yes", "no", "refused"}, ct : {"match", "nomatch", "absent"}, enc : {"", "br"},
                cl : {FALSE, TRUE}, acc : {"other", "sse"}, method : {"GET", "HEAD"}, late : {FALSE}, vary : {""}, buf : {"fresh"}, via : {"default"}]
MCReqsMid   == [ae : {"yes", "no", "refused"}, ct : {"match", "nomatch"}, enc : {"", "br"},
                cl : {FALSE, TRUE}, acc : {"other"}, method : {"GET"}, late : {FALSE}, vary : {""}, buf : {"fresh"}, via : {"default"}]
\* informational headers: the parameters that matter for them, with the response headers set early or late
MCReqsInfo  == [ae : {"yes", "no", "refused"}, ct : {"match", "nomatch"}, enc : {"", "br"},
                cl : {FALSE, TRUE}, acc : {"other"}, method : {"GET", "HEAD"}, late : {FALSE, TRUE}, vary : {""}, buf : {"fresh"}, via : {"default"}]
MCReqsInfoOne == [ae : {"yes"}, ct : {"match"}, enc : {""}, cl : {TRUE}, acc : {"other"}, method : {"GET"}, late : {FALSE, TRUE}, vary : {""}, buf : {"fresh"}, via : {"default"}]
MCReqsInfoPair == [ae : {"yes", "no"}, ct : {"match"}, enc : {""}, cl : {TRUE}, acc : {"other"}, method : {"GET"}, late : {FALSE, TRUE}, vary : {""}, buf : {"fresh"}, via : {"default"}]
\* Accept-Encoding classes incl. wildcard / several codings / q-values in any order
MCReqsAE    == [ae : {"yes", "no", "refused", "refusedwild", "wild"}, ct : {"match", "nomatch"}, enc : {""},
                cl : {FALSE, TRUE}, acc : {"other"}, method : {"GET"}, late : {FALSE}, vary : {""}, buf : {"fresh"}, via : {"default"}]
\* streamed responses (Flush between chunks / before the first one)
MCReqsFlush == [ae : {"yes", "no", "refused"}, ct : {"match", "nomatch"}, enc : {"", "br"},
                cl : {FALSE, TRUE}, acc : {"other", "sse"}, method : {"GET", "HEAD"}, late : {FALSE}, vary : {""}, buf : {"fresh"}, via : {"default"}]
\* histories on one instance: responses that carry a Vary value of their own / are aborted, then ordinary ones
MCReqsHist  == [ae : {"yes", "no"}, ct : {"match", "nomatch"}, enc : {"", "br"}, cl : {FALSE, TRUE},
                acc : {"other"}, method : {"GET"}, late : {FALSE}, vary : {"", "own"}, buf : {"fresh"}, via : {"default"}]
MCReqsHistPair == [ae : {"yes"}, ct : {"match", "nomatch"}, enc : {""}, cl : {TRUE},
                   acc : {"other"}, method : {"GET"}, late : {FALSE}, vary : {"", "own"}, buf : {"fresh"}, via : {"default"}]
\* typeless bodies whose type is sniffed, written from a reused buffer; failed hijack attempts
MCReqsSniff == [ae : {"yes", "no"}, ct : {"absent", "match"}, enc : {""}, cl : {FALSE, TRUE}, acc : {"other"},
                method : {"GET"}, late : {FALSE}, vary : {""}, buf : {"fresh", "reused"}, via : {"default"}]
\* the proxy's transports (route options) x encoded / not encoded upstream responses
MCReqsVia   == [ae : {"yes", "no", "refused"}, ct : {"match", "nomatch"}, enc : {"", "br"}, cl : {FALSE, TRUE}, acc : {"other"},
                method : {"GET"}, late : {FALSE}, vary : {""}, buf : {"fresh"}, via : {"default", "insecure", "target"}]
\* the quick tier enumerates the four special universes above in one run
MCReqsMisc  == MCReqsAE \cup MCReqsVia \cup MCReqsSniff \cup MCReqsHist
MCReqsPair  == [ae : {"yes", "refused"}, ct : {"match", "nomatch"}, enc : {"", "br"}, cl : {TRUE}, acc : {"other"}, method : {"GET"}, late : {FALSE}, vary : {""}, buf : {"fresh"}, via : {"default"}]
MCReqsSmall == [ae : {"yes", "no"}, ct : {"match"}, enc : {""}, cl : {TRUE}, acc : {"other"}, method : {"GET"}, late : {FALSE}, vary : {""}, buf : {"fresh"}, via : {"default"}]
MCOne == {1}
MCTwo == {1, 2}
MCThree == {1, 2, 3}
MCCodesFull  == {404, 204, 304}
MCCodesSmall == {404}
MCCodesInfo  == {103, 102, 404, 204}     \* informational codes before (and after) a final one
MCCodesInfoSmall == {103, 404}
MCCodesFlush == {404, 204}
MCChunksTwo == {"a", "b"}
MCChunksFull  == {"a", "b", "e"}        \* "e" is concretised as the empty chunk
MCChunksSmall == {"a"}

HandlerJson(h) ==
    LET st == hs[h] IN
    [started |-> st.pc # "idle", aborted |-> st.pc = "aborted", req |-> st.req, ops |-> st.ops, status |-> ExpStatus(h),
     body_allowed |-> BodyAllowed(ExpStatus(h), st.req.method),
     \* status and "may have a body" under both readings of Flush (got through / no-op)
     alts |-> {[flush |-> hn, status |-> StatusUnder(st.ops, hn), body_allowed |-> BodyAllowed(StatusUnder(st.ops, hn), st.req.method)] : hn \in BOOLEAN},
     \* a response that cannot have a body (HEAD, 204, 304) has nothing to compress: for it only
     \* "never labelled gzip unless gzip is permitted" and the status are asserted
     modes |-> {[mode |-> m, ce |-> ExpCE(st.req, m), cl |-> ExpCL(st.req, m)] :
                  m \in AllowedModes(st.req, NFinal(st.ops))
                        \cup (IF \A hn \in BOOLEAN : BodyAllowed(StatusUnder(st.ops, hn), st.req.method) THEN {} ELSE {"plain"})}]
BehaviourJson == [hist |-> hist, handlers |-> [h \in Handlers |-> HandlerJson(h)]]

View == <<hs, pool, made, wbuf, wtarget>>

\* only steps of the inner handlers are worth a line (Begin / the second finish step add nothing)
GenNext == \E h \in Handlers :
             \/ \E q \in Reqs : Begin(h, q)
             \/ (\E c \in Codes : WriteHeader(h, c)) /\ PrintT(ToJson(BehaviourJson'))
             \/ (\E k \in Chunks : Write(h, k)) /\ PrintT(ToJson(BehaviourJson'))
             \/ (WithFlush /\ FlushOp(h)) /\ PrintT(ToJson(BehaviourJson'))
             \/ (WithAbort /\ Abort(h)) /\ PrintT(ToJson(BehaviourJson'))
             \/ (WithHijack /\ HijackFails(h)) /\ PrintT(ToJson(BehaviourJson'))
             \/ FinishFlush(h) /\ PrintT(ToJson(BehaviourJson'))
             \/ FinishPut(h)
GenSpec == Init /\ [][GenNext]_vars
=============================================================================
