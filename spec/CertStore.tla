----------------------------- MODULE CertStore -----------------------------
(***************************************************************************)
(* Certificate selection and publication of fabio's TLS listeners,         *)
(* transcribed from the statement of property C11 and the documentation    *)
(* of the certificate stores (docs/content/feature/certificate-stores.md:  *)
(* "loaded in alphabetical order and the first certificate is the          *)
(* default", "refreshes them periodically").                               *)
(*                                                                         *)
(* Part 1  Select(set, req, strict): which certificate of a set a client   *)
(*         asking for server name `req` is presented.                      *)
(* Part 2  the state machine: ONE atomic register holding the published    *)
(*         set (certificates and name index as a unit), handshakes that    *)
(*         read it (HsInv, HsLoad, HsSelect), and the watcher of a         *)
(*         certificate source (Load, Publish, Sleep) on a discrete clock.  *)
(*                                                                         *)
(* Two constants name deviations from the required design; the required    *)
(* design has both FALSE.  They exist so that TLC can show that the        *)
(* properties are not vacuous (the deviation must violate them):           *)
(*   SplitStore       certificates and index are published in two steps    *)
(*   SpinOnUnusable   material that cannot be turned into certificates is  *)
(*                    retried at once instead of after the refresh period  *)
(*                    (what cert/watch.go did on the pinned tree)          *)
(***************************************************************************)
EXTENDS Integers, Sequences, FiniteSets

-----------------------------------------------------------------------------
(* Part 1: names, certificates, Select                                     *)

\* A name is a sequence of labels: <<"b","a","com">>, wildcard <<"*","a","com">>.
\* A certificate is [cn |-> name or <<>>, sans |-> sequence of names]; its names are in
\* lower case (Scope).  A certificate set is a SEQUENCE (the first one is the default).
\* A requested server name is the sequence of labels AS SPELLED BY THE CLIENT: any letter
\* case, trailing dots appear as trailing empty labels ("a.com." = <<"a","com","">>),
\* absent = <<>>.
CONSTANT Fold(_)        \* label as spelled |-> the label in lower case

Range(q) == {q[i] : i \in DOMAIN q}
NamesOf(c) == (IF c.cn # <<>> THEN {c.cn} ELSE {}) \cup Range(c.sans)

RECURSIVE StripDots(_)
StripDots(q) == IF q # <<>> /\ q[Len(q)] = "" THEN StripDots(SubSeq(q, 1, Len(q) - 1)) ELSE q
\* case-folded, trailing dots stripped
Norm(req) == LET s == StripDots(req) IN [i \in DOMAIN s |-> Fold(s[i])]

\* the wildcard name that covers n: its leftmost label replaced by "*"
WildOf(n) == <<"*">> \o Tail(n)

Exact(set, n) == {i \in DOMAIN set : n \in NamesOf(set[i])}
Wild(set, n)  == {i \in DOMAIN set : WildOf(n) \in NamesOf(set[i])}
MinOf(S) == CHOOSE x \in S : \A y \in S : x <= y

\* no two certificates of a set carry the same name (the statement does not rank them)
WellFormed(set) == \A i, j \in DOMAIN set : i # j => NamesOf(set[i]) \cap NamesOf(set[j]) = {}

\* Result: index into the set, 0 = no certificate at all.
Select(set, req, strict) ==
    LET n == Norm(req) IN
    IF set = <<>> THEN 0
    ELSE IF n # <<>> /\ Exact(set, n) # {} THEN MinOf(Exact(set, n))
    ELSE IF n # <<>> /\ Wild(set, n) # {} THEN MinOf(Wild(set, n))
    ELSE IF strict THEN 0
    ELSE 1

-----------------------------------------------------------------------------
(* Part 2: register, handshakes, watcher                                   *)

CONSTANTS
    Good,           \* contents of the source from which a certificate set can be built (set ids)
    Unusable,       \* contents with unusable material: SOMETHING THAT IS PRESENT cannot be used
                    \* (broken PEM, key half missing, foreign key, a file that is listed but cannot
                    \* be read, that is too large, that the server answers with an error page).
                    \* Reading of the statement ("a source that delivers unusable material neither
                    \* removes the working set nor spins"): one unusable piece makes the whole load
                    \* unusable -- in particular when the other pieces are fine, else the certificate
                    \* whose material broke would silently drop out of the working set.  Material
                    \* that is simply ABSENT (a certificate deleted on purpose, no longer listed) is
                    \* not unusable: that is a new, smaller Good content.
    Failing,        \* "contents" for which reading the source itself fails (listing unavailable, ...)
    Clients,        \* concurrent handshakes
    Reqs,           \* server names a client may ask for (label sequences as in Part 1)
    MaxLoads,       \* bound on the watcher history
    MaxHs,          \* bound on handshakes per client
    Refresh,        \* refresh period, in clock ticks
    SplitStore, SpinOnUnusable

None == ""          \* no content / the empty set (shares the type of the set ids)
Unit(s) == [certs |-> s, index |-> s]

VARIABLES
    reg,            \* THE register: [certs, index], replaced as a unit
    wpc,            \* watcher: "load" | "publish" | "publish2" | "sleep"
    pend,           \* content on its way to the register
    last,           \* content of the last publication (what "same" is relative to)
    clock, loadAt, pubSince, nloads,
    hs,             \* per client: pc, req, snap (what HsLoad read), seen (sets current during the handshake), n
    cur,            \* ghost: the set most recently published
    spin,           \* ghost: two loads closer than Refresh without a publication between them
    badReg,         \* ghost: register at the time of the first unusable/failing load since the last good one
    hist            \* ghost: the watcher history <<[kind, content, pub]>>

wvars == <<wpc, pend, last, clock, loadAt, pubSince, nloads, spin, badReg, hist>>
vars == <<reg, wvars, hs, cur>>

Idle == [pc |-> "idle", req |-> <<>>, snap |-> Unit(None), seen |-> {}, n |-> 0]
NoBad == [certs |-> "-", index |-> "-"]

Init ==
    /\ reg = Unit(None) /\ cur = None
    /\ wpc = "load" /\ pend = None /\ last = None
    /\ clock = 0 /\ loadAt = 0 /\ pubSince = TRUE /\ nloads = 0
    /\ hs = [c \in Clients |-> Idle]
    /\ spin = FALSE /\ badReg = NoBad /\ hist = <<>>

\* ---- handshakes
HsInv(c, r) ==
    /\ hs[c].pc \in {"idle", "done"} /\ hs[c].n < MaxHs
    /\ hs' = [hs EXCEPT ![c] = [pc |-> "inv", req |-> r, snap |-> Unit(None), seen |-> {cur}, n |-> @.n + 1]]
    /\ UNCHANGED <<reg, wvars, cur>>
\* the single read of the register
HsLoad(c) ==
    /\ hs[c].pc = "inv"
    /\ hs' = [hs EXCEPT ![c].pc = "loaded", ![c].snap = reg]
    /\ UNCHANGED <<reg, wvars, cur>>
\* selection works on the snapshot only
HsSelect(c) ==
    /\ hs[c].pc = "loaded"
    /\ hs' = [hs EXCEPT ![c].pc = "done"]
    /\ UNCHANGED <<reg, wvars, cur>>

\* ---- watcher
Note(kind, content) == Append(hist, [kind |-> kind, content |-> content, pub |-> None, at |-> clock])
LoadCommon ==
    /\ wpc = "load" /\ nloads < MaxLoads
    /\ nloads' = nloads + 1 /\ loadAt' = clock /\ pubSince' = FALSE
    /\ spin' = (spin \/ (nloads > 0 /\ ~pubSince /\ clock - loadAt < Refresh))
    /\ UNCHANGED <<reg, hs, cur, last, clock>>
\* Two Good contents can hold the SAME material (the same PEM blocks, byte for byte) under
\* other file names: an operator renames the files to make another certificate the default
\* (documentation: "loaded in alphabetical order and the first certificate is the default").
\* By convention content s \o "r" is content s with its file names permuted.  The material is
\* usable and the content DIFFERS from what was published (other order, other default), so it
\* is a change like any other: it is published and takes effect for new handshakes.
Renamed(s, t) == s # None /\ t # None /\ (t = s \o "r" \/ s = t \o "r")
LoadGood(s) ==          \* new usable material
    /\ s \in Good /\ s # last /\ ~Renamed(last, s) /\ LoadCommon
    /\ pend' = s /\ wpc' = "publish" /\ badReg' = NoBad
    /\ hist' = Note("good", s)
LoadRenamed(s) ==       \* the material published last, under permuted file names
    /\ s \in Good /\ Renamed(last, s) /\ LoadCommon
    /\ pend' = s /\ wpc' = "publish" /\ badReg' = NoBad
    /\ hist' = Note("rename", s)
LoadSame ==             \* the source still delivers what was published last
    /\ last # None /\ LoadCommon
    /\ wpc' = "sleep" /\ hist' = Note("same", last)
    /\ UNCHANGED <<pend, badReg>>
LoadUnusable(u) ==      \* material that cannot be turned into a certificate set
    /\ u \in Unusable /\ LoadCommon
    /\ wpc' = IF SpinOnUnusable THEN "load" ELSE "sleep"
    /\ badReg' = IF badReg = NoBad THEN reg ELSE badReg
    /\ hist' = Note("unusable", u)
    /\ UNCHANGED pend
LoadError(e) ==         \* the source cannot be read
    /\ e \in Failing /\ LoadCommon
    /\ wpc' = "sleep"
    /\ badReg' = IF badReg = NoBad THEN reg ELSE badReg
    /\ hist' = Note("error", e)
    /\ UNCHANGED pend

MarkPub == [hist EXCEPT ![Len(hist)].pub = pend]
Publish ==
    /\ wpc = "publish"
    /\ IF SplitStore
       THEN /\ reg' = [reg EXCEPT !.certs = pend] /\ wpc' = "publish2"
            /\ UNCHANGED <<cur, hs, last, pubSince, hist>>
       ELSE /\ reg' = Unit(pend) /\ wpc' = "load" /\ cur' = pend /\ last' = pend /\ pubSince' = TRUE
            /\ hs' = [c \in Clients |-> IF hs[c].pc \in {"inv", "loaded"} THEN [hs[c] EXCEPT !.seen = @ \cup {pend}] ELSE hs[c]]
            /\ hist' = MarkPub
    /\ UNCHANGED <<pend, clock, loadAt, nloads, spin, badReg>>
Publish2 ==
    /\ wpc = "publish2"
    /\ reg' = [reg EXCEPT !.index = pend] /\ wpc' = "load" /\ cur' = pend /\ last' = pend /\ pubSince' = TRUE
    /\ hs' = [c \in Clients |-> IF hs[c].pc \in {"inv", "loaded"} THEN [hs[c] EXCEPT !.seen = @ \cup {pend}] ELSE hs[c]]
    /\ hist' = MarkPub
    /\ UNCHANGED <<pend, clock, loadAt, nloads, spin, badReg>>
Sleep ==
    /\ wpc = "sleep"
    /\ clock' = clock + Refresh /\ wpc' = "load"
    /\ UNCHANGED <<reg, hs, cur, pend, last, loadAt, pubSince, nloads, spin, badReg, hist>>

WatcherNext ==
    \/ \E s \in Good : LoadGood(s)
    \/ \E s \in Good : LoadRenamed(s)
    \/ LoadSame
    \/ \E u \in Unusable : LoadUnusable(u)
    \/ \E e \in Failing : LoadError(e)
    \/ Publish \/ Publish2 \/ Sleep
HsNext == \E c \in Clients : (\E r \in Reqs : HsInv(c, r)) \/ HsLoad(c) \/ HsSelect(c)
Next == WatcherNext \/ HsNext
Spec == Init /\ [][Next]_vars

-----------------------------------------------------------------------------
(* Properties                                                              *)
TypeOK ==
    /\ wpc \in {"load", "publish", "publish2", "sleep"}
    /\ reg.certs \in Good \cup {None} /\ reg.index \in Good \cup {None}
    /\ \A c \in Clients : hs[c].pc \in {"idle", "inv", "loaded", "done"}

\* a handshake works on ONE published set, and on one that was current during the handshake
NoMixture == \A c \in Clients : hs[c].pc \in {"loaded", "done"} => \E s \in hs[c].seen : hs[c].snap = Unit(s)

\* a set published before a handshake begins is the oldest one the handshake can see
\* ("takes effect for new handshakes without restart")
TakesEffect == \A c \in Clients : hs[c].pc = "inv" => cur \in hs[c].seen

\* material that cannot be used never changes what is published
BadKeepsGood == badReg # NoBad => reg = badReg
BadNeverPublishes == \A i \in DOMAIN hist : hist[i].kind \notin {"good", "rename"} => hist[i].pub = None
\* a content that differs from the published one in its file names only is published like any other change
RenameTakesEffect == \A i \in DOMAIN hist :
    (hist[i].kind = "rename" /\ (i < Len(hist) \/ wpc = "load")) => hist[i].pub = hist[i].content
RegIsLastGood == wpc # "publish2" => reg = Unit(last)

\* the watcher does not spin
NoSpin == ~spin
NoSpinHist == \A i \in DOMAIN hist : (i > 1 /\ hist[i-1].pub = None) => hist[i].at - hist[i-1].at >= Refresh
=============================================================================
