--------------------------- MODULE Tracing_Trace ---------------------------
(* Validation of executions recorded from the real proxy (X08).  The harness logs, with one logical clock:        *)
(*   Reset  a fresh process with its configuration (trace.InitializeTracer + main.newHTTPProxy)                  *)
(*   Req    a client is about to send request rq (classes and values of the headers it sends)                    *)
(*   Up     the upstream received request rq (the header values it saw)                                          *)
(*   Fin    ServeHTTP returned for rq (with the status written)                                                  *)
(*   Span   the collector received a span (rq from its http.url tag)                                             *)
(*   Flush  no request in flight, the reporter's queue drained and closed                                        *)
(* The steps of the proxy nobody observes (request id, extraction + span start, injection, local answer, finish) *)
(* are silent steps taken lazily when the next event is about that request.  The identifiers the generators      *)
(* returned are observations (of Up / Span) that the harness copies into the Req event (p_ fields), so the silent   *)
(* steps are deterministic; what the specification then derives - the whole outgoing header set, uniqueness of   *)
(* every generated id, the span record, nothing reported twice or invented, everything sampled reported at the   *)
(* flush - must agree with the log.  The documentation is silent about spans for answers fabio produces itself:  *)
(* such a span may be missing (DropLocal).                                                                       *)
EXTENDS Tracing_MC, Json, IOUtils
VARIABLES l, pro

TraceLog == ndJsonDeserialize(IOEnv.VERIF_TRACE)
TraceIds == STRING
E == TraceLog[l]
More == l <= Len(TraceLog)
Ev(e) == More /\ TraceLog[l].ev = e /\ l' = l + 1
Yes(s) == s = "y"
CfgOf(e) == [on |-> Yes(e.on), rate |-> e.rate, b128 |-> Yes(e.b128), rid |-> Yes(e.rid)]
IncOf(e) == [tid |-> e.tid, sid |-> e.sid, pid |-> e.pid, smp |-> e.smp, flg |-> e.flg, rid |-> e.rid,
             tidv |-> e.tidv, sidv |-> e.sidv, pidv |-> e.pidv, smpv |-> e.smpv, flgv |-> e.flgv, ridv |-> e.ridv]
ProOf(e) == [tid |-> e.p_tid, sid |-> e.p_sid, rid |-> e.p_rid, dec |-> Yes(e.p_dec)]
NoPro == [tid |-> "-", sid |-> "-", rid |-> "-", dec |-> FALSE]
HdrOf(e) == [tid |-> e.tid, sid |-> e.sid, pid |-> e.pid, smp |-> e.smp, flg |-> e.flg, rid |-> e.rid, tw |-> e.tw]

Fresh(c) == /\ cfg' = c /\ rq' = [i \in Reqs |-> Idle] /\ used' = {} /\ usedU' = {} /\ snap' = [i \in Reqs |-> {}]
            /\ queue' = {} /\ received' = <<>> /\ flushed' = FALSE /\ pro' = [i \in Reqs |-> NoPro]
TInit == /\ TLCSet(1, 0) /\ l = 2 /\ TraceLog[1].ev = "Reset"
         /\ cfg = CfgOf(TraceLog[1]) /\ rq = [i \in Reqs |-> Idle] /\ used = {} /\ usedU = {} /\ snap = [i \in Reqs |-> {}]
         /\ queue = {} /\ received = <<>> /\ flushed = FALSE /\ pro = [i \in Reqs |-> NoPro]

TReset == Ev("Reset") /\ Fresh(CfgOf(E))
TReq   == Ev("Req") /\ IncOK(IncOf(E)) /\ ArriveWith(E.rq, IncOf(E), E.route) /\ pro' = [pro EXCEPT ![E.rq] = ProOf(E)]
Silent == /\ More /\ E.ev \in {"Up", "Fin", "Span"}
          /\ LET i == E.rq IN \/ SetReqIdWith(i, pro[i].rid)
                              \/ StartSpanWith(i, pro[i].tid, pro[i].sid, pro[i].dec)
                              \/ Inject(i)
                              \/ Answer(i)
                              \/ (E.ev \in {"Fin", "Span"} /\ Finish(i))
          /\ l' = l /\ UNCHANGED pro
TUp    == Ev("Up") /\ Forward(E.rq) /\ rq'[E.rq].up = HdrOf(E) /\ UNCHANGED pro
TFin   == Ev("Fin") /\ rq[E.rq].pc = "done" /\ rq[E.rq].st = E.st /\ UNCHANGED <<vars, pro>>
TSpan  == Ev("Span") /\ DeliverWith([rq |-> E.rq, tid |-> E.tid, tw |-> E.tw, id |-> E.id, pid |-> E.pid]) /\ UNCHANGED pro
DropLocal == /\ More /\ E.ev = "Flush" /\ l' = l
             /\ \E x \in queue : rq[x.rq].route # "fwd" /\ queue' = queue \ {x}
             /\ UNCHANGED <<cfg, rq, used, usedU, snap, received, flushed, pro>>
TFlush == Ev("Flush") /\ Flush /\ UNCHANGED pro

TNext == TReset \/ TReq \/ Silent \/ TUp \/ TFin \/ TSpan \/ DropLocal \/ TFlush
TSpec == TInit /\ [][TNext]_<<vars, l, pro>>

TInv == OffSilent /\ QueueOrReceived
HW == TLCSet(1, IF TLCGet(1) < l THEN l ELSE TLCGet(1))
Accepted == \/ TLCGet(1) = Len(TraceLog) + 1
            \/ PrintT(<<"stuck at", TLCGet(1), TraceLog[TLCGet(1)]>>) /\ FALSE
=============================================================================
