-------------------------- MODULE VaultCerts_Trace --------------------------
(* Trace validation for Part B of VaultCerts (X07): a recorded concurrent     *)
(* execution of the real VaultPKISource behind the real TLSConfig -- real TLS  *)
(* handshakes by several goroutines, the request log of the fake Vault and the *)
(* installs seen by the store hook, all ordered by ONE mutex -- is accepted    *)
(* iff it is a behaviour of VaultCerts!BSpec.                                  *)
(*                                                                             *)
(* Events:                                                                     *)
(*   Reset                      a new recording (fresh source, empty store)    *)
(*   Fault   {name}             the fake starts answering issue requests with  *)
(*                              name ("none" | "500")             = PFault     *)
(*   HsStart {c, name}          client c is about to dial          = HsStart   *)
(*   Issue   {name, id}         an issue request arrived and was decided       *)
(*                              (id = number of the certificate, 0 = refused)  *)
(*                                                         = IssueReq / TIssueReq *)
(*   Resp    {name}             its answer is about to be written = IssueResp / TIssueResp *)
(*   Install {ids}              Store.SetCertificates has stored this snapshot *)
(*                              (the acknowledgement of a silent Deliver)      *)
(*   HsEnd   {c, id}            the handshake ended; id = certificate that was *)
(*                              presented, 0 = it failed            = HsEnd    *)
(* Silent: HsHit HsFallback HsMiss HsJoin HsLead IssueDone FlightRet Deliver TimerFire TRet. *)
EXTENDS VaultCerts, Json, IOUtils, TLC

TraceLog == ndJsonDeserialize(IOEnv.VERIF_TRACE)
TClients == 0..15
TNames == {"a", "b", "c"}
TFaults == {"none", "500"}

VARIABLES l, acks,     \* position in the log; snapshots delivered and not yet acknowledged
          opts, missable \* TSpec only (see below)
tvars == <<vars, l, acks, opts, missable>>

E == TraceLog[l]
More == l <= Len(TraceLog)
ToSet(q) == {q[i] : i \in DOMAIN q}

TInit == /\ TLCSet(1, 0) /\ Init /\ l = 1 /\ acks = <<>>
         /\ opts = [c \in Clients |-> {}] /\ missable = [c \in Clients |-> FALSE]

TBReset == /\ More /\ E.ev = "Reset"
           /\ certs' = <<>> /\ store' = {} /\ cache' = [n \in PNames |-> 0] /\ pending' = {}
          /\ flight' = [n \in PNames |-> NoFlight] /\ tfl' = {} /\ hs' = [c \in Clients |-> IdleHs]
          /\ pfault' = "none" /\ asked' = {} /\ presentedExpired' = FALSE /\ dupIssue' = FALSE /\ benv' = 0
          /\ acks' = <<>> /\ l' = l + 1 /\ UNCHANGED <<avars, cvars>>

TPFault == /\ More /\ E.ev = "Fault"
           /\ (IF E.name = pfault THEN UNCHANGED vars ELSE PFault(E.name))
           /\ l' = l + 1 /\ UNCHANGED acks
THsStart == /\ More /\ E.ev = "HsStart" /\ HsStart(E.c, E.name) /\ l' = l + 1 /\ UNCHANGED acks
TIssue == /\ More /\ E.ev = "Issue"
          /\ \/ IssueReq(E.name) /\ flight'[E.name].out = E.id
             \/ \E t \in tfl : certs[t.id].name = E.name /\ TIssueReq(t) /\ Len(certs') = (IF E.id > 0 THEN E.id ELSE Len(certs))
                                /\ (E.id > 0) = (pfault = "none")
          /\ l' = l + 1 /\ UNCHANGED acks
TResp == /\ More /\ E.ev = "Resp"
         /\ \/ IssueResp(E.name)
            \/ \E t \in tfl : certs[t.id].name = E.name /\ TIssueResp(t)
         /\ l' = l + 1 /\ UNCHANGED acks
TInstall == /\ More /\ E.ev = "Install"
            /\ acks # <<>> /\ acks[1] = ToSet(E.ids)
            /\ acks' = Tail(acks) /\ l' = l + 1 /\ UNCHANGED vars
THsEnd == /\ More /\ E.ev = "HsEnd"
          /\ hs[E.c].res = E.id /\ (E.id = 0) = (hs[E.c].pc = "failed")
          /\ HsEnd(E.c) /\ l' = l + 1 /\ UNCHANGED acks

Quiet == UNCHANGED <<l, acks>>
TSilent ==
    \/ \E c \in Clients : (HsHit(c) \/ HsFallback(c) \/ HsMiss(c) \/ HsJoin(c) \/ HsCached(c) \/ HsLead(c)) /\ Quiet
    \/ \E n \in PNames : (IssueDone(n) \/ FlightRet(n)) /\ Quiet
    \/ \E s \in pending : Deliver(s) /\ acks' = Append(acks, s) /\ UNCHANGED l
    \/ \E i \in Ids : TimerFire(i) /\ Quiet
    \/ \E t \in tfl : TRet(t) /\ Quiet

\* ---- the specification's actions with every silent step explicit (exponential in the number of
\* handshakes that are open at the same time: used as a cross-check on a part of the recording)
TNextEager == (TBReset \/ TPFault \/ THsStart \/ TIssue \/ TResp \/ TInstall \/ THsEnd \/ TSilent) /\ UNCHANGED <<opts, missable>>
TSpecEager == TInit /\ [][TNextEager]_tvars

\* ---- the reduction used for the whole recording.  The silent steps of a handshake (HsHit, HsMiss,
\* HsJoin, HsLead) are not placed; instead two ghosts collect, while the handshake is open, what it
\* may end with:  opts[c] = the certificates for its name that were in the store at some moment of
\* the handshake (HsHit at that moment) and the results of the flights for its name that returned
\* while it was open after a moment at which the store had no certificate for the name (HsMiss at
\* that moment, HsJoin / HsLead before the flight returned; 0 = the flight failed);  missable[c] =
\* such a moment has been.  An issue request needs a handshake that can have started it and no
\* flight of the name under way (the single flight).  Every behaviour of TSpecEager is one of TSpec.
Active(c) == hs[c].pc = "started"
ForName(S, n) == {i \in S : certs[i].name = n}
LStart == /\ More /\ E.ev = "HsStart" /\ HsStart(E.c, E.name) /\ l' = l + 1 /\ UNCHANGED acks
          /\ opts' = [opts EXCEPT ![E.c] = ForName(store, E.name)]
          /\ missable' = [missable EXCEPT ![E.c] = ForName(store, E.name) = {}]
LDeliver == \E s \in pending :
          /\ Deliver(s) /\ acks' = Append(acks, s) /\ UNCHANGED l
          /\ opts' = [c \in Clients |-> IF Active(c) THEN opts[c] \cup ForName(s, hs[c].name) ELSE opts[c]]
          /\ missable' = [c \in Clients |-> IF Active(c) THEN missable[c] \/ ForName(s, hs[c].name) = {} ELSE missable[c]]
LIssue == /\ More /\ E.ev = "Issue"
          /\ flight[E.name].st = "none" /\ CanDecide
          /\ \E c \in Clients : Active(c) /\ hs[c].name = E.name /\ missable[c]
          /\ Decide(E.name).out = E.id
          /\ flight' = [flight EXCEPT ![E.name] = [st |-> "req", out |-> E.id]]
          /\ certs' = Decide(E.name).certs
          /\ l' = l + 1
          /\ UNCHANGED <<store, cache, pending, tfl, hs, pfault, asked, presentedExpired, dupIssue, benv, avars, cvars, acks, opts, missable>>
LResp == /\ More /\ E.ev = "Resp" /\ IssueResp(E.name) /\ l' = l + 1 /\ UNCHANGED <<acks, opts, missable>>
LIssueDone == \E n \in PNames : IssueDone(n) /\ UNCHANGED <<l, acks, opts, missable>>
LFlightRet == \E n \in PNames :
          /\ FlightRet(n) /\ UNCHANGED <<l, acks, missable>>
          /\ opts' = [c \in Clients |-> IF Active(c) /\ hs[c].name = n /\ missable[c] THEN opts[c] \cup {flight[n].out} ELSE opts[c]]
LEnd == /\ More /\ E.ev = "HsEnd"
        /\ Active(E.c) /\ E.id \in opts[E.c]
        /\ hs' = [hs EXCEPT ![E.c].pc = "done", ![E.c].res = E.id]
        /\ l' = l + 1
        /\ UNCHANGED <<certs, store, cache, pending, flight, tfl, pfault, asked, presentedExpired, dupIssue, benv, avars, cvars, acks, opts, missable>>
TNext == \/ (TBReset /\ opts' = [c \in Clients |-> {}] /\ missable' = [c \in Clients |-> FALSE])
         \/ ((TPFault \/ TInstall) /\ UNCHANGED <<opts, missable>>)
         \/ LStart \/ LDeliver \/ LIssue \/ LResp \/ LIssueDone \/ LFlightRet \/ LEnd
TSpec == TInit /\ [][TNext]_tvars

\* what the future depends on
TView == <<l, acks, certs, store, cache, pending, flight, tfl, pfault,
           [c \in Clients |-> IF hs[c].pc \in {"idle", "done"} THEN <<>> ELSE <<hs[c].pc, hs[c].name, hs[c].res, opts[c], missable[c]>>]>>
HW == TLCSet(1, IF TLCGet(1) < l THEN l ELSE TLCGet(1))
Accepted == \/ TLCGet(1) = Len(TraceLog) + 1
            \/ (PrintT(ToJson([stuck |-> TLCGet(1)])) /\ FALSE)
=============================================================================
