---------------------------- MODULE Match ----------------------------
(***************************************************************************)
(* Which route serves a request (property C03), transcribed from the       *)
(* property statement and fabio's routing documentation -- NOT from the    *)
(* sort-and-first-match procedure the code uses.                           *)
(*                                                                         *)
(* Strings are sequences of one-character strings, so that "prefix",       *)
(* "suffix", "lower case" and "length" are ordinary sequence operators.    *)
(* A host (of a request or of a route's host pattern) is a record          *)
(*     [name |-> chars, port |-> chars]        (port <<>> = none)          *)
(* and the host-less pattern is NoHost.  A route is [h |-> pattern,        *)
(* p |-> path chars].  A table is a set of routes with distinct (h, p).    *)
(*                                                                         *)
(* Statement: a request is routed only to a route whose host pattern       *)
(* matches the request host (case-insensitively, default port removed) or  *)
(* which has no host, and whose path matches under the configured matcher. *)
(* Among candidates an exact host beats a wildcard host, a longer host     *)
(* suffix beats a shorter one, host-less routes come last, and within a    *)
(* host the longest matching path wins.  If a candidate exists the request *)
(* is routed.                                                              *)
(***************************************************************************)
EXTENDS Integers, Sequences, FiniteSets

-----------------------------------------------------------------------------
\* strings
\* a record is a function from strings: upper-case letter |-> lower-case letter
LowerMap == [A |-> "a", B |-> "b", C |-> "c", D |-> "d", E |-> "e", F |-> "f", G |-> "g", H |-> "h",
             I |-> "i", J |-> "j", K |-> "k", L |-> "l", M |-> "m", N |-> "n", O |-> "o", P |-> "p",
             Q |-> "q", R |-> "r", S |-> "s", T |-> "t", U |-> "u", V |-> "v", W |-> "w", X |-> "x",
             Y |-> "y", Z |-> "z"]
LowerCh(c) == IF c \in DOMAIN LowerMap THEN LowerMap[c] ELSE c
Lower(s) == [i \in 1..Len(s) |-> LowerCh(s[i])]
IsPrefix(p, s) == Len(p) <= Len(s) /\ \A i \in 1..Len(p) : p[i] = s[i]
IsSuffix(p, s) == Len(p) <= Len(s) /\ \A i \in 1..Len(p) : p[i] = s[Len(s) - Len(p) + i]
Front(s) == SubSeq(s, 1, Len(s) - 1)

-----------------------------------------------------------------------------
\* hosts
NoHost == [name |-> <<>>, port |-> <<>>]
DefaultPort(tls) == IF tls THEN <<"4", "4", "3">> ELSE <<"8", "0">>
\* normal form: lower case, default port of the connection's scheme removed
Norm(h, tls) == [name |-> Lower(h.name), port |-> IF h.port = DefaultPort(tls) THEN <<>> ELSE h.port]
\* the string that is matched: name[:port]
Full(h) == IF h.port = <<>> THEN h.name ELSE h.name \o <<":">> \o h.port
\* the normalised host string of a request host or of a host pattern; <<>> for NoHost
HostStr(h, tls) == Full(Norm(h, tls))

IsWild(s) == s # <<>> /\ s[1] = "*"

\* does the (normalised, non-empty) pattern p match the (normalised) request host s?
\* glob on : a leading "*" stands for any (possibly empty) string; otherwise literal
\* glob off: literal only
HostMatchN(p, s, glob) == IF glob /\ IsWild(p) THEN IsSuffix(Tail(p), s) ELSE p = s
HostMatch(pat, h, tls, glob) == HostMatchN(HostStr(pat, tls), HostStr(h, tls), glob)

\* kind of a MATCHING pattern, and the length of the suffix a wildcard pattern fixes
HostKindN(p, glob) == IF p = <<>> THEN "none" ELSE IF glob /\ IsWild(p) THEN "wild" ELSE "exact"
SuffixLenN(p) == Len(p) - 1
\* p1, p2 both match the request: p1 is strictly more specific than p2
MoreSpecificN(p1, p2, glob) ==
    LET k1 == HostKindN(p1, glob)
        k2 == HostKindN(p2, glob) IN
    \/ k1 = "exact" /\ k2 # "exact"
    \/ k1 = "wild" /\ k2 = "wild" /\ SuffixLenN(p1) > SuffixLenN(p2)
    \/ k1 = "wild" /\ k2 = "none"
MoreSpecificHost(p1, p2, tls, glob) == MoreSpecificN(HostStr(p1, tls), HostStr(p2, tls), glob)

-----------------------------------------------------------------------------
\* paths.  Matchers: "prefix", "iprefix", "glob".  Glob path patterns of the universe are a
\* literal followed by an optional "*" (any string); there "longest" means the longest literal.
Matchers == {"prefix", "iprefix", "glob"}
StarPath(rp) == rp # <<>> /\ rp[Len(rp)] = "*"
PathLen(m, rp) == IF m = "glob" /\ StarPath(rp) THEN Len(rp) - 1 ELSE Len(rp)

-----------------------------------------------------------------------------
\* Normalisation is done once: a route as the rules see it on a plain / TLS connection, and a
\* request as the rules see it.  (v.r is the route itself, rq the request itself.)
Req(h, tls, u) == [host |-> h, tls |-> tls, path |-> u]
NRoute(r, tls) == [r |-> r, h |-> HostStr(r.h, tls), p |-> r.p, lp |-> Lower(r.p)]
NTable(tbl, tls) == {NRoute(r, tls) : r \in tbl}
NReq(rq) == [h |-> HostStr(rq.host, rq.tls), u |-> rq.path, lu |-> Lower(rq.path)]

PathMatchN(m, v, q) ==
    CASE m = "prefix"  -> IsPrefix(v.p, q.u)
      [] m = "iprefix" -> IsPrefix(v.lp, q.lu)
      [] m = "glob"    -> IF StarPath(v.p) THEN IsPrefix(Front(v.p), q.u) ELSE v.p = q.u
PathMatch(m, rp, u) == PathMatchN(m, [p |-> rp, lp |-> Lower(rp)], [u |-> u, lu |-> Lower(u)])
\* what identifies a path for the matcher: two paths with the same key match the same
\* requests with the same length
PathKeyN(m, v) ==
    CASE m = "prefix"  -> v.p
      [] m = "iprefix" -> v.lp
      [] m = "glob"    -> IF StarPath(v.p) THEN Front(v.p) ELSE v.p

\* candidates: host pattern matches or no host, and the path matches
CandN(nt, q, m, glob) ==
    {v \in nt : /\ (v.h = <<>> \/ HostMatchN(v.h, q.h, glob))
                /\ PathMatchN(m, v, q)}
\* v1 is strictly preferred to v2 (both candidates): more specific host, or the same host
\* pattern and a longer path
BetterN(v1, v2, m, glob) ==
    \/ MoreSpecificN(v1.h, v2.h, glob)
    \/ v1.r.h = v2.r.h /\ PathLen(m, v1.p) > PathLen(m, v2.p)
WinnersN(nt, q, m, glob) ==
    LET c == CandN(nt, q, m, glob) IN
    {v \in c : \A o \in c \ {v} : BetterN(v, o, m, glob)}

\* the declarative choice on un-normalised data
Cand(tbl, rq, m, glob)    == {v.r : v \in CandN(NTable(tbl, rq.tls), NReq(rq), m, glob)}
Winners(tbl, rq, m, glob) == {v.r : v \in WinnersN(NTable(tbl, rq.tls), NReq(rq), m, glob)}
\* the route that must serve rq, or None
None == [h |-> NoHost, p |-> <<>>]
Best(tbl, rq, m, glob) ==
    LET w == Winners(tbl, rq, m, glob) IN
    IF w = {} THEN None ELSE CHOOSE r \in w : TRUE

-----------------------------------------------------------------------------
\* When is the question well posed?  The statement does not rank two different patterns
\* that denote the same host ("a.io" and "a.io:80" on a plain connection, "A.io" and "a.io"),
\* nor two paths of one host that the matcher cannot tell apart ("/X/y" and "/x/y" under
\* iprefix, "/x" and "/x*" under glob).  Such tables are outside the claim.
HostAmbiguousN(nt) ==
    \E v1, v2 \in nt : v1.r.h # v2.r.h /\ v1.h # <<>> /\ v2.h # <<>> /\ v1.h = v2.h
PathAmbiguousN(nt, m) ==
    \E v1, v2 \in nt : v1.r.h = v2.r.h /\ v1.p # v2.p /\ PathKeyN(m, v1) = PathKeyN(m, v2)
WellPosedN(nt, m) == ~HostAmbiguousN(nt) /\ ~PathAmbiguousN(nt, m)
WellPosed(tbl, tls, m) == WellPosedN(NTable(tbl, tls), m)

\* properties of the definition, decided by TLC for every table and request of the universe
\* (Match_MC): on a well-posed table the preference is a strict total order on the candidates,
\* hence exactly one winner whenever there is a candidate, and the winner is a candidate that
\* no other candidate beats.
BestUniqueN(nt, q, m, glob) ==
    LET c == CandN(nt, q, m, glob)
        w == WinnersN(nt, q, m, glob) IN
    /\ c # {} => Cardinality(w) = 1
    /\ c = {} => w = {}
    /\ \A v1, v2 \in c : v1 # v2 => (BetterN(v1, v2, m, glob) # BetterN(v2, v1, m, glob))
BestSoundN(nt, q, m, glob) ==
    LET w == WinnersN(nt, q, m, glob)
        c == CandN(nt, q, m, glob) IN
    \A b \in w :
        /\ b \in nt
        /\ (b.h = <<>> \/ HostMatchN(b.h, q.h, glob))
        /\ PathMatchN(m, b, q)
        \* host-less only if no host-specific candidate
        /\ (b.h = <<>> => \A o \in c : o.h = <<>>)
        \* exact beats wildcard, longer suffix beats shorter
        /\ \A o \in c : ~MoreSpecificN(o.h, b.h, glob)
        /\ (HostKindN(b.h, glob) = "wild" =>
               \A o \in c : HostKindN(o.h, glob) # "exact"
                            /\ (HostKindN(o.h, glob) = "wild" => Len(o.h) <= Len(b.h)))
        \* longest path within the host
        /\ \A o \in c : o.r.h = b.r.h => PathLen(m, o.p) <= PathLen(m, b.p)

-----------------------------------------------------------------------------
\* TCP+SNI lookups (Table.LookupHost) name a server without port; the claim checked is the
\* narrow one the statement supports: a route whose host is literally (case-insensitively)
\* the server name and whose path is "/" serves it.
SniCand(tbl, h) == {r \in tbl : r.h # NoHost /\ Lower(Full(r.h)) = Lower(Full(h)) /\ r.p = <<"/">>}
=============================================================================
