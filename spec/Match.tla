---------------------------- MODULE Match ----------------------------
(***************************************************************************)
(* Which route serves a request (property C03), transcribed from the       *)
(* property statement and fabio's routing documentation -- NOT from the    *)
(* sort-and-first-match procedure the code uses.                           *)
(*                                                                         *)
(* Strings are sequences of one-character strings, so that "prefix",       *)
(* "suffix", "lower case" and "length" are ordinary sequence operators.    *)
(* A host (of a request or of a route's host pattern) is a record          *)
(*     [name |-> chars, port |-> chars]        (port <<>> = none)          *)
(* and the host-less pattern is NoHost.  A route is [h |-> pattern,        *)
(* p |-> path chars].  A table is a set of routes with distinct (h, p).    *)
(*                                                                         *)
(* Statement: a request is routed only to a route whose host pattern       *)
(* matches the request host (case-insensitively, default port removed) or  *)
(* which has no host, and whose path matches under the configured matcher. *)
(* Among candidates an exact host beats a wildcard host, a longer host     *)
(* suffix beats a shorter one, host-less routes come last, and within a    *)
(* host the longest matching path wins.  If a candidate exists the request *)
(* is routed.                                                              *)
(***************************************************************************)
EXTENDS Integers, Sequences, FiniteSets

-----------------------------------------------------------------------------
\* strings
\* a record is a function from strings: upper-case letter |-> lower-case letter
LowerMap == [A |-> "a", B |-> "b", C |-> "c", D |-> "d", E |-> "e", F |-> "f", G |-> "g", H |-> "h",
             I |-> "i", J |-> "j", K |-> "k", L |-> "l", M |-> "m", N |-> "n", O |-> "o", P |-> "p",
             Q |-> "q", R |-> "r", S |-> "s", T |-> "t", U |-> "u", V |-> "v", W |-> "w", X |-> "x",
             Y |-> "y", Z |-> "z"]
LowerCh(c) == IF c \in DOMAIN LowerMap THEN LowerMap[c] ELSE c
Lower(s) == [i \in 1..Len(s) |-> LowerCh(s[i])]
IsPrefix(p, s) == Len(p) <= Len(s) /\ \A i \in 1..Len(p) : p[i] = s[i]
IsSuffix(p, s) == Len(p) <= Len(s) /\ \A i \in 1..Len(p) : p[i] = s[Len(s) - Len(p) + i]
Front(s) == SubSeq(s, 1, Len(s) - 1)

-----------------------------------------------------------------------------
\* hosts
NoHost == [name |-> <<>>, port |-> <<>>]
DefaultPort(tls) == IF tls THEN <<"4", "4", "3">> ELSE <<"8", "0">>
\* normal form: lower case, default port of the connection's scheme removed
Norm(h, tls) == [name |-> Lower(h.name), port |-> IF h.port = DefaultPort(tls) THEN <<>> ELSE h.port]
\* the string that is matched: name[:port]
Full(h) == IF h.port = <<>> THEN h.name ELSE h.name \o <<":">> \o h.port
\* the normalised host string of a request host or of a host pattern; <<>> for NoHost
HostStr(h, tls) == Full(Norm(h, tls))

-----------------------------------------------------------------------------
\* The glob language of host patterns (gobwas/glob as fabio compiles it, without separators):
\*   *      any string (possibly empty)        ?      any one character
\*   [abc]  one character of the set           {x,y}  one of the alternatives (literals here)
\* everything else stands for itself.
IndexOf(p, c) == IF \E i \in 1..Len(p) : p[i] = c
                 THEN CHOOSE i \in 1..Len(p) : p[i] = c /\ \A j \in 1..(i - 1) : p[j] # c
                 ELSE 0
Drop(p, n) == SubSeq(p, n + 1, Len(p))
\* the alternatives of a brace body "x,y,z" (without the braces)
RECURSIVE Alts(_)
Alts(b) == LET i == IndexOf(b, ",") IN
           IF i = 0 THEN {b} ELSE {SubSeq(b, 1, i - 1)} \cup Alts(Drop(b, i))
RECURSIVE GlobMatch(_, _)
GlobMatch(p, s) ==
    IF p = <<>> THEN s = <<>>
    ELSE CASE p[1] = "*" -> \E k \in 0..Len(s) : GlobMatch(Tail(p), Drop(s, k))
           [] p[1] = "?" -> s # <<>> /\ GlobMatch(Tail(p), Tail(s))
           [] p[1] = "[" /\ IndexOf(p, "]") > 2 ->
                  LET j == IndexOf(p, "]") IN
                  s # <<>> /\ (\E i \in 2..(j - 1) : p[i] = s[1]) /\ GlobMatch(Drop(p, j), Tail(s))
           [] p[1] = "{" /\ IndexOf(p, "}") > 1 ->
                  LET j == IndexOf(p, "}") IN
                  \E a \in Alts(SubSeq(p, 2, j - 1)) : GlobMatch(a \o Drop(p, j), s)
           [] OTHER -> s # <<>> /\ s[1] = p[1] /\ GlobMatch(Tail(p), Tail(s))

\* How does the (normalised) host pattern p relate to the (normalised) request host s?
\*   "none"  the route has no host          "exact" p is literally the request host
\*   "wild"  globbing is on and p, read as a glob, denotes the request host among others
\*   "no"    no match
\* A pattern that is literally the host is exact whatever characters it contains (the IPv6
\* literal "[::1]" is a host, not a character class, when the request is for [::1]).
MatchKind(p, s, glob) ==
    IF p = <<>> THEN "none"
    ELSE IF p = s THEN "exact"
    ELSE IF glob /\ GlobMatch(p, s) THEN "wild" ELSE "no"
HostMatchN(p, s, glob) == MatchKind(p, s, glob) \in {"exact", "wild"}
HostMatch(pat, h, tls, glob) == HostMatchN(HostStr(pat, tls), HostStr(h, tls), glob)

\* the suffix a wildcard pattern fixes: the literal characters after its last glob construct
GlobClosers == {"*", "?", "]", "}"}
LitSuffixLen(p) == IF \E i \in 1..Len(p) : p[i] \in GlobClosers
                   THEN Len(p) - (CHOOSE i \in 1..Len(p) : p[i] \in GlobClosers /\ \A j \in (i + 1)..Len(p) : p[j] \notin GlobClosers)
                   ELSE Len(p)
StarFree(p) == \A i \in 1..Len(p) : p[i] # "*"
\* two wildcard patterns that both match: the longer fixed suffix is more specific.  The
\* statement ranks suffixes; it does not say that a pattern with "*" and a long suffix beats a
\* pattern without "*" (which denotes finitely many hosts), so that pair is left unranked.
MoreSpecificWild(p1, p2) == LitSuffixLen(p1) > LitSuffixLen(p2) /\ ~(StarFree(p2) /\ ~StarFree(p1))
\* v1, v2 classified routes (field mk = MatchKind, both matching): v1's host is strictly more specific
MoreSpecificK(v1, v2) ==
    \/ v1.mk = "exact" /\ v2.mk # "exact"
    \/ v1.mk = "wild" /\ v2.mk = "wild" /\ MoreSpecificWild(v1.h, v2.h)
    \/ v1.mk = "wild" /\ v2.mk = "none"

-----------------------------------------------------------------------------
\* paths.  Matchers: "prefix", "iprefix", "glob".  Glob path patterns of the universe are a
\* literal followed by an optional "*" (any string); there "longest" means the longest literal.
Matchers == {"prefix", "iprefix", "glob"}
StarPath(rp) == rp # <<>> /\ rp[Len(rp)] = "*"
PathLen(m, rp) == IF m = "glob" /\ StarPath(rp) THEN Len(rp) - 1 ELSE Len(rp)

-----------------------------------------------------------------------------
\* The choice is made in three stages.
\*  1. normalise: a route as the rules see it on a plain / TLS connection, a request as the
\*     rules see it (v.r is the route itself);
\*  2. classify every route's host against the request host (field mk);
\*  3. among the routes whose host matches and whose path matches, choose.
Req(h, tls, u) == [host |-> h, tls |-> tls, path |-> u]
NRoute(r, tls) == [r |-> r, h |-> HostStr(r.h, tls), p |-> r.p, lp |-> Lower(r.p)]
NTable(tbl, tls) == {NRoute(r, tls) : r \in tbl}
NReq(rq) == [h |-> HostStr(rq.host, rq.tls), u |-> rq.path, lu |-> Lower(rq.path)]
Classify(v, s, glob) == [r |-> v.r, h |-> v.h, p |-> v.p, lp |-> v.lp, mk |-> MatchKind(v.h, s, glob)]
KTable(nt, s, glob) == {Classify(v, s, glob) : v \in nt}

PathMatchN(m, v, q) ==
    CASE m = "prefix"  -> IsPrefix(v.p, q.u)
      [] m = "iprefix" -> IsPrefix(v.lp, q.lu)
      [] m = "glob"    -> IF StarPath(v.p) THEN IsPrefix(Front(v.p), q.u) ELSE v.p = q.u
PathMatch(m, rp, u) == PathMatchN(m, [p |-> rp, lp |-> Lower(rp)], [u |-> u, lu |-> Lower(u)])
\* what identifies a path for the matcher: two paths with the same key match the same
\* requests with the same length
PathKeyN(m, v) ==
    CASE m = "prefix"  -> v.p
      [] m = "iprefix" -> v.lp
      [] m = "glob"    -> IF StarPath(v.p) THEN Front(v.p) ELSE v.p

\* candidates (kt: classified routes): host pattern matches or no host, and the path matches
CandK(kt, q, m) == {v \in kt : v.mk # "no" /\ PathMatchN(m, v, q)}
\* v1 is strictly preferred to v2 (both candidates): more specific host, or the same host
\* pattern and a longer path
BetterK(v1, v2, m) ==
    \/ MoreSpecificK(v1, v2)
    \/ v1.r.h = v2.r.h /\ PathLen(m, v1.p) > PathLen(m, v2.p)
WinnersK(kt, q, m) ==
    LET c == CandK(kt, q, m) IN
    {v \in c : \A o \in c \ {v} : BetterK(v, o, m)}

\* the declarative choice on un-normalised data
KOf(tbl, rq, glob) == KTable(NTable(tbl, rq.tls), NReq(rq).h, glob)
Cand(tbl, rq, m, glob)    == {v.r : v \in CandK(KOf(tbl, rq, glob), NReq(rq), m)}
Winners(tbl, rq, m, glob) == {v.r : v \in WinnersK(KOf(tbl, rq, glob), NReq(rq), m)}
\* The choice is a FUNCTION of the table and the request: there is no state a lookup reads or
\* leaves behind, so the route that serves a request is the same whatever other requests are
\* in flight on the same table at the same time (the harness replays the requests of one table
\* from several goroutines at once and expects exactly these answers).
Answer(tbl, rq, m, glob, othersInFlight) == Winners(tbl, rq, m, glob)
\* the route that must serve rq, or None
None == [h |-> NoHost, p |-> <<>>]
Best(tbl, rq, m, glob) ==
    LET w == Winners(tbl, rq, m, glob) IN
    IF w = {} THEN None ELSE CHOOSE r \in w : TRUE

-----------------------------------------------------------------------------
\* When is the question well posed?  The statement does not rank two different patterns
\* that denote the same host ("a.io" and "a.io:80" on a plain connection, "A.io" and "a.io"),
\* nor two paths of one host that the matcher cannot tell apart ("/X/y" and "/x/y" under
\* iprefix, "/x" and "/x*" under glob), nor two different wildcard patterns that both match the
\* request host and fix suffixes of the same length ("*.a.io" and "{b,c}.a.io" for b.a.io) or
\* pit a "*" pattern against a "*"-free one.  Such (table, request) pairs are outside the claim.
HostAmbiguousN(nt) ==
    \E v1, v2 \in nt : v1.r.h # v2.r.h /\ v1.h # <<>> /\ v2.h # <<>> /\ v1.h = v2.h
PathAmbiguousN(nt, m) ==
    \E v1, v2 \in nt : v1.r.h = v2.r.h /\ v1.p # v2.p /\ PathKeyN(m, v1) = PathKeyN(m, v2)
WildAmbiguousK(kt) ==
    \E v1, v2 \in kt : /\ v1.mk = "wild" /\ v2.mk = "wild" /\ v1.h # v2.h
                       /\ ~MoreSpecificWild(v1.h, v2.h) /\ ~MoreSpecificWild(v2.h, v1.h)
WellPosedN(nt, m) == ~HostAmbiguousN(nt) /\ ~PathAmbiguousN(nt, m)
WellPosedK(nt, kt, m) == WellPosedN(nt, m) /\ ~WildAmbiguousK(kt)
WellPosed(tbl, rq, m, glob) == WellPosedK(NTable(tbl, rq.tls), KOf(tbl, rq, glob), m)

\* properties of the definition, decided by TLC for every table and request of the universe
\* (Match_MC): on a well-posed (table, request) the preference is a strict total order on the
\* candidates, hence exactly one winner whenever there is a candidate, and the winner is a
\* candidate that no other candidate beats.
BestUniqueK(kt, q, m) ==
    LET c == CandK(kt, q, m)
        w == WinnersK(kt, q, m) IN
    /\ c # {} => Cardinality(w) = 1
    /\ c = {} => w = {}
    /\ \A v1, v2 \in c : v1 # v2 => (BetterK(v1, v2, m) # BetterK(v2, v1, m))
BestSoundK(kt, q, m) ==
    LET w == WinnersK(kt, q, m)
        c == CandK(kt, q, m) IN
    \A b \in w :
        /\ b \in kt /\ b.mk # "no"
        /\ PathMatchN(m, b, q)
        \* host-less only if no host-specific candidate
        /\ (b.mk = "none" => \A o \in c : o.mk = "none")
        \* exact beats wildcard, longer suffix beats shorter
        /\ (b.mk = "wild" => \A o \in c : o.mk # "exact"
                                          /\ (o.mk = "wild" => LitSuffixLen(o.h) <= LitSuffixLen(b.h)))
        \* longest path within the host
        /\ \A o \in c : o.r.h = b.r.h => PathLen(m, o.p) <= PathLen(m, b.p)

-----------------------------------------------------------------------------
\* TCP+SNI lookups (Table.LookupHost) name a server without port; the claim checked is the
\* narrow one the statement supports: a route whose host is literally (case-insensitively)
\* the server name and whose path is "/" serves it.
SniCand(tbl, h) == {r \in tbl : r.h # NoHost /\ Lower(Full(r.h)) = Lower(Full(h)) /\ r.p = <<"/">>}
=============================================================================
