SPECIFICATION FSpec
CONSTANTS
  Inst <- MCInst2
  Node = {"n1"}
  Services = {"A", "B"}
  NodeOf <- MCNodeOf2
  SvcOf <- MCSvcOf2
  Manual <- MCManualSmall
  MaxChanges = 2
  MaxFaults = 1
  PoisonTables = FALSE
  Clients = {1}
  Prefixes <- MCPrefixes
  PrefixOf <- MCPrefixOf2
INVARIANTS TypeOK QuiescentCorrect LastGood RoutedWerePassing QuiescentServe
CHECK_DEADLOCK FALSE
