---------------------------- MODULE Transport_MC ----------------------------
(* Universes for Transport and the generators: complete operation histories with the     *)
(* values every built transport must carry, and behaviour cases (configuration x kind of  *)
(* transport x upstream delay) with the outcome a client must see.                        *)
EXTENDS Transport, Json, TLC

\* two configurations, all ten values distinct so that any mix-up of fields or of configurations shows
C1 == [name |-> "c1", dial |-> 400, rht |-> 300, ka |-> 7000,  idle |-> 21000, maxidle |-> 3]
C2 == [name |-> "c2", dial |-> 900, rht |-> 450, ka |-> 11000, idle |-> 33000, maxidle |-> 7]
\* the ends of the value ranges: everything 0 (no timeouts, Go's defaults), keep-alive negative (probes off)
C0 == [name |-> "c0", dial |-> 0, rht |-> 0, ka |-> 0, idle |-> 0, maxidle |-> 0]
CN == [name |-> "cn", dial |-> 600, rht |-> 350, ka |-> 0 - 1000, idle |-> 27000, maxidle |-> 5]
\* a response-header timeout longer than the widest slack of the time bound (1.5 s): one timeout more is outside every bound
C3 == [name |-> "c3", dial |-> 500, rht |-> 2000, ka |-> 9000, idle |-> 25000, maxidle |-> 4]
\* likewise a dial timeout longer than the widest slack
C4 == [name |-> "c4", dial |-> 2000, rht |-> 700, ka |-> 8000, idle |-> 23000, maxidle |-> 6]
MCConfigs == {C1, C2, C0, CN}
BehConfigs == {C1, C2}
MCDelays == {"zero", "below", "above"}

HistJson(h) == [i \in DOMAIN h |-> [op |-> h[i].op, kind |-> h[i].kind, c |-> h[i].c, kaobs |-> KeepIdleOf(h[i].c.ka)]]

\* one line per complete history
GenNext == /\ Next
           /\ IF Len(hist') = MaxOps THEN PrintT(ToJson([hist |-> HistJson(hist')])) ELSE TRUE
GenSpec == Init /\ [][GenNext]_vars

\* behaviour cases: a transport of each kind built under each configuration (after the other
\* one had been configured first), each delay class
BehCases == { [c |-> c, first |-> f, kind |-> k, class |-> cl,
               delay |-> DelayOf(cl, c.rht), out |-> Outcome(c, DelayOf(cl, c.rht))] :
                c \in BehConfigs, f \in BehConfigs \cup {Zero}, k \in Kinds, cl \in MCDelays }
\* no response-header timeout configured: a slow upstream is served, not cut off
SlowCases == { [c |-> C0, first |-> Zero, kind |-> k, class |-> "slow", delay |-> 1000, out |-> Outcome(C0, 1000)] : k \in Kinds }
\* the handlers in front of the transport x the kinds of request
WrapCases == { [c |-> c, first |-> Zero, kind |-> k, class |-> cl, delay |-> DelayOf(cl, c.rht),
                out |-> Outcome(c, DelayOf(cl, c.rht)), wrap |-> w, req |-> r] :
                c \in BehConfigs, k \in Kinds, cl \in {"below", "above"}, w \in Wraps, r \in ReqKinds }
\* (the three newer wrappings with GET and POST only)
WrapCasesOf == { x \in WrapCases : x.wrap \in {"plain", "gzip", "log", "gzip+log"} \/ x.req \in {"GET", "POST"} }
\* an upstream that never answers the SYN: gateway error within the dial timeout
DialCases == { [c |-> C4, first |-> Zero, kind |-> k, class |-> "unreachable", delay |-> 0,
                out |-> Unreachable(C4), req |-> r] : k \in Kinds, r \in {"GET", "POST"} }
\* an informational response first, then a stall or the final status
InfoCases == { [c |-> c, first |-> Zero, kind |-> k, class |-> cl, delay |-> DelayOf(cl, c.rht),
                out |-> [Informed(c, DelayOf(cl, c.rht), "103", f) EXCEPT !.within = Outcome(c, DelayOf(cl, c.rht)).within],
                wrap |-> w, pre |-> "103", final |-> f] :
                c \in BehConfigs, k \in Kinds, cl \in {"below", "above"}, w \in {"plain", "gzip"}, f \in {200, 404} }
\* (mentions a variable so that TLC does not evaluate it as a constant in every run)
\* concurrent requests: k at once, hanging / fast upstream
ConcCases == { [t |-> "conc", c |-> c, kind |-> k, n |-> n, class |-> cl, delay |-> DelayOf(cl, c.rht),
                out |-> Outcome(c, DelayOf(cl, c.rht))] :
                 c \in BehConfigs, k \in Kinds, n \in UNION {Burst(c.maxidle) : c \in BehConfigs}, cl \in {"zero", "above"} }
ConcCasesOf == { x \in ConcCases : x.n \in Burst(x.c.maxidle) }
\* idle connections per host: bursts A, B, A of n requests through one shared transport
ReuseCases == { [t |-> "reuse", c |-> c, kind |-> k, n |-> n, new |-> NewConnsAfterBursts(c, NoExtra, n)] :
                 c \in BehConfigs, k \in {"default", "insecure"}, n \in 1..7 }
ReuseCasesOf == { x \in ReuseCases : x.n \in {1, x.c.maxidle - 1, x.c.maxidle} }
MCOperator == C1
BehPrint2 == \A b \in ConcCasesOf \cup ReuseCasesOf : hist = <<>> /\ PrintT(ToJson(b))
Beh2Init == Init /\ BehPrint2
Beh2Spec == Beh2Init /\ [][UNCHANGED vars]_vars

\* a request over a connection an earlier request left in the idle pool
ConnCases == { [c |-> C3, first |-> Zero, kind |-> k, class |-> cl, delay |-> DelayOf(cl, C3.rht),
                out |-> Outcome(C3, DelayOf(cl, C3.rht)), req |-> r, conn |-> "reused"] :
                k \in Kinds, cl \in {"below", "above"}, r \in {"GET", "HEAD", "POST"} }
\* a header in time, then a body that takes b ms: delivered completely
BodyCases == { [c |-> c, first |-> Zero, kind |-> k, class |-> "below", delay |-> DelayOf("below", c.rht),
                out |-> Outcome(c, DelayOf("below", c.rht)), body |-> b, complete |-> Delivered(c, DelayOf("below", c.rht), b).complete] :
                c \in BehConfigs, k \in Kinds, b \in UNION {{100, LongBody(x)} : x \in BehConfigs} }
BodyCasesOf == { x \in BodyCases : x.body \in {100, LongBody(x.c)} }
BehPrint == /\ \A b \in ConnCases : hist = <<>> /\ PrintT(ToJson(b))
            /\ \A b \in BodyCasesOf : hist = <<>> /\ PrintT(ToJson(b))
            /\ \A b \in BehCases \cup SlowCases : hist = <<>> /\ PrintT(ToJson(b))
            /\ \A b \in WrapCasesOf : hist = <<>> /\ PrintT(ToJson(b))
            /\ \A b \in DialCases : hist = <<>> /\ PrintT(ToJson(b))
            /\ \A b \in InfoCases : hist = <<>> /\ PrintT(ToJson(b))
BehInit == Init /\ BehPrint
BehSpec == BehInit /\ [][UNCHANGED vars]_vars
=============================================================================
