---------------------------- MODULE Transport_MC ----------------------------
(* Universes for Transport and the generators: complete operation histories with the     *)
(* values every built transport must carry, and behaviour cases (configuration x kind of  *)
(* transport x upstream delay) with the outcome a client must see.                        *)
EXTENDS Transport, Json, TLC

\* two configurations, all ten values distinct so that any mix-up of fields or of configurations shows
C1 == [name |-> "c1", dial |-> 400, rht |-> 300, ka |-> 7000,  idle |-> 21000, maxidle |-> 3]
C2 == [name |-> "c2", dial |-> 900, rht |-> 450, ka |-> 11000, idle |-> 33000, maxidle |-> 7]
MCConfigs == {C1, C2}
MCDelays == {"zero", "below", "above"}

HistJson(h) == [i \in DOMAIN h |-> [op |-> h[i].op, kind |-> h[i].kind, c |-> h[i].c]]

\* one line per complete history
GenNext == /\ Next
           /\ IF Len(hist') = MaxOps THEN PrintT(ToJson([hist |-> HistJson(hist')])) ELSE TRUE
GenSpec == Init /\ [][GenNext]_vars

\* behaviour cases: a transport of each kind built under each configuration (after the other
\* one had been configured first), each delay class
BehCases == { [c |-> c, first |-> f, kind |-> k, class |-> cl,
               delay |-> DelayOf(cl, c.rht), out |-> Outcome(c, DelayOf(cl, c.rht))] :
                c \in MCConfigs, f \in MCConfigs \cup {Zero}, k \in Kinds, cl \in MCDelays }
\* (mentions a variable so that TLC does not evaluate it as a constant in every run)
\* concurrent requests: k at once, hanging / fast upstream
ConcCases == { [t |-> "conc", c |-> c, kind |-> k, n |-> n, class |-> cl, delay |-> DelayOf(cl, c.rht),
                out |-> Outcome(c, DelayOf(cl, c.rht))] :
                 c \in MCConfigs, k \in Kinds, n \in UNION {Burst(c.maxidle) : c \in MCConfigs}, cl \in {"zero", "above"} }
ConcCasesOf == { x \in ConcCases : x.n \in Burst(x.c.maxidle) }
\* idle connections per host: bursts A, B, A of n requests through one shared transport
ReuseCases == { [t |-> "reuse", c |-> c, kind |-> k, n |-> n, new |-> NewConnsAfterBursts(c, NoExtra, n)] :
                 c \in MCConfigs, k \in {"default", "insecure"}, n \in 1..7 }
ReuseCasesOf == { x \in ReuseCases : x.n \in {1, x.c.maxidle - 1, x.c.maxidle} }
MCOperator == C1
BehPrint2 == \A b \in ConcCasesOf \cup ReuseCasesOf : hist = <<>> /\ PrintT(ToJson(b))
Beh2Init == Init /\ BehPrint2
Beh2Spec == Beh2Init /\ [][UNCHANGED vars]_vars

BehPrint == \A b \in BehCases : hist = <<>> /\ PrintT(ToJson(b))
BehInit == Init /\ BehPrint
BehSpec == BehInit /\ [][UNCHANGED vars]_vars
=============================================================================
