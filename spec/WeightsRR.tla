---------------------------- MODULE WeightsRR ----------------------------
(***************************************************************************)
(* Round robin over SEVERAL routes (property C04): every route has its own *)
(* weighted ring and its own cursor.  A lookup on route r returns the slot *)
(* under r's cursor and advances r's cursor only.  Whatever the            *)
(* interleaving of lookups on different routes (routes with the same path  *)
(* on different hosts, TCP routes that all have the empty path), every     *)
(* full cycle of ONE route's lookups hits each of its targets exactly as   *)
(* often as the target occupies that route's ring.                         *)
(***************************************************************************)
EXTENDS Integers, Sequences, FiniteSets

CONSTANTS Rings,      \* sequence of rings; Rings[r] = non-empty sequence of target ids of route r
          MaxSteps    \* lookups per behaviour

VARIABLES cur,        \* cursor per route
          seen,       \* picks per route, in order
          sched       \* the interleaving: sequence of route numbers looked up so far
vars == <<cur, seen, sched>>

Routes == 1..Len(Rings)
U(r) == Len(Rings[r])
CountIn(q, x) == Cardinality({i \in 1..Len(q) : q[i] = x})
Targets(r) == {Rings[r][i] : i \in 1..U(r)}

\* a table is installed with every cursor at an arbitrary position
Init == /\ cur \in [Routes -> 0..1]
        /\ seen = [r \in Routes |-> <<>>]
        /\ sched = <<>>
LookupOn(r) ==
    /\ Len(sched) < MaxSteps
    /\ seen' = [seen EXCEPT ![r] = Append(@, Rings[r][(cur[r] % U(r)) + 1])]
    /\ cur' = [cur EXCEPT ![r] = @ + 1]
    /\ sched' = Append(sched, r)
Next == \E r \in Routes : LookupOn(r)
Spec == Init /\ [][Next]_vars

\* the last U(r) lookups of route r form a full cycle: exact occupancy counts
PerRouteCycle ==
    \A r \in Routes :
        Len(seen[r]) >= U(r) =>
            LET w == SubSeq(seen[r], Len(seen[r]) - U(r) + 1, Len(seen[r])) IN
            \A x \in Targets(r) : CountIn(w, x) = CountIn(Rings[r], x)
\* a route's picks are periodic with its ring length and independent of the other routes
Periodic == \A r \in Routes : \A i \in 1..Len(seen[r]) : i > U(r) => seen[r][i] = seen[r][i - U(r)]
OnlyMembers == \A r \in Routes : \A i \in 1..Len(seen[r]) : seen[r][i] \in Targets(r)
=============================================================================
