---------------------------- MODULE WeightsRR ----------------------------
(***************************************************************************)
(* Round robin over SEVERAL routes (property C04): every route has its own *)
(* weighted ring and its own cursor.  A lookup on route r returns the slot *)
(* under r's cursor and advances r's cursor only.  Whatever the            *)
(* interleaving of lookups on different routes (routes with the same path  *)
(* on different hosts, TCP routes that all have the empty path), every     *)
(* full cycle of ONE route's lookups hits each of its targets exactly as   *)
(* often as the target occupies that route's ring.                         *)
(***************************************************************************)
EXTENDS Integers, Sequences, FiniteSets

CONSTANTS Rings,      \* sequence of rings; Rings[r] = non-empty sequence of target ids of route r
          Starts,     \* cursor positions a behaviour may start from (a sample of Nat, see below)
          MaxSteps    \* lookups per behaviour

VARIABLES cur,        \* cursor per route
          seen,       \* picks per route, in order
          sched       \* the interleaving: sequence of route numbers looked up so far
vars == <<cur, seen, sched>>

Routes == 1..Len(Rings)
U(r) == Len(Rings[r])
CountIn(q, x) == Cardinality({i \in 1..Len(q) : q[i] = x})
Targets(r) == {Rings[r][i] : i \in 1..U(r)}

\* The cursor of a route is a NATURAL NUMBER: the number of lookups the route has served.  It
\* is never reduced, wrapped or truncated; only its remainder modulo the ring length selects
\* the slot.  A behaviour may therefore start from any count whatsoever (a route that has
\* already served 2^32 or 2^63 lookups is a route like any other); model checking samples
\* Starts \subseteq Nat up to the largest integers TLC has, the harness positions the real
\* counter just below 2^32, 2^32 + 2^31 and 2^63.
ASSUME Starts \subseteq Nat
PickAt(r, c) == Rings[r][(c % U(r)) + 1]
Init == /\ cur \in [Routes -> Starts]
        /\ seen = [r \in Routes |-> <<>>]
        /\ sched = <<>>
LookupOn(r) ==
    /\ Len(sched) < MaxSteps
    /\ seen' = [seen EXCEPT ![r] = Append(@, PickAt(r, cur[r]))]
    /\ cur' = [cur EXCEPT ![r] = @ + 1]
    /\ sched' = Append(sched, r)
\* A connection (an HTTP request, a TCP connection, a TLS connection routed by its server name,
\* a gRPC call) arriving on a listener of ANY kind is exactly ONE lookup of its route: a listener
\* that asks the table more than once per connection (to find out the protocol, to decide whether
\* to tunnel) must not take more than one turn of the ring.
ListenerKinds == {"http", "https", "tcp", "tcp+sni", "https+tcp+sni", "grpc"}
Connect(kind, r) == kind \in ListenerKinds /\ LookupOn(r)
Next == \E r \in Routes : LookupOn(r)
Spec == Init /\ [][Next]_vars

\* the last U(r) lookups of route r form a full cycle: exact occupancy counts
PerRouteCycle ==
    \A r \in Routes :
        Len(seen[r]) >= U(r) =>
            LET w == SubSeq(seen[r], Len(seen[r]) - U(r) + 1, Len(seen[r])) IN
            \A x \in Targets(r) : CountIn(w, x) = CountIn(Rings[r], x)
\* a route's picks are periodic with its ring length and independent of the other routes
Periodic == \A r \in Routes : \A i \in 1..Len(seen[r]) : i > U(r) => seen[r][i] = seen[r][i - U(r)]
\* what a route returns depends on its own count only, at any count: the i-th lookup of a
\* behaviour that started at count c0 is the slot (c0 + i - 1) mod ring length, so a full
\* cycle is exact and lookup i + U equals lookup i however large the count is
PeriodicAtAnyCount ==
    \A r \in Routes :
        LET c0 == cur[r] - Len(seen[r]) IN
        /\ c0 \in Starts
        /\ \A i \in 1..Len(seen[r]) : seen[r][i] = PickAt(r, c0 + i - 1)
        /\ \A c \in Starts : PickAt(r, c + U(r)) = PickAt(r, c)
OnlyMembers == \A r \in Routes : \A i \in 1..Len(seen[r]) : seen[r][i] \in Targets(r)
=============================================================================
