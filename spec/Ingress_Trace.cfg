SPECIFICATION TSpec
CONSTANTS
  Universe <- MCUniverse
  Tables <- MCTables
  HeadSel = {}
  ProtoSel = {}
  Slim = FALSE
  SniffBeforeHeader = TRUE
  RejectUnknown = TRUE
  EofInPrefixDrops = TRUE
  LaxPort = TRUE
  LaxLF = TRUE
  RtLostOnFirstRead = TRUE
VIEW TView
CONSTRAINT HW
INVARIANTS TraceInv
POSTCONDITION Accepted
CHECK_DEADLOCK FALSE
