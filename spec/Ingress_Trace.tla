---------------------------- MODULE Ingress_Trace ----------------------------
(* Validation of connections recorded from real listeners (harness/main/x04_test.go,        *)
(* TestVerifX04Race) against Ingress.  The harness logs the moves of the client in the      *)
(* order it made them - "conn" (a new connection: listener kind and stream), "send" (taken  *)
(* BEFORE the bytes are written), "fin", "waited" (four times pxytimeout have passed since  *)
(* the connection was opened and the process did not stall) - and, when everything has      *)
(* drained, what the instrumented upstream holds ("end").  What fabio did in between -     *)
(* the PROXY layer looking at the bytes, the header timer firing before or after them, the  *)
(* handler - is not logged: these are silent steps, and TLC accepts the record if SOME      *)
(* order of them explains it.  A header that races the timer may therefore be respected or  *)
(* not, but what the upstream then holds must be exactly one of the two outcomes.           *)
EXTENDS Ingress_MC, Json, IOUtils
VARIABLE l

TraceLog == ndJsonDeserialize(IOEnv.VERIF_TRACE)
E == TraceLog[l]
Ev(e) == l <= Len(TraceLog) /\ TraceLog[l].ev = e /\ l' = l + 1

CfgOf(e) == [proto |-> e.proto, pxy |-> e.pxy = "y", ropt |-> e.ropt, rt |-> e.rt = "y"]
ScrOf(e) == [head |-> e.head, fam |-> e.fam, pay |-> e.pay, sni |-> e.sni]

(* before the first "conn" the variables hold an arbitrary (fixed) connection *)
TInit == /\ TLCSet(1, 0) /\ l = 1
         /\ cfg = Flat("http", FALSE) /\ scr = [head |-> "none", fam |-> 4, pay |-> "plain", sni |-> "-"] /\ tbl = "A"
         /\ sent = 0 /\ fin = FALSE /\ ph = "na" /\ timer = "off" /\ scan = 0 /\ hlen = 0 /\ eff = "peer"
         /\ disp = "?" /\ dtbl = "" /\ tls = "na" /\ hs = "init" /\ hq = "" /\ fwd = 0
         /\ up = <<>> /\ upeof = FALSE /\ resps = <<>> /\ closed = FALSE

(* a new connection: every variable starts afresh *)
TConn ==
    /\ Ev("conn")
    /\ cfg' = CfgOf(E) /\ scr' = ScrOf(E) /\ tbl' = "A"
    /\ sent' = 0 /\ fin' = FALSE
    /\ ph' = IF ~cfg'.pxy THEN "na" ELSE IF cfg'.proto = "https+tcp+sni" /\ SniffBeforeHeader THEN "idle" ELSE "prefix"
    /\ timer' = IF ph' = "prefix" THEN "armed" ELSE "off"
    /\ scan' = 0 /\ hlen' = 0
    /\ eff' = IF cfg'.pxy THEN "?" ELSE "peer"
    /\ disp' = "?" /\ dtbl' = ""
    /\ tls' = IF cfg'.proto \in {"https", "tcps"} THEN "wait" ELSE "na"
    /\ hs' = "init" /\ hq' = "" /\ fwd' = 0
    /\ up' = <<>> /\ upeof' = FALSE /\ resps' = <<>> /\ closed' = FALSE
TSend   == Ev("send") /\ Send(E.n)
TFin    == Ev("fin") /\ Fin
TWaited == Ev("waited") /\ timer # "armed" /\ UNCHANGED vars
(* the final observation: everything has drained *)
MarkerName == IF Len(up) > 0 /\ up[1] = "M:peer" THEN "peer" ELSE IF Len(up) > 0 /\ up[1] = "M:decl" THEN "decl" ELSE ""
TEnd ==
    /\ Ev("end") /\ ~ENABLED Internal
    /\ MarkerName = E.marker
    /\ Len(DataOf(up)) = E.n
    /\ (E.off >= 0 => hlen = E.off)
    /\ upeof = (E.upeof = "y")
    /\ resps = E.resps
    /\ UNCHANGED vars
Silent == l' = l /\ (Internal \/ Timeout)

TNext == TConn \/ TSend \/ TFin \/ TWaited \/ TEnd \/ Silent
TSpec == TInit /\ [][TNext]_<<vars, l>>

TView == <<vars, l>>
HW == TLCSet(1, IF TLCGet(1) < l THEN l ELSE TLCGet(1))
Accepted == IF TLCGet(1) = Len(TraceLog) + 1 THEN TRUE
            ELSE PrintT(<<"X04-TRACE-STUCK", TLCGet(1), TraceLog[TLCGet(1)]>>) /\ FALSE
(* what holds in every state of an accepted record (for the deviation constants of the run) *)
TraceInv == TypeOK /\ OffIsPayload /\ Verbatim /\ MarkerDecided /\ AnswersUseEff
=============================================================================
