---------------------------- MODULE RouteLang ----------------------------
(***************************************************************************)
(* The route command language of fabio (route add / route del / route      *)
(* weight), transcribed from the documented command semantics (docs/       *)
(* content/cfg, route.Commands) and the statement of properties C05, C04.  *)
(*                                                                         *)
(* State: tbl, a function from route keys ("host/path" with the host in    *)
(* lower case, or ":port") to the NON-EMPTY sequence of targets of that    *)
(* route in insertion order.  Every command is one action.                 *)
(*                                                                         *)
(* Deliberate reading of the documentation where the code may differ:      *)
(*  - host names are case-insensitive in add, del AND weight;              *)
(*  - `route weight` that selects nothing changes nothing (it does not     *)
(*    invalidate the other commands of the table).                         *)
(***************************************************************************)
EXTENDS Integers, Sequences, FiniteSets, Rational

CONSTANTS
    Svc,        \* service names
    Srcs,       \* set of records [src |-> spelling as written, key |-> host-lowered spelling]
    Dst,        \* target URLs
    W,          \* fixed weights usable in commands, as rationals [n, d]; QZero = dynamic
    TagSeqs,    \* tag lists usable in commands (sequences; <<>> = none)
    OptSet,     \* option strings usable in add ("" = none)
    MaxCmds

VARIABLES tbl, hist
vars == <<tbl, hist>>

-----------------------------------------------------------------------------
\* helpers
SeqToSet(q) == {q[i] : i \in DOMAIN q}
Filter(q, keep(_)) ==
    LET F[i \in 0..Len(q)] == IF i = 0 THEN <<>>
                               ELSE IF keep(q[i]) THEN Append(F[i-1], q[i]) ELSE F[i-1]
    IN F[Len(q)]
Prune(t) == [k \in {x \in DOMAIN t : t[x] # <<>>} |-> t[k]]
Has(k) == k \in DOMAIN tbl
KeyOf(src) == (CHOOSE r \in Srcs : r.src = src).key
SrcNames == {r.src : r \in Srcs}
Keys == {r.key : r \in Srcs}

Target(s, d, w, tg, o) == [svc |-> s, dst |-> d, fw |-> w, tags |-> tg, opts |-> o]
\* identity used by add's de-duplication: service, destination, fixed weight, tags
SameTarget(a, b) == a.svc = b.svc /\ a.dst = b.dst /\ QEq(a.fw, b.fw) /\ a.tags = b.tags
TagsMatch(t, tg) == SeqToSet(tg) \subseteq SeqToSet(t.tags)

-----------------------------------------------------------------------------
\* route add <svc> <src> <dst> [weight w] [tags ..] [opts ..]
\* "w <= 0 means no fixed weighting": a non-positive weight is the dynamic weight
NormW(w) == IF QPos(w) THEN w ELSE QZero
Add(t, s, src, d, w, tg, o) ==
    LET k == KeyOf(src)
        x == Target(s, d, NormW(w), tg, o) IN
    IF k \in DOMAIN t
    THEN IF \E i \in DOMAIN t[k] : SameTarget(t[k][i], x) THEN t
         ELSE [t EXCEPT ![k] = Append(@, x)]
    ELSE [y \in DOMAIN t \cup {k} |-> IF y = k THEN <<x>> ELSE t[y]]

\* route del <svc>
DelSvc(t, s) == Prune([k \in DOMAIN t |-> Filter(t[k], LAMBDA x : x.svc # s)])
\* route del <svc> <src>
DelSvcSrc(t, s, src) ==
    LET k0 == KeyOf(src) IN
    Prune([k \in DOMAIN t |-> IF k = k0 THEN Filter(t[k], LAMBDA x : x.svc # s) ELSE t[k]])
\* route del <svc> <src> <dst>
DelSvcSrcDst(t, s, src, d) ==
    LET k0 == KeyOf(src) IN
    Prune([k \in DOMAIN t |-> IF k = k0 THEN Filter(t[k], LAMBDA x : ~(x.svc = s /\ x.dst = d)) ELSE t[k]])
\* route del [<svc>] tags "..."      (s = "" : any service)
DelTags(t, s, tg) ==
    Prune([k \in DOMAIN t |-> Filter(t[k], LAMBDA x : ~((s = "" \/ x.svc = s) /\ TagsMatch(x, tg)))])

\* route weight [<svc>] <src> weight w [tags "..."]   (s = "" : any service)
Selected(t, k, s, tg) == {i \in DOMAIN t[k] : (s = "" \/ t[k][i].svc = s) /\ TagsMatch(t[k][i], tg)}
Weigh(t, s, src, w, tg) ==
    LET k == KeyOf(src) IN
    IF k \notin DOMAIN t THEN t
    ELSE LET m == Selected(t, k, s, tg) IN
         IF m = {} THEN t
         ELSE [t EXCEPT ![k] = [i \in DOMAIN @ |->
                    IF i \in m THEN [@[i] EXCEPT !.fw = QDivInt(NormW(w), Cardinality(m))] ELSE @[i]]]

-----------------------------------------------------------------------------
\* the command universe; a command is a record so that it can be logged and replayed
AddCmds    == {[op |-> "add", svc |-> s, src |-> src, dst |-> d, w |-> w, tags |-> tg, opts |-> o] :
                 s \in Svc, src \in SrcNames, d \in Dst, w \in W, tg \in TagSeqs, o \in OptSet}
DelCmds    == {[op |-> "del", svc |-> s, src |-> "", dst |-> "", w |-> QZero, tags |-> <<>>, opts |-> ""] : s \in Svc}
         \cup {[op |-> "del", svc |-> s, src |-> src, dst |-> "", w |-> QZero, tags |-> <<>>, opts |-> ""] : s \in Svc, src \in SrcNames}
         \cup {[op |-> "del", svc |-> s, src |-> src, dst |-> d, w |-> QZero, tags |-> <<>>, opts |-> ""] : s \in Svc, src \in SrcNames, d \in Dst}
         \cup {[op |-> "del", svc |-> s, src |-> "", dst |-> "", w |-> QZero, tags |-> tg, opts |-> ""] : s \in Svc \cup {""}, tg \in TagSeqs \ {<<>>}}
WeightCmds == {c \in {[op |-> "weight", svc |-> s, src |-> src, dst |-> "", w |-> w, tags |-> tg, opts |-> ""] :
                        s \in Svc \cup {""}, src \in SrcNames, w \in W, tg \in TagSeqs} :
                 c.svc # "" \/ c.tags # <<>>}   \* the grammar has no `route weight <src> weight w` without tags
Cmds == AddCmds \cup DelCmds \cup WeightCmds

Apply(t, c) ==
    CASE c.op = "add" -> Add(t, c.svc, c.src, c.dst, c.w, c.tags, c.opts)
      [] c.op = "del" /\ c.tags # <<>> -> DelTags(t, c.svc, c.tags)
      [] c.op = "del" /\ c.tags = <<>> /\ c.src = "" -> DelSvc(t, c.svc)
      [] c.op = "del" /\ c.tags = <<>> /\ c.src # "" /\ c.dst = "" -> DelSvcSrc(t, c.svc, c.src)
      [] c.op = "del" /\ c.tags = <<>> /\ c.src # "" /\ c.dst # "" -> DelSvcSrcDst(t, c.svc, c.src, c.dst)
      [] c.op = "weight" -> Weigh(t, c.svc, c.src, c.w, c.tags)

Init == tbl = <<>> /\ hist = <<>>
Step(c) == /\ Len(hist) < MaxCmds
           /\ tbl' = Apply(tbl, c)
           /\ hist' = Append(hist, c)
Next == \E c \in Cmds : Step(c)
Spec == Init /\ [][Next]_vars

-----------------------------------------------------------------------------
\* effective weights (property C04) -- exact
RECURSIVE SumFixed(_, _)
SumFixed(r, i) == IF i = 0 THEN QZero ELSE QAdd(SumFixed(r, i-1), IF QPos(r[i].fw) THEN r[i].fw ELSE QZero)
NFixed(r) == Cardinality({i \in DOMAIN r : QPos(r[i].fw)})
EffWeight(r, i) ==
    LET n == Len(r)  nf == NFixed(r)  s == SumFixed(r, n) IN
    IF nf = 0 THEN Q(1, n)
    ELSE IF QLt(QOne, s) \/ (nf = n /\ QLt(s, QOne))
         THEN IF QPos(r[i].fw) THEN QDiv(r[i].fw, s) ELSE QZero
         ELSE IF QPos(r[i].fw) THEN r[i].fw ELSE QDivInt(QSub(QOne, s), n - nf)
RECURSIVE SumEff(_, _)
SumEff(r, i) == IF i = 0 THEN QZero ELSE QAdd(SumEff(r, i-1), EffWeight(r, i))

-----------------------------------------------------------------------------
\* text rendering (Table.String) and re-parsing, abstractly: the rendering lists one
\* add command per target with positive effective weight, fixed weights to 4 decimals.
Round4(w) == Q(QRound(QMul(w, Q(10000, 1))), 10000)
Rendered(t) == [k \in DOMAIN t |->
                  LET r == t[k]
                      G[i \in 0..Len(r)] == IF i = 0 THEN <<>>
                                            ELSE IF QPos(EffWeight(r, i))
                                                 THEN Append(G[i-1], [r[i] EXCEPT !.fw = Round4(@)])
                                                 ELSE G[i-1]
                  IN G[Len(r)]]
\* replaying the rendering through Add, route by route, target by target
RECURSIVE AddAll(_, _, _, _)
AddAll(t, k, r, i) == IF i > Len(r) THEN t
                      ELSE AddAll(Add(t, r[i].svc, k, r[i].dst, r[i].fw, r[i].tags, r[i].opts), k, r, i + 1)
RECURSIVE RebuildFrom(_, _, _)
RebuildFrom(t, rt, ks) == IF ks = {} THEN t
                          ELSE LET k == CHOOSE x \in ks : TRUE IN RebuildFrom(AddAll(t, k, rt[k], 1), rt, ks \ {k})
Rebuild(rt) == RebuildFrom(<<>>, Prune(rt), DOMAIN Prune(rt))
NoWeightTwins(t) == \A k \in DOMAIN t : \A i, j \in DOMAIN t[k] :
                       (i # j /\ t[k][i].svc = t[k][j].svc /\ t[k][i].dst = t[k][j].dst /\ t[k][i].tags = t[k][j].tags) => FALSE

-----------------------------------------------------------------------------
\* properties of the language (checked by TLC on the bounded universe)
TypeOK == /\ DOMAIN tbl \subseteq Keys
          /\ \A k \in DOMAIN tbl : \A i \in DOMAIN tbl[k] : tbl[k][i].svc \in Svc /\ tbl[k][i].dst \in Dst
NoEmptyRoute == \A k \in DOMAIN tbl : tbl[k] # <<>>
NoDuplicateTarget == \A k \in DOMAIN tbl : \A i, j \in DOMAIN tbl[k] : SameTarget(tbl[k][i], tbl[k][j]) => i = j
                     \* can be broken legitimately by `weight` making two targets equal; see WeighMayMerge
AddIdempotent == \A c \in AddCmds : Apply(Apply(tbl, c), c) = Apply(tbl, c)
AddAccumulates == \A c \in AddCmds : LET t2 == Apply(tbl, c) k == KeyOf(c.src) IN
                     /\ k \in DOMAIN t2
                     /\ \E i \in DOMAIN t2[k] : SameTarget(t2[k][i], Target(c.svc, c.dst, NormW(c.w), c.tags, c.opts))
                     /\ \A k2 \in DOMAIN tbl : k2 # k => t2[k2] = tbl[k2]
                     /\ k \in DOMAIN tbl => SubSeq(t2[k], 1, Len(tbl[k])) = tbl[k]
DelExact == \A c \in DelCmds : LET t2 == Apply(tbl, c) IN
               /\ \A k \in DOMAIN t2 : t2[k] # <<>> /\ k \in DOMAIN tbl
               /\ \A k \in DOMAIN tbl :
                    LET sel(x) == /\ (c.svc = "" \/ x.svc = c.svc)
                                  /\ (c.tags # <<>> => TagsMatch(x, c.tags))
                                  /\ (c.tags = <<>> /\ c.src # "" => k = KeyOf(c.src))
                                  /\ (c.tags = <<>> /\ c.dst # "" => x.dst = c.dst)
                        kept == Filter(tbl[k], LAMBDA x : ~sel(x)) IN
                    IF kept = <<>> THEN k \notin DOMAIN t2 ELSE k \in DOMAIN t2 /\ t2[k] = kept
WeighLocal == \A c \in WeightCmds : LET t2 == Apply(tbl, c) IN
               /\ DOMAIN t2 = DOMAIN tbl
               /\ \A k \in DOMAIN tbl : Len(t2[k]) = Len(tbl[k]) /\ \A i \in DOMAIN tbl[k] :
                    LET x == tbl[k][i] y == t2[k][i]
                        hit == k = KeyOf(c.src) /\ (c.svc = "" \/ x.svc = c.svc) /\ TagsMatch(x, c.tags) IN
                    /\ [y EXCEPT !.fw = QZero] = [x EXCEPT !.fw = QZero]
                    /\ ~hit => y = x
WeightsSumToOne == \A k \in DOMAIN tbl : /\ QEq(SumEff(tbl[k], Len(tbl[k])), QOne)
                                         /\ \A i \in DOMAIN tbl[k] : ~QLt(EffWeight(tbl[k], i), QZero)
RoundTrip == NoWeightTwins(tbl) => Rebuild(Rendered(tbl)) = Prune(Rendered(tbl))
=============================================================================
