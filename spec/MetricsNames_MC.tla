---------------------------- MODULE MetricsNames_MC ----------------------------
(* Universes and case generator for MetricsNames: every (route, template) of the universe with   *)
(* the name the documentation prescribes, replayed through metrics.parseNames / TargetName.       *)
EXTENDS MetricsNames, Json
VARIABLE d

Svcs    == {<<"s", "v", "c">>, <<"S", "v", ".", "C">>, <<"a", ":", "b">>}
Hosts   == {<<"a", ".", "b">>, <<"A", "_", "b">>, <<>>}
Paths   == {<<"/">>, <<"/", "a", ".", "B">>, <<>>}
Schemes == {<<"h", "t", "t", "p">>, <<"t", "c", "p">>}
UHosts  == {<<"1", ".", "2">>, <<"x", "-", "B">>}
UPorts  == {<<>>, <<"8", "0">>}
UPaths  == {<<"/">>, <<"/", "v", "1">>, <<>>}
Data    == [svc : Svcs, host : Hosts, path : Paths, scheme : Schemes, uhost : UHosts, uport : UPorts, upath : UPaths]
Small   == {x \in Data : x.scheme = <<"h", "t", "t", "p">> /\ x.upath # <<>> /\ (x.uport = <<>> <=> x.uhost = <<"x", "-", "B">>)}

Segs  == {[lit |-> <<".">>], [lit |-> <<"-", "X">>]} \cup {[fn |-> f, field |-> g] : f \in {"clean", ""}, g \in Fields}
Tpls  == {<<a>> : a \in Segs} \cup {<<a, b>> : a, b \in Segs}

Case(x, tpl) == [svc |-> x.svc, host |-> x.host, path |-> x.path, scheme |-> x.scheme, uhost |-> x.uhost,
                 uport |-> x.uport, upath |-> x.upath, tpl |-> tpl, out |-> Render(tpl, x)]
Init == d \in Data
Next == UNCHANGED d
Gen  == /\ PrintT(ToJson(Case(d, Default)))
        /\ (d \in Small => \A tpl \in Tpls : PrintT(ToJson(Case(d, tpl))))

\* the example of the documentation
Ex == [svc |-> <<"t","e","s","t","s","e","r","v","i","c","e">>,
       host |-> <<"w","w","w",".","e","x","a","m","p","l","e",".","c","o","m">>, path |-> <<"/">>,
       scheme |-> <<"h","t","t","p">>, uhost |-> <<"1","0",".","1",".","2",".","3">>, uport |-> <<"1","2","3","4","5">>, upath |-> <<"/">>]
ExName == <<"t","e","s","t","s","e","r","v","i","c","e",".","w","w","w","_","e","x","a","m","p","l","e","_","c","o","m",".","/",".",
            "1","0","_","1","_","2","_","3","_","1","2","3","4","5">>
DocExample == d = d /\ Render(Default, Ex) = ExName

\* "each metric has a unique name ... prefix.service.host.path.target-addr"
Injective        == \A y \in Data : Ident(y) # Ident(d) => Render(Default, y) # Render(Default, d)
InjectiveOnClean == \A y \in Data : CleanIdent(y) # CleanIdent(d) => Render(Default, y) # Render(Default, d)
=============================================================================
