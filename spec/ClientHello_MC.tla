-------------------------- MODULE ClientHello_MC --------------------------
(* Structured ClientHello messages, their serialisation to bytes, the corruption        *)
(* operators, and the case generator for ClientHello (one JSON line per finished case:  *)
(* structured message + corruption + bytes + expected outcome class + parser path).     *)
EXTENDS ClientHello, Json, TLC

CONSTANTS Level        \* 1 = quick universe, 2 = thorough universe

-----------------------------------------------------------------------------
\* byte-level encoders
U8(n)  == <<n % 256>>
U16(n) == <<(n \div 256) % 256, n % 256>>
U24(n) == <<(n \div 65536) % 256, (n \div 256) % 256, n % 256>>
Rep(b, n) == [i \in 1..n |-> b]
RECURSIVE Cat(_)
Cat(ss) == IF ss = <<>> THEN <<>> ELSE Head(ss) \o Cat(Tail(ss))

\* ASCII
NameA    == <<97, 46, 101, 120, 97, 109, 112, 108, 101>>                          \* a.example
NameB    == <<98, 46, 101, 120, 97, 109, 112, 108, 101, 46, 99, 111, 109>>        \* b.example.com
NameLong == Rep(97, 63) \o <<46>> \o Rep(98, 63) \o <<46>> \o Rep(99, 63) \o <<46, 100, 101>>   \* 63.63.63.de
NameX    == <<120>>                                                               \* x (not a host_name entry)
\* example.com, and names a client may legally send (HostName is an opaque byte string <1..2^16-1>) that
\* differ from it only by bytes a careless consumer might drop: a control character, a line break, a byte
\* that is not UTF-8, a long tail of DEL bytes; and one that differs by letter case only
Example  == <<101, 120, 97, 109, 112, 108, 101, 46, 99, 111, 109>>
NameCtl  == <<101, 120, 97, 1, 109, 112, 108, 101, 46, 99, 111, 109>>
NameNL   == Example \o <<10>>
NameFF   == <<101, 120, 97, 109, 112, 108, 101, 255, 46, 99, 111, 109>>
NameDel  == Example \o Rep(127, 300)
NameUp   == <<69, 88, 65, 77, 80, 76, 69, 46, 99, 111, 109>>
H2       == <<104, 50>>                                                           \* h2
Http11   == <<104, 116, 116, 112, 47, 49, 46, 49>>                                \* http/1.1

\* extensions; uniform shape [t, names, n] so that TLC can compare them
\*   sn: names = entries [nt, nm]       alpn: names = protocols [nt |-> 0, nm]
\*   sv: n = number of versions         ks: n = key length (32 = X25519, 1216 = X25519MLKEM768)
\*   ticket: empty                      pad: n zero bytes         grease: n opaque bytes, unknown type
E(t, names, n) == [t |-> t, names |-> names, n |-> n]
Host(nm) == [nt |-> 0, nm |-> nm]
Other(nm) == [nt |-> 1, nm |-> nm]
SN(entries) == E("sn", entries, 0)
ALPN == E("alpn", <<Host(H2), Host(Http11)>>, 0)
SV == E("sv", <<>>, 2)
KS(n) == E("ks", <<>>, n)
Ticket == E("ticket", <<>>, 0)
Pad(n) == E("pad", <<>>, n)
Grease(n) == E("grease", <<>>, n)
SigAlgs == E("sigalgs", <<>>, 2)
Groups == E("groups", <<>>, 2)

\* templates: [id, sid, ncs, hasext, exts, name, wf]; name = the first host_name, <<>> if none;
\* wf = FALSE: the message breaks the grammar although every length is consistent (not claimed well-formed)
T(id, sid, ncs, hasext, exts, nm) == [id |-> id, sid |-> sid, ncs |-> ncs, hasext |-> hasext, exts |-> exts, name |-> nm, wf |-> TRUE]
TBad(id, sid, ncs, hasext, exts, nm) == [T(id, sid, ncs, hasext, exts, nm) EXCEPT !.wf = FALSE]
\* opaque bytes of an entry of unknown name type that LOOK like a host_name entry ("evil")
Hidden == <<0, 0, 4, 101, 118, 105, 108>>
TplQuick == {
  T("noext",        0,  1, FALSE, <<>>, <<>>),                                                \* TLS 1.0 style: no extension block at all
  T("emptyext",     32, 2, TRUE,  <<>>, <<>>),                                                \* extension block of length 0
  T("sni-only",     0,  2, TRUE,  <<SN(<<Host(NameA)>>)>>, NameA),
  T("tls12",        32, 3, TRUE,  <<SN(<<Host(NameB)>>), Groups, SigAlgs, ALPN, Ticket>>, NameB),
  T("tls13",        32, 3, TRUE,  <<Grease(0), SN(<<Host(NameA)>>), Groups, SigAlgs, ALPN, SV, KS(32), Grease(1)>>, NameA),
  T("sni-last",     32, 2, TRUE,  <<SV, Groups, SigAlgs, KS(32), ALPN, Pad(7), SN(<<Host(NameB)>>)>>, NameB),
  T("no-sni",       32, 2, TRUE,  <<Groups, SigAlgs, ALPN, SV, KS(32)>>, <<>>),
  T("other-first",  0,  2, TRUE,  <<SN(<<Other(NameX), Host(NameB)>>), ALPN>>, NameB),           \* first host_name is the second entry
  T("other-hidden", 0,  2, TRUE,  <<SN(<<Other(Hidden), Host(NameA)>>)>>, NameA),                \* a host_name entry is NOT hidden in opaque bytes
  T("two-others",   32, 2, TRUE,  <<ALPN, SN(<<Other(NameX), Other(NameB), Host(NameA)>>)>>, NameA),
  T("name-example", 0,  2, TRUE,  <<SN(<<Host(Example)>>), ALPN>>, Example),
  T("name-ctl",     0,  2, TRUE,  <<SN(<<Host(NameCtl)>>), ALPN>>, NameCtl),
  T("name-nl",      0,  2, TRUE,  <<SN(<<Host(NameNL)>>), ALPN>>, NameNL),
  T("name-ff",      0,  2, TRUE,  <<SN(<<Host(NameFF)>>), ALPN>>, NameFF),
  T("name-del",     0,  2, TRUE,  <<SN(<<Host(NameDel)>>), ALPN>>, NameDel),
  T("name-upper",   0,  2, TRUE,  <<SN(<<Host(NameUp)>>), ALPN>>, NameUp),
  TBad("other-empty", 0, 2, TRUE, <<SN(<<Other(<<>>), Host(NameB)>>)>>, NameB)                   \* an empty entry (01 00 00): names are <1..2^16-1>
}
TplThorough == TplQuick \cup {
  T("pq",           32, 3, TRUE,  <<SN(<<Host(NameA)>>), Groups, SigAlgs, SV, KS(1216), ALPN, Ticket>>, NameA),   \* post-quantum key share
  T("longname",     32, 2, TRUE,  <<ALPN, SN(<<Host(NameLong)>>), SV, KS(32)>>, NameLong),
  T("padded",       0,  2, TRUE,  <<SN(<<Host(NameA)>>), SV, KS(32), Pad(200)>>, NameA),
  T("other-only",   0,  2, TRUE,  <<SN(<<Other(NameX)>>), ALPN>>, <<>>)                          \* a server_name list without a host_name
}
\* hellos that fill a TLS record up to its limit: record payload of exactly z bytes (2^14 = 16384 is
\* the maximum of TLSPlaintext.length), reached with a padding extension
MaxBase(n) == T("max", 0, 1, TRUE, <<SN(<<Host(NameA)>>), Pad(n)>>, NameA)
TMax(z) == [MaxBase(z - 69) EXCEPT !.id = "max-" \o ToString(z)]      \* 69 = record payload of MaxBase(0)
BigSizes == IF Level = 1 THEN {16380, 16384} ELSE {16379, 16380, 16383, 16384}
TplBig == { TMax(z) : z \in BigSizes }
IsBig(m) == m \in TplBig
Templates == (IF Level = 1 THEN TplQuick ELSE TplThorough) \cup TplBig

-----------------------------------------------------------------------------
\* corruption: [kind, f, i, how, at, f2, i2, how2]
\*   none                          the message as it is
\*   len   f,i = length field      how in {zero, minus, plus, max}: declared length := 0, len-1, len+1, all ones;
\*         f2,i2,how2              optionally a second length field corrupted in the same message ("" = none)
\*   type  f in {rec, hs}          at = value of the type byte
\*   trunc at = k                  only the first k bytes arrive
\*   cut   at = k                  the message ends after k bytes and record / handshake length say so:
\*                                 the inner structure runs past the end of a self-consistent record
\*   cutx  at = k                  as cut, and the length of the extension block says so too: the cut
\*                                 falls into an extension / the server name list of a consistent block
\*   hdr   (size function)         i = record length, at = handshake length written into the 9-byte header
C(kind, f, i, how, at) == [kind |-> kind, f |-> f, i |-> i, how |-> how, at |-> at, f2 |-> "", i2 |-> 0, how2 |-> ""]
C2(f, i, how, f2, i2, how2) == [kind |-> "len", f |-> f, i |-> i, how |-> how, at |-> 0, f2 |-> f2, i2 |-> i2, how2 |-> how2]
NoCorr == C("none", "", 0, "", 0)

Hows == {"zero", "minus", "plus", "max"}
CorrVal(how, a, max) == CASE how = "zero" -> 0 [] how = "minus" -> a - 1 [] how = "plus" -> a + 1 [] how = "max" -> max
\* the declared value of length field (f, i) whose true value is a
Decl(c, f, i, a, max) == IF c.kind = "len" /\ c.f = f /\ c.i = i THEN CorrVal(c.how, a, max)
                         ELSE IF c.kind = "len" /\ c.f2 = f /\ c.i2 = i THEN CorrVal(c.how2, a, max)
                         ELSE a

ExtType(x) == CASE x.t = "sn" -> 0 [] x.t = "alpn" -> 16 [] x.t = "sv" -> 43 [] x.t = "ks" -> 51
                [] x.t = "ticket" -> 35 [] x.t = "pad" -> 21 [] x.t = "grease" -> 2570 + 4112 * x.n      \* 0x0a0a, 0x1a1a
                [] x.t = "sigalgs" -> 13 [] x.t = "groups" -> 10

SerEntry(c, e, j) == U8(e.nt) \o U16(Decl(c, "name", j, Len(e.nm), 65535)) \o e.nm
ExtBody(c, x) ==
    CASE x.t = "sn" -> LET list == Cat([j \in 1..Len(x.names) |-> SerEntry(c, x.names[j], j)]) IN
                       U16(Decl(c, "snlist", 0, Len(list), 65535)) \o list
      [] x.t = "alpn" -> LET list == Cat([j \in 1..Len(x.names) |-> U8(Len(x.names[j].nm)) \o x.names[j].nm]) IN
                         U16(Decl(c, "alpnlist", 0, Len(list), 65535)) \o list
      [] x.t = "sv" -> U8(2 * x.n) \o Cat([j \in 1..x.n |-> U16(772 - j + 1)])            \* 0x0304, 0x0303
      [] x.t = "ks" -> U16(4 + x.n) \o U16(IF x.n = 32 THEN 29 ELSE 4588) \o U16(x.n) \o Rep(7, x.n)
      [] x.t = "ticket" -> <<>>
      [] x.t = "pad" -> Rep(0, x.n)
      [] x.t = "grease" -> Rep(0, x.n)
      [] x.t = "sigalgs" -> U16(2 * x.n) \o U16(1027) \o U16(2052)                         \* ecdsa_secp256r1_sha256, rsa_pss_rsae_sha256
      [] x.t = "groups" -> U16(2 * x.n) \o U16(29) \o U16(23)                              \* x25519, secp256r1
SerExt(c, x, i) == LET b == ExtBody(c, x) IN U16(ExtType(x)) \o U16(Decl(c, "ext", i, Len(b), 65535)) \o b

Suites == <<4865, 49199, 49195>>      \* TLS_AES_128_GCM_SHA256, ECDHE-RSA-AES128-GCM, ECDHE-ECDSA-AES128-GCM
Body(c, m) ==
    LET exts == Cat([i \in 1..Len(m.exts) |-> SerExt(c, m.exts[i], i)]) IN
    U16(771) \o Rep(171, 32)
    \o U8(Decl(c, "sid", 0, m.sid, 255)) \o Rep(205, m.sid)
    \o U16(Decl(c, "cs", 0, 2 * m.ncs, 65535)) \o Cat([j \in 1..m.ncs |-> U16(Suites[j])])
    \o U8(Decl(c, "cm", 0, 1, 255)) \o <<0>>
    \o (IF m.hasext THEN U16(Decl(c, "exts", 0, Len(exts), 65535)) \o exts ELSE <<>>)
Full(c, m) ==
    LET b == Body(c, m)
        hs == U8(IF c.kind = "type" /\ c.f = "hs" THEN c.at ELSE 1) \o U24(Decl(c, "hs", 0, Len(b), 16777215)) \o b IN
    U8(IF c.kind = "type" /\ c.f = "rec" THEN c.at ELSE 22) \o U16(769) \o U16(Decl(c, "rec", 0, Len(hs), 65535)) \o hs
\* 0-based offset of the length field of the extension block
ExtsOff(m) == 48 + m.sid + 2 * m.ncs
Ser(c, m) == LET f == Full(c, m) IN
             IF c.kind = "trunc" THEN SubSeq(f, 1, c.at)
             ELSE IF c.kind = "hdr" THEN SubSeq(f, 1, 3) \o U16(c.i) \o <<1>> \o U24(c.at) \o SubSeq(f, 10, Len(f))
             ELSE IF c.kind = "cut" THEN SubSeq(f, 1, 3) \o U16(c.at - 5) \o <<1>> \o U24(c.at - 9) \o SubSeq(f, 10, c.at)
             ELSE IF c.kind = "cutx" THEN SubSeq(f, 1, 3) \o U16(c.at - 5) \o <<1>> \o U24(c.at - 9) \o SubSeq(f, 10, ExtsOff(m))
                                          \o U16(c.at - ExtsOff(m) - 2) \o SubSeq(f, ExtsOff(m) + 3, c.at)
             ELSE f

\* the length fields a message has
LenFields(m) ==
    {<<"rec", 0>>, <<"hs", 0>>, <<"sid", 0>>, <<"cs", 0>>, <<"cm", 0>>}
    \cup (IF m.hasext THEN {<<"exts", 0>>} ELSE {})
    \cup {<<"ext", i>> : i \in 1..Len(m.exts)}
    \cup (IF \E i \in 1..Len(m.exts) : m.exts[i].t = "sn" THEN {<<"snlist", 0>>} ELSE {})
    \cup (IF \E i \in 1..Len(m.exts) : m.exts[i].t = "alpn" THEN {<<"alpnlist", 0>>} ELSE {})
    \cup UNION {{<<"name", j>> : j \in 1..Len(m.exts[i].names)} : i \in {k \in 1..Len(m.exts) : m.exts[k].t = "sn"}}

\* a fixed order on length fields, so that a pair is generated once
FieldRank(f) == CASE f[1] = "rec" -> 1 [] f[1] = "hs" -> 2 [] f[1] = "sid" -> 3 [] f[1] = "cs" -> 4 [] f[1] = "cm" -> 5
                  [] f[1] = "exts" -> 6 [] f[1] = "ext" -> 10 + f[2] [] f[1] = "snlist" -> 30 [] f[1] = "alpnlist" -> 31
                  [] f[1] = "name" -> 40 + f[2]
Before(f, g) == FieldRank(f) < FieldRank(g)

\* truncation points: every proper prefix of short messages; of long ones every prefix up to 140 bytes
\* (all structural boundaries of the head) and the last 48 bytes
TruncPoints(n) == IF n <= 200 THEN 0..(n - 1) ELSE (0..140) \cup ((n - 48)..(n - 1))

\* the 9-byte header for the size function: record length x handshake length around the true ones
HdrCombos(n) == LET rl == n - 5  hl == n - 9 IN
    { <<r, h>> : r \in {0, 1, 3, 4, 5, rl - 1, rl, rl + 1, 16383, 16384, 16385, 65535},
                 h \in {0, 1, hl - 1, hl, hl + 1, rl - 4, rl - 3, 16380, 16381, 65536, 16777215} } \ {<<rl, hl>>}

\* Routing (C10: "SNI routing uses the server name the TLS stack itself would see"): the routing table has
\* routes for these hosts; host names are case-insensitive; a hello is routed by exactly its server name
RouteTable == {Example, NameA}
Lower(nm) == [k \in DOMAIN nm |-> IF nm[k] \in 65..90 THEN nm[k] + 32 ELSE nm[k]]
RouteOf(nm) == IF Lower(nm) \in RouteTable THEN Lower(nm) ELSE <<>>
\* the name templates concern routing, not parsing: they are not corrupted
IsNameTpl(m) == m.id \in {"name-example", "name-ctl", "name-nl", "name-ff", "name-del", "name-upper"}

\* the full-record hellos get the corruptions that concern the record boundary only (16 K bytes per case)
CorrsBig(m) ==
    LET n == Len(Full(NoCorr, m)) IN
    {NoCorr} \cup { C("len", f, 0, h, 0) : f \in {"rec", "hs"}, h \in {"minus", "plus"} }
    \cup { C("trunc", "", 0, "", k) : k \in {n - 1, n - 2} }
CorrsOf(m) ==
    IF IsBig(m) THEN CorrsBig(m) ELSE IF IsNameTpl(m) THEN {NoCorr} ELSE
    LET n == Len(Full(NoCorr, m)) IN
    {NoCorr}
    \cup { C("len", f[1], f[2], h, 0) : f \in LenFields(m), h \in Hows }
    \cup { C("type", "rec", 0, "", v) : v \in {0, 20, 21, 23, 128} }
    \cup { C("type", "hs", 0, "", v) : v \in {0, 2, 22} }
    \cup { C("trunc", "", 0, "", k) : k \in TruncPoints(n) }
    \cup { C("cut", "", 0, "", k) : k \in TruncPoints(n) \ (0..9) }
    \cup (IF m.hasext THEN { C("cutx", "", 0, "", k) : k \in TruncPoints(n) \ (0..(ExtsOff(m) + 1)) } ELSE {})
    \cup (IF Level = 2 /\ m.id \in {"sni-only", "tls13", "other-first"}
          THEN { C2(fg[1][1], fg[1][2], h, fg[2][1], fg[2][2], h2) :
                   fg \in { x \in LenFields(m) \X LenFields(m) : Before(x[1], x[2]) }, h \in Hows, h2 \in Hows }
          ELSE {})
    \cup (IF m.id \in {"sni-only", "tls13"} THEN { C("hdr", "", rh[1], "", rh[2]) : rh \in HdrCombos(n) } ELSE {})

\* a corruption that does not change the bytes (len-1 of a zero length, max of ...) is dropped
MkCase(m, c) == [tpl |-> m.id, corr |-> c, bytes |-> Ser(c, m), wf |-> (c.kind = "none" /\ m.wf), wfname |-> m.name]
MCCases == UNION { { MkCase(m, c) : c \in { c \in CorrsOf(m) : c.kind = "none" \/ Ser(c, m) # Full(NoCorr, m) } } : m \in Templates }

\* client configurations for capturing real hellos (the features of the grammar a client can switch)
MCConfigs == { [name |-> nm, vmin |-> v[1], vmax |-> v[2], alpn |-> a, curves |-> cv, tickets |-> tk] :
                 nm \in (IF Level = 1 THEN {"", "a.example", "long", "A.Example"}
                                      ELSE {"", "a.example", "long", "A.Example", "xn--bcher-kva.example", "1.2.3.4", "a.example."}),
                 v \in {<<1, 1>>, <<1, 3>>, <<3, 3>>, <<3, 4>>, <<4, 4>>},
                 a \in {"none", "h2", "long"}, cv \in {"default", "x25519", "pq"}, tk \in {0, 1} }

\* at the glue (SNIProxy): an input whose length overruns its container is never routed
MustNotRoute == out.class = "reject" /\ out.must
CaseJson == [tpl |-> cs.tpl,
             corr |-> [kind |-> cs.corr.kind, f |-> cs.corr.f, i |-> cs.corr.i, how |-> cs.corr.how, at |-> cs.corr.at,
                       f2 |-> cs.corr.f2, i2 |-> cs.corr.i2, how2 |-> cs.corr.how2],
             bytes |-> bytes, wf |-> cs.wf, wfname |-> cs.wfname, route |-> RouteOf(cs.wfname), table |-> RouteTable,
             class |-> out.class, must |-> out.must, mustnotroute |-> MustNotRoute, why |-> out.why, name |-> name, size |-> size, path |-> path]
GenOut == Done => PrintT(ToJson(CaseJson))

\* printed once, from the initial states' evaluation of this ASSUME-like invariant on a marker case
\* log.level of fabio.properties: the glue runs with malformed input are repeated under every level
LogLevels == {"TRACE", "DEBUG", "INFO", "WARN"}
CfgOut == (Done /\ cs.tpl = "noext" /\ cs.wf) => PrintT(ToJson([configs |-> MCConfigs, loglevels |-> LogLevels]))
=============================================================================
