SPECIFICATION TSpec
CONSTANTS
  s1 = s1
  s2 = s2
  s3 = s3
  s4 = s4
  Targets <- MCTargets
  Kind <- MCKind
  Name <- MCName
  Tables <- MCTables
  InitTable <- TAll
  Statuses = {"200", "500"}
  GrpcCodes = {"OK", "Unavailable"}
  Slots <- TraceSlots
  MaxReq = 100000000
  MaxSwaps = 100000000
  LocalCounted = FALSE
  GaugeAtomic = FALSE
  NotfoundCountsTcp = TRUE
  ConnAtAccept = TRUE
  FlushLossy = FALSE
CONSTRAINT HW
INVARIANTS TypeOK TraceAccounted TTimerExact TGrpcExact TTcpPartition TOneTimerEach TOneStatusEach
POSTCONDITION Accepted
CHECK_DEADLOCK FALSE
