---------------------------- MODULE Weights ----------------------------
(***************************************************************************)
(* Traffic split of one route (property C04), transcribed from the         *)
(* property statement and the documentation of `route add ... weight` /    *)
(* `route weight`.                                                         *)
(*                                                                         *)
(* Fixed weights are integer multiples of 1/Unit (Unit = 1 200 000, i.e.   *)
(* 1 ppm = 1.2 units, divisible by 1..4 so that `route weight` can spread  *)
(* a share over up to four targets exactly); 0 = dynamic.  Effective       *)
(* weights are exact rationals [n, d] (module Rational).  All products     *)
(* stay below 2^31 (TLC integers).                                         *)
(*                                                                         *)
(* Part 1: effective weights and slot bounds (operators).                  *)
(* Part 2: `route weight` over services and tags (actions Weigh).          *)
(* Part 3: the weighted ring: a step-by-step transcription of the ring     *)
(*         filling loop with MaxSlots as a small constant, and the round-  *)
(*         robin cursor (actions Target, Probe, Place, Pick).              *)
(***************************************************************************)
EXTENDS Integers, Sequences, FiniteSets, Rational

CONSTANTS Unit,        \* denominator of fixed weights
          WU,          \* fixed weights usable in `route add` (units; 0 = dynamic)
          WC,          \* weights usable in `route weight` commands (units)
          Svc,         \* service names
          TagSets,     \* tag sets a target can carry
          SelTags,     \* tag sets a `route weight` command can select on ({} = none)
          Ops,         \* kinds of commands a history may contain after the first adds: subset of {"weight", "add", "del", "readd"}
          MaxInit,     \* targets added before the first other command
          MaxTargets, MaxCmds,
          MaxSlots     \* ring resolution (10 000 in fabio; small in the ring model)

-----------------------------------------------------------------------------
\* Part 1.  v is a sequence of fixed weights in units.
Max(a, b) == IF a < b THEN b ELSE a
RECURSIVE SumSeq(_, _)
SumSeq(v, i) == IF i = 0 THEN 0 ELSE SumSeq(v, i - 1) + v[i]
SumFixed(v) == SumSeq(v, Len(v))
NFixed(v) == Cardinality({i \in 1..Len(v) : v[i] > 0})

\* fixed weights are honoured as given; scaled down proportionally if they exceed 100 %;
\* scaled up if every target is fixed and they sum to less; the remaining (dynamic) targets
\* share the remainder equally
Eff(v, i) ==
    LET n == Len(v)  nf == NFixed(v)  s == SumFixed(v) IN
    IF nf = 0 THEN Q(1, n)
    ELSE IF s > Unit \/ (nf = n /\ s < Unit)
         THEN Q(v[i], s)                                      \* v[i] = 0 for a dynamic target
         ELSE IF v[i] > 0 THEN Q(v[i], Unit) ELSE Q(Unit - s, Unit * (n - nf))

\* exact addition through the least common denominator (keeps numbers small)
QAddL(a, b) == LET g == GCD(a.d, b.d)
                   l == (a.d \div g) * b.d IN
               Q(a.n * (l \div a.d) + b.n * (l \div b.d), l)
RECURSIVE SumEffTo(_, _)
SumEffTo(v, i) == IF i = 0 THEN QZero ELSE QAddL(SumEffTo(v, i - 1), Eff(v, i))
SumEff(v) == SumEffTo(v, Len(v))

WeightsOK(v) == /\ \A i \in 1..Len(v) : Eff(v, i).n >= 0 /\ Eff(v, i).d > 0
                /\ QEq(SumEff(v), QOne)
\* (rationals built by Q are in lowest terms, so equality of rationals is equality of records)
\* a fixed weight is honoured as given when the fixed weights fit
HonouredAsGiven(v) ==
    SumFixed(v) <= Unit /\ NFixed(v) < Len(v) =>
        \A i \in 1..Len(v) : v[i] > 0 => Eff(v, i) = Q(v[i], Unit)
\* otherwise the fixed weights are scaled proportionally (one common divisor) and sum to one
Proportional(v) ==
    NFixed(v) > 0 /\ (SumFixed(v) > Unit \/ NFixed(v) = Len(v)) =>
        \A i \in 1..Len(v) : Eff(v, i) = Q(v[i], SumFixed(v))
\* dynamic targets share equally
DynamicEqual(v) == \A i, j \in 1..Len(v) : v[i] = 0 /\ v[j] = 0 => Eff(v, i) = Eff(v, j)

\* floor and remainder of m * w for m = m1 * m2, in two steps so that no product overflows
MulFloor(m1, m2, w) ==
    LET a == m1 * w.n  q1 == a \div w.d  r1 == a % w.d
        b == m2 * r1 IN
    [q |-> m2 * q1 + (b \div w.d), r |-> b % w.d]
\* slots on a ring of m = m1 * m2 slots: within one slot of m * w (the implementation works in
\* floating point, hence floor - 1), at least one slot iff w > 0, none iff w = 0
SlotLo(m1, m2, w) == IF w.n = 0 THEN 0 ELSE Max(1, MulFloor(m1, m2, w).q - 1)
SlotHi(m1, m2, w) == IF w.n = 0 THEN 0
                     ELSE LET f == MulFloor(m1, m2, w) IN Max(1, IF f.r = 0 THEN f.q ELSE f.q + 1)
\* does a full cycle of u picks that sends c of them to a target of weight w respect w?
\* either the share is exact (c / u = w) or c is within the slot bounds of the 10 000 ring
ShareOK(c, u, w) == \/ Q(c, u) = w
                    \/ SlotLo(100, 100, w) <= c /\ c <= SlotHi(100, 100, w)

-----------------------------------------------------------------------------
\* Part 2 and 3: state
VARIABLES tg0,     \* the targets as added (`route add ... weight k`); never changes
          tg,      \* the targets of the route: sequence of [svc, tags, k, id]  (k = fixed weight, units; id = its URL)
          tgL,     \* the same route under the "last announced weight wins" reading of a re-announcement (DoReAdd)
          cmds,    \* `route weight` commands applied so far (history, for the generator)
          pc,      \* "cfg" | "target" | "probe" | "place" | "rr" | "done"
          cnt,     \* slots per target
          order,   \* targets sorted by slot count (ascending)
          ring,    \* sequence of target indices, 0 = empty
          oi, k, next, step,   \* locals of the filling loop
          cursor, picks, npicks
vars == <<tg0, tg, tgL, cmds, pc, cnt, order, ring, oi, k, next, step, cursor, picks, npicks>>
ringvars == <<cnt, order, ring, oi, k, next, step, cursor, picks, npicks>>

Vec(t) == [i \in 1..Len(t) |-> t[i].k]

\* route weight [<svc>] <src> weight <w> [tags "..."]: w is the share of ALL selected targets
\* together; "w <= 0 means no fixed weighting" (the selected targets become dynamic again);
\* selecting nothing changes nothing.  The command replaces whatever fixed weight the selected
\* targets had: the split after a script is the split of the LAST configuration.
Selected(t, s, sel) == {i \in 1..Len(t) : (s = "" \/ t[i].svc = s) /\ sel \subseteq t[i].tags}
Share(w, n) == IF w <= 0 THEN 0 ELSE w \div n
Weigh(t, s, sel, w) ==
    LET m == Selected(t, s, sel) IN
    IF m = {} THEN t
    ELSE [i \in 1..Len(t) |-> IF i \in m THEN [t[i] EXCEPT !.k = Share(w, Cardinality(m))] ELSE t[i]]
WeighCmds == {c \in [svc : Svc \cup {""}, sel : SelTags, w : WC] : c.svc # "" \/ c.sel # {}}
ASSUME \A w \in WC, n \in 1..MaxTargets : w > 0 => w % n = 0     \* shares divide exactly

\* route del <svc> <src>  /  route del [<svc>] tags "...": the selected targets leave the route,
\* the others keep their order.  route add ...: a further target joins at the end.
\* The traffic split is a function of the targets the route HAS (Eff(Vec(tg), i)), whatever
\* history of add / del / weight commands produced them.
RECURSIVE Without(_, _, _)
Without(t, m, i) == IF i > Len(t) THEN <<>> ELSE (IF i \in m THEN <<>> ELSE <<t[i]>>) \o Without(t, m, i + 1)
Del(t, s, sel) == Without(t, Selected(t, s, sel), 1)
DelCmds == {c \in [svc : Svc \cup {""}, sel : SelTags] : c.svc # "" \/ c.sel # {}}

\* an instance is a service at a URL with its tags; id stands for the URL: the i-th `route add`
\* line of a script names URL i (NextId), only a re-announcement (DoReAdd) names a URL again
Targets == [svc : Svc, tags : TagSets, k : WU]
WithId(t, i) == [svc |-> t.svc, tags |-> t.tags, k |-> t.k, id |-> i]
InitTargets == UNION {{[i \in 1..n |-> WithId(f[i], i)] : f \in [1..n -> Targets]} : n \in 1..MaxInit}
NextId == Len(tg0) + Cardinality({j \in 1..Len(cmds) : cmds[j].op = "add"}) + 1
SameInstance(a, b) == a.svc = b.svc /\ a.id = b.id /\ a.tags = b.tags
ASSUME MaxInit <= MaxTargets

ResetRing == /\ cnt = <<>> /\ order = <<>> /\ ring = <<>> /\ oi = 0 /\ k = 0 /\ next = 0 /\ step = 0
             /\ cursor = 0 /\ picks = <<>> /\ npicks = 0
Init == tg \in InitTargets /\ tg0 = tg /\ tgL = tg /\ cmds = <<>> /\ pc = "cfg" /\ ResetRing

\* a command of the history, as logged: [op, svc, sel (tags of an added target), w (its fixed weight),
\* id (URL of an added / re-announced target, 0 otherwise)]
DoWeigh(c) == /\ "weight" \in Ops /\ pc = "cfg" /\ Len(cmds) < MaxCmds
              /\ tg' = Weigh(tg, c.svc, c.sel, c.w) /\ tgL' = Weigh(tgL, c.svc, c.sel, c.w)
              /\ cmds' = Append(cmds, [op |-> "weight", svc |-> c.svc, sel |-> c.sel, w |-> c.w, id |-> 0])
              /\ UNCHANGED <<tg0, pc, ringvars>>
DoAdd(t) == /\ "add" \in Ops /\ pc = "cfg" /\ Len(cmds) < MaxCmds /\ Len(tg) < MaxTargets
            /\ tg' = Append(tg, WithId(t, NextId)) /\ tgL' = Append(tgL, WithId(t, NextId))
            /\ cmds' = Append(cmds, [op |-> "add", svc |-> t.svc, sel |-> t.tags, w |-> t.k, id |-> NextId])
            /\ UNCHANGED <<tg0, pc, ringvars>>
DoDel(c) == /\ "del" \in Ops /\ pc = "cfg" /\ Len(cmds) < MaxCmds
            /\ tg' = Del(tg, c.svc, c.sel) /\ tgL' = Del(tgL, c.svc, c.sel)
            /\ cmds' = Append(cmds, [op |-> "del", svc |-> c.svc, sel |-> c.sel, w |-> 0, id |-> 0])
            /\ UNCHANGED <<tg0, pc, ringvars>>
\* route add for an instance the route already has (same service, URL, tags), with the fixed
\* weight w: the instance is announced AGAIN (registry entry plus manual override, a service
\* that changes its weight, dynamic -> fixed, fixed -> dynamic).  With the weight it already
\* has, nothing changes (add is idempotent).  With another weight the route language counts the
\* fixed weight as part of a target's identity (RouteLang!SameTarget): a further entry joins
\* the route (tg).  The property C04 does not choose between that and "the last announced
\* weight replaces the old one" (tgL; which of the two the route does is C05's business) - it
\* demands that, whichever targets the route has afterwards, the split is the one THEIR fixed
\* weights prescribe: Eff(Vec(tg), i) resp. Eff(Vec(tgL), i).  A re-announcement is never
\* allowed to leave the split of the earlier weights behind.
ReAnnounce(t, i, w) == LET x == [t[i] EXCEPT !.k = w] IN
                       IF \E j \in 1..Len(t) : t[j] = x THEN t ELSE Append(t, x)
LastWins(t, x, w) == [j \in 1..Len(t) |-> IF SameInstance(t[j], x) THEN [t[j] EXCEPT !.k = w] ELSE t[j]]
DoReAdd(i, w) == /\ "readd" \in Ops /\ pc = "cfg" /\ Len(cmds) < MaxCmds /\ Len(tg) < MaxTargets
                 /\ i \in 1..Len(tg)
                 /\ tg' = ReAnnounce(tg, i, w) /\ tgL' = LastWins(tgL, tg[i], w)
                 /\ cmds' = Append(cmds, [op |-> "readd", svc |-> tg[i].svc, sel |-> tg[i].tags, w |-> w, id |-> tg[i].id])
                 /\ UNCHANGED <<tg0, pc, ringvars>>

-----------------------------------------------------------------------------
\* Part 3.  Slot counts on a ring of MaxSlots: floor(MaxSlots * w), at least 1 for w > 0.
SlotsOf(v, i) == LET w == Eff(v, i)
                     f == (MaxSlots * w.n) \div w.d IN
                 IF w.n > 0 /\ f = 0 THEN 1 ELSE f
SortedPerms(c) == {p \in [1..Len(c) -> 1..Len(c)] :
                     /\ \A i, j \in 1..Len(c) : i # j => p[i] # p[j]
                     /\ \A i, j \in 1..Len(c) : i < j => c[p[i]] <= c[p[j]]}
Used == SumSeq(cnt, Len(cnt))
\* only cursor mod ring size matters; a few representative positions
CursorStarts(u) == {0, 1, u \div 2, u - 1} \cap (0..(u - 1))

\* weighTargets: without fixed weights the ring is the target list itself; otherwise count the
\* slots, sort by count (ties in any order) and allocate an empty ring
Build ==
    /\ pc = "cfg"
    /\ LET v == Vec(tg) IN
       IF NFixed(v) = 0
       THEN /\ cnt' = [i \in 1..Len(v) |-> 1]
            /\ ring' = [i \in 1..Len(v) |-> i]
            /\ order' = [i \in 1..Len(v) |-> i]
            /\ pc' = "rr"
            /\ cursor' \in CursorStarts(Len(v))
            /\ UNCHANGED <<oi, k, next, step>>
       ELSE /\ cnt' = [i \in 1..Len(v) |-> SlotsOf(v, i)]
            /\ order' \in SortedPerms(cnt')
            /\ ring' = [i \in 1..SumSeq(cnt', Len(v)) |-> 0]
            /\ oi' = 1 /\ pc' = "target"
            /\ UNCHANGED <<k, next, step, cursor>>
    /\ UNCHANGED <<tg0, tg, tgL, cmds, picks, npicks>>

\* for _, s := range slots { if s.n <= 0 { continue }; next, step := 0, usedSlots/s.n; ...
Target ==
    /\ pc = "target"
    /\ IF oi > Len(order)
       THEN /\ pc' = "rr" /\ cursor' \in CursorStarts(Used) /\ UNCHANGED <<oi, k, next, step>>
       ELSE IF cnt[order[oi]] = 0
            THEN /\ oi' = oi + 1 /\ UNCHANGED <<pc, k, next, step, cursor>>
            ELSE /\ next' = 0 /\ step' = Used \div cnt[order[oi]] /\ k' = 0 /\ pc' = "probe"
                 /\ UNCHANGED <<oi, cursor>>
    /\ UNCHANGED <<tg0, tg, tgL, cmds, cnt, order, ring, picks, npicks>>
\* for k := 0; k < s.n; k++ { for targets[next] != nil { next = (next + 1) % usedSlots } ...
Probe ==
    /\ pc = "probe"
    /\ IF k = cnt[order[oi]]
       THEN /\ oi' = oi + 1 /\ pc' = "target" /\ UNCHANGED next
       ELSE IF ring[next + 1] # 0
            THEN /\ next' = (next + 1) % Used /\ UNCHANGED <<oi, pc>>
            ELSE /\ pc' = "place" /\ UNCHANGED <<oi, next>>
    /\ UNCHANGED <<tg0, tg, tgL, cmds, cnt, order, ring, k, step, cursor, picks, npicks>>
\* targets[next] = r.Targets[s.i]; next = (next + step) % usedSlots }
Place ==
    /\ pc = "place"
    /\ ring' = [ring EXCEPT ![next + 1] = order[oi]]
    /\ next' = (next + step) % Used
    /\ k' = k + 1
    /\ pc' = "probe"
    /\ UNCHANGED <<tg0, tg, tgL, cmds, cnt, order, oi, step, cursor, picks, npicks>>

\* round robin: the pick is the slot under the cursor, the cursor advances by one.  One full
\* cycle (Used picks) is observed from an arbitrary cursor position.
Pick ==
    /\ pc = "rr"
    /\ IF npicks = Used
       THEN /\ pc' = "done" /\ UNCHANGED <<cursor, picks, npicks>>
       ELSE /\ picks' = Append(picks, ring[(cursor % Used) + 1])
            /\ cursor' = cursor + 1
            /\ npicks' = npicks + 1
            /\ UNCHANGED pc
    /\ UNCHANGED <<tg0, tg, tgL, cmds, cnt, order, ring, oi, k, next, step>>
Done == pc = "done" /\ UNCHANGED vars

Next == (\E c \in WeighCmds : DoWeigh(c)) \/ Build \/ Target \/ Probe \/ Place \/ Pick \/ Done
Spec == Init /\ [][Next]_vars /\ WF_vars(Next)
\* the configuration part alone (route add / route weight, no ring)
CfgNext == \/ (\E c \in WeighCmds : DoWeigh(c)) \/ (\E t \in Targets : DoAdd(t)) \/ (\E c \in DelCmds : DoDel(c))
           \/ (\E i \in 1..MaxTargets, w \in WU : DoReAdd(i, w))
CfgSpec == Init /\ [][CfgNext]_vars

-----------------------------------------------------------------------------
\* properties
CountIn(q, x) == Cardinality({i \in 1..Len(q) : q[i] = x})

\* every weight vector reachable through add / weight commands has non-negative weights that sum to one
VecOK(v) == WeightsOK(v) /\ HonouredAsGiven(v) /\ Proportional(v) /\ DynamicEqual(v)
WeightInv == (tg # <<>> => VecOK(Vec(tg))) /\ (tgL # <<>> => VecOK(Vec(tgL)))
\* the two readings of a re-announcement: every instance has exactly one entry under "last wins"
\* and at least one under "further entry"; they have the same instances in the same order of
\* first appearance, and coincide as long as nothing was re-announced with another weight
ReAddInv == /\ \A i, j \in 1..Len(tgL) : SameInstance(tgL[i], tgL[j]) => i = j
            /\ \A i \in 1..Len(tg) : \E j \in 1..Len(tgL) : SameInstance(tg[i], tgL[j])
            /\ \A j \in 1..Len(tgL) : \E i \in 1..Len(tg) : SameInstance(tg[i], tgL[j])
            /\ Len(tgL) <= Len(tg)
            /\ (\A j \in 1..Len(cmds) : cmds[j].op # "readd") => tgL = tg
\* `route del` removes exactly the selected targets and keeps the order of the others
DelInv == \A c \in DelCmds :
            LET t2 == Del(tg, c.svc, c.sel)  m == Selected(tg, c.svc, c.sel) IN
            /\ Len(t2) + Cardinality(m) = Len(tg)
            /\ Selected(t2, c.svc, c.sel) = {}
            /\ \A i, j \in 1..Len(tg) : (i < j /\ i \notin m /\ j \notin m) =>
                    \E a, b \in 1..Len(t2) : a < b /\ t2[a] = tg[i] /\ t2[b] = tg[j]
\* `route weight` gives the selected targets together the share w and touches nothing else
WeighInv == \A c \in WeighCmds :
              LET t2 == Weigh(tg, c.svc, c.sel, c.w)  m == Selected(tg, c.svc, c.sel) IN
              /\ Len(t2) = Len(tg)
              /\ \A i \in 1..Len(tg) : i \notin m => t2[i] = tg[i]
              /\ \A i \in m : /\ t2[i].svc = tg[i].svc /\ t2[i].tags = tg[i].tags
                             /\ IF c.w > 0 THEN t2[i].k * Cardinality(m) = c.w ELSE t2[i].k = 0
\* slot counts respect the weights (on the model's small ring, exact arithmetic)
SlotInv == pc # "cfg" /\ NFixed(Vec(tg)) > 0 =>
             \A i \in 1..Len(tg) :
               LET w == Eff(Vec(tg), i)
                   f == [q |-> (MaxSlots * w.n) \div w.d, r |-> (MaxSlots * w.n) % w.d] IN
               /\ (w.n = 0 <=> cnt[i] = 0)
               /\ w.n > 0 => cnt[i] >= 1 /\ cnt[i] >= f.q - 1 /\ cnt[i] <= Max(1, IF f.r = 0 THEN f.q ELSE f.q + 1)
\* the filling loop never writes a used slot and stays inside the ring
FillInv == /\ pc = "place" => ring[next + 1] = 0
           /\ pc \in {"probe", "place"} => next \in 0..(Used - 1) /\ k <= cnt[order[oi]]
\* when the ring is complete: no empty slot, exactly cnt[i] slots of target i
RingInv == pc \in {"rr", "done"} =>
             /\ Len(ring) = Used /\ Used >= 1
             /\ \A j \in 1..Len(ring) : ring[j] \in 1..Len(tg)
             /\ \A i \in 1..Len(tg) : CountIn(ring, i) = cnt[i]
\* one full cycle from any cursor position sends target i exactly cnt[i] requests; a target
\* without weight is never picked, one with weight is never starved
CycleInv == pc = "done" =>
              /\ Len(picks) = Used
              /\ \A i \in 1..Len(tg) : CountIn(picks, i) = cnt[i]
              /\ \A i \in 1..Len(tg) : (Eff(Vec(tg), i).n = 0) <=> (CountIn(picks, i) = 0)
\* the loop terminates
Terminates == <>(pc = "done")
=============================================================================
