SPECIFICATION TSpec
CONSTANTS
  c1 = c1
  c2 = c2
  c3 = c3
  Clients <- TraceClients
  RoClients <- TraceRo
  Paths <- TracePaths
  PathOrder <- TraceOrder
  Values = {}
  NrValues = {}
  MaxOps = 100000000
  MaxExt = 100000000
  MaxNr = 100000000
  MaxReq = 100000000
  WatchMan = TRUE
  WatchNr = TRUE
  CreateIgnoresVersion = TRUE
  RoRefusesReads = TRUE
  AbsentIsZero = FALSE
CONSTRAINT HW
INVARIANTS TTypeOK RoNeverMutates ManualApplied NoRouteHtmlCurrent
PROPERTIES NoLostUpdateExisting ConflictOnlyIfStale FailedWriteChangesNothing ReadCurrent ManualMonotone NoRouteMonotone
POSTCONDITION Accepted
CHECK_DEADLOCK FALSE
