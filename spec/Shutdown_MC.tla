---------------------------- MODULE Shutdown_MC ----------------------------
(* Bounded universes for Shutdown and the scenario generator: one JSON line per examined   *)
(* Return transition: the configuration, when each work item was accepted, when shutdown   *)
(* started, and what became of each item in the design.                                    *)
EXTENDS Shutdown, Json, TLC

\* "tcp+tls" is a tcp listener that terminates TLS itself (proto=tcp with a certificate source)
MCKindOrder == <<"http", "https", "tcp", "tcp+sni", "grpc", "https+tcp+sni", "tcp+tls">>
\* the design treats all kinds alike (only the deviation singles out grpc): configurations of three
\* listeners are explored over four kinds, which covers every 3-subset of the six up to renaming
MCKindOrder4 == <<"http", "tcp", "grpc", "https+tcp+sni">>
\* listeners that share their port with another listener of the configuration, on another local address
MCKindOrderTwins == <<"http", "tcp", "grpc", "http~2", "tcp~2", "grpc~2", "tcp+sni~2">>
MCTunnelKinds == {"tcp", "tcp+sni", "https+tcp+sni", "tcp+tls", "tcp~2", "tcp+sni~2", "tcp-dyn"}
MCGrpcKinds == {"grpc", "grpc~2"}
\* servers that proxy.serve starts in two steps the harness can take apart (not the tcpproxy-based one)
MCNoKinds == {}
\* servers the harness can hand a listener that fails on command (everything proxy.serve starts in one step)
MCFailKinds == {"http", "https", "tcp", "tcp+sni", "grpc", "tcp+tls"}
\* "tcp-dyn" is a proto=tcp-dynamic listener with a certificate source: TLS is terminated on the dynamic port,
\* and the listener is closed when the route of its port goes
MCKindOrderDyn == <<"http", "tcp", "grpc", "tcp-dyn">>
MCDynKinds == {"tcp-dyn"}
MCKindOrderDynApi == <<"http", "grpc", "https+tcp+sni", "tcp+tls">>
MCDynKindsApi == {"https+tcp+sni", "tcp+tls"}
\* "reset": a tunnel whose client connection was reset while the upstream keeps its side open (never ends)
MCDurOrderDyn == <<"short", "inf", "reset">>
MCLateKinds == {"http", "https", "tcp", "tcp+sni", "grpc", "tcp+tls"}
MCDurOrder == <<"short", "long", "inf", "mute">>
\* work that ends just within the wait, and connections that never get as far as a request: the client
\* connected and sends nothing, or stops in the middle of its TLS ClientHello
\* stall0: nothing sent; stall1: part of the first protocol message (HTTP/2 preface, TLS ClientHello, HTTP
\* request head); stall2: the first message complete, then silence (preface without SETTINGS, ClientHello
\* without the rest of the handshake, request head without its body)
MCDurOrderEdge == <<"short", "edge", "stall0", "stall1", "stall2">>
\* short < edge < W < long; inf never ends; mute never ends either (half-closed tunnel, silent upstream);
\* stall never ends
MCDur == [d \in {"short", "edge", "long", "inf", "mute", "stall0", "stall1", "stall2", "reset"} |->
             CASE d = "short" -> 1 [] d = "edge" -> W - 1 [] d = "long" -> W + 2 [] OTHER -> -1]

ItemJson(it) == [srv |-> it.srv, dur |-> it.dur, at |-> it.at, st |-> it.st]
Scenario == [kinds |-> kinds, tstart |-> tstart, tret |-> clock, w |-> W, late |-> late, removed |-> removed, signals |-> signals,
             failed |-> failed, tsig |-> tsig,
             items |-> [i \in DOMAIN items |-> ItemJson(items[i])]]

GenNext == /\ Next
           /\ IF phase = "shutting" /\ phase' = "returned" THEN PrintT(ToJson(Scenario)) ELSE TRUE
GenSpec == Init /\ [][GenNext]_vars
=============================================================================
