SPECIFICATION Spec
CONSTANT MaxChecks = 3
INVARIANT Monotone
CHECK_DEADLOCK FALSE
