---------------------------- MODULE ClientHello ----------------------------
(***************************************************************************)
(* Extraction of the server name from the first bytes of a TLS connection, *)
(* transcribed from the wire grammar (RFC 5246 6.2.1 / 7.4.1.2, RFC 8446   *)
(* 4.1.2, RFC 6066 3) and the statement of property C10:                   *)
(*   - for every well-formed ClientHello the extracted name is the first   *)
(*     host_name of the server_name extension, "" when there is none;      *)
(*   - what is buffered before routing never exceeds the first TLS record; *)
(*   - no input, however malformed or truncated, is read out of bounds;    *)
(*     it is rejected instead.                                             *)
(*                                                                         *)
(* The input is a byte sequence (a structured message serialised by        *)
(* ClientHello_MC, possibly corrupted).  The extractor is a state machine  *)
(* with ONE ACTION PER LENGTH CHECK, in two stages like the SNI proxy:     *)
(* the size function over the first 9 bytes (record header + handshake     *)
(* header), then the walk over the handshake message.  Every failing check *)
(* is classified:                                                          *)
(*   must   - the declared length runs past its container / the available  *)
(*            bytes: continuing would read out of bounds, so every         *)
(*            conforming extractor rejects;                                *)
(*   strict - the grammar is violated without any overrun (wrong type,     *)
(*            odd cipher list, session id > 32, trailing bytes): the       *)
(*            statement does not say what an extractor must do here.       *)
(***************************************************************************)
EXTENDS Integers, Sequences

CONSTANTS Cases        \* set of [tpl, corr, bytes, wf, wfname]; see ClientHello_MC

VARIABLES cs,          \* the case
          pc, p,       \* walker: program counter, offset of the next unread byte (0-based)
          msgEnd,      \* end of the handshake message = size of the buffer the proxy reads
          xEnd,        \* end of the extension being walked
          size,        \* result of the size function (-1: none)
          name,        \* extracted host name (byte sequence)
          out,         \* [class, must, why]
          path         \* the checks passed, in order (identifies the parser path)
vars == <<cs, pc, p, msgEnd, xEnd, size, name, out, path>>

bytes == cs.bytes
Avail == Len(bytes)
B(i) == bytes[i + 1]
U16at(i) == B(i) * 256 + B(i + 1)
U24at(i) == B(i) * 65536 + B(i + 1) * 256 + B(i + 2)

MaxRecord == 16384
None == [class |-> "none", must |-> FALSE, why |-> ""]

Init == /\ cs \in Cases
        /\ pc = "need9" /\ p = 0 /\ msgEnd = 0 /\ xEnd = 0 /\ size = -1
        /\ name = <<>> /\ out = None /\ path = <<>>

Reject(why, must) == /\ out' = [class |-> "reject", must |-> must, why |-> why]
                     /\ pc' = "done"
                     /\ path' = Append(path, why)
                     /\ UNCHANGED <<cs, p, msgEnd, xEnd, size, name>>
Accept == /\ out' = [class |-> "accept", must |-> FALSE, why |-> ""]
          /\ pc' = "done"
          /\ path' = Append(path, "accept")
          /\ UNCHANGED <<cs, p, msgEnd, xEnd, size, name>>
Go(next, np) == /\ pc' = next /\ p' = np /\ path' = Append(path, pc)
                /\ UNCHANGED <<cs, out>>

-----------------------------------------------------------------------------
\* stage 1: the size function over the first 9 bytes
Need9 == /\ pc = "need9"
         /\ IF Avail < 9 THEN Reject("short-header", TRUE)
            ELSE Go("rectype", 0) /\ UNCHANGED <<msgEnd, xEnd, size, name>>

RecType == /\ pc = "rectype"
           /\ IF B(0) # 22 THEN Reject("rec-type", FALSE)
              ELSE Go("reclen", 0) /\ UNCHANGED <<msgEnd, xEnd, size, name>>

RecLen == /\ pc = "reclen"
          /\ IF U16at(3) = 0 \/ U16at(3) > MaxRecord THEN Reject("rec-len", FALSE)
             ELSE Go("hstype", 0) /\ UNCHANGED <<msgEnd, xEnd, size, name>>

HsType == /\ pc = "hstype"
          /\ IF B(5) # 1 THEN Reject("hs-type", FALSE)
             ELSE Go("hslen", 0) /\ UNCHANGED <<msgEnd, xEnd, size, name>>

\* the hello must lie completely inside the first record (no fragmentation)
HsLen == /\ pc = "hslen"
         /\ IF U24at(6) = 0 \/ U24at(6) > U16at(3) - 4 THEN Reject("hs-len", FALSE)
            ELSE /\ Go("readfull", 0)
                 /\ size' = U24at(6) + 9
                 /\ UNCHANGED <<msgEnd, xEnd, name>>

\* the proxy reads exactly `size` bytes; fewer are available => nothing to parse
ReadFull == /\ pc = "readfull"
            /\ IF Avail < size THEN Reject("truncated", TRUE)
               ELSE Go("fixed", 9) /\ msgEnd' = size /\ UNCHANGED <<xEnd, size, name>>

-----------------------------------------------------------------------------
\* stage 2: the walk over the handshake message bytes[5 .. msgEnd)
\* client_version(2) random(32) session_id length(1)
Fixed == /\ pc = "fixed"
         /\ IF p + 35 > msgEnd THEN Reject("fixed-short", TRUE)
            ELSE Go("sid", p + 35) /\ UNCHANGED <<msgEnd, xEnd, size, name>>

Sid == /\ pc = "sid"
       /\ LET sl == B(p - 1) IN
          IF sl > 32 THEN Reject("sid-range", FALSE)
          ELSE IF p + sl > msgEnd THEN Reject("sid-overflow", TRUE)
          ELSE Go("cslen", p + sl) /\ UNCHANGED <<msgEnd, xEnd, size, name>>

CsLen == /\ pc = "cslen"
         /\ IF p + 2 > msgEnd THEN Reject("cs-short", TRUE)
            ELSE LET cl == U16at(p) IN
                 IF cl % 2 = 1 THEN Reject("cs-odd", FALSE)
                 ELSE IF p + 2 + cl > msgEnd THEN Reject("cs-overflow", TRUE)
                 ELSE Go("cmlen", p + 2 + cl) /\ UNCHANGED <<msgEnd, xEnd, size, name>>

CmLen == /\ pc = "cmlen"
         /\ IF p + 1 > msgEnd THEN Reject("cm-short", TRUE)
            ELSE IF p + 1 + B(p) > msgEnd THEN Reject("cm-overflow", TRUE)
            ELSE Go("extopt", p + 1 + B(p)) /\ UNCHANGED <<msgEnd, xEnd, size, name>>

\* a ClientHello may end here (no extensions at all)
ExtOpt == /\ pc = "extopt"
          /\ IF p = msgEnd THEN Accept
             ELSE Go("extlen", p) /\ UNCHANGED <<msgEnd, xEnd, size, name>>

ExtLen == /\ pc = "extlen"
          /\ IF p + 2 > msgEnd THEN Reject("exts-short", TRUE)
             ELSE LET el == U16at(p) IN
                  IF p + 2 + el > msgEnd THEN Reject("exts-overflow", TRUE)
                  ELSE IF p + 2 + el < msgEnd THEN Reject("exts-trailing", FALSE)
                  ELSE Go("exthdr", p + 2) /\ UNCHANGED <<msgEnd, xEnd, size, name>>

ExtHdr == /\ pc = "exthdr"
          /\ IF p = msgEnd THEN Accept
             ELSE IF p + 4 > msgEnd THEN Reject("ext-short", TRUE)
             ELSE LET xt == U16at(p)  xl == U16at(p + 2) IN
                  IF p + 4 + xl > msgEnd THEN Reject("ext-overflow", TRUE)
                  ELSE IF xt = 0 /\ xEnd # 0 THEN Reject("sni-duplicate", FALSE)     \* at most one extension of a type
                  ELSE IF xt = 0
                       THEN Go("snlist", p + 4) /\ xEnd' = p + 4 + xl /\ UNCHANGED <<msgEnd, size, name>>
                       ELSE Go("exthdr", p + 4 + xl) /\ UNCHANGED <<msgEnd, xEnd, size, name>>

\* server_name extension: ServerNameList = length(2) entries
SnList == /\ pc = "snlist"
          /\ IF p + 2 > xEnd THEN Reject("snlist-short", TRUE)
             ELSE LET nl == U16at(p) IN
                  IF p + 2 + nl > xEnd THEN Reject("snlist-overflow", TRUE)
                  ELSE IF p + 2 + nl < xEnd THEN Reject("snlist-trailing", FALSE)
                  ELSE Go("snentry", p + 2) /\ UNCHANGED <<msgEnd, xEnd, size, name>>

\* entry = name_type(1) length(2) name; the first host_name (type 0) is the answer
SnEntry == /\ pc = "snentry"
           /\ IF p = xEnd THEN Go("exthdr", p) /\ UNCHANGED <<msgEnd, xEnd, size, name>>
              ELSE IF p + 3 > xEnd THEN Reject("name-short", TRUE)
              ELSE LET nt == B(p)  nl == U16at(p + 1) IN
                   IF p + 3 + nl > xEnd THEN Reject("name-overflow", TRUE)
                   ELSE IF nt = 0
                        THEN /\ Go("exthdr", xEnd)
                             /\ name' = SubSeq(bytes, p + 4, p + 3 + nl)
                             /\ UNCHANGED <<msgEnd, xEnd, size>>
                        ELSE Go("snentry", p + 3 + nl) /\ UNCHANGED <<msgEnd, xEnd, size, name>>

Done == pc = "done"
Next == \/ Need9 \/ RecType \/ RecLen \/ HsType \/ HsLen \/ ReadFull
        \/ Fixed \/ Sid \/ CsLen \/ CmLen \/ ExtOpt \/ ExtLen \/ ExtHdr \/ SnList \/ SnEntry
        \/ (Done /\ UNCHANGED vars)
Spec == Init /\ [][Next]_vars

-----------------------------------------------------------------------------
\* properties of the extractor (C10) decided on the model
\* what is buffered never exceeds the first TLS record
SizeBound == size # -1 => size <= 5 + U16at(3)
\* serialise-then-extract is the identity on well-formed messages: first host_name, or ""
WellFormedAccepted == (Done /\ cs.wf) => /\ out.class = "accept"
                                          /\ name = cs.wfname
                                          /\ size = Avail
\* every proper prefix of a hello is rejected, and for the reason that bytes are missing
PrefixRejected == (Done /\ cs.corr.kind = "trunc") => out.class = "reject" /\ out.must
\* nothing is ever accepted that the walker did not read completely inside the buffer
InBounds == /\ p <= Avail /\ (pc \notin {"need9", "rectype", "reclen", "hstype", "hslen", "readfull", "done"} => p <= msgEnd)
            /\ msgEnd <= Avail
=============================================================================
