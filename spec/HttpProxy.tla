---------------------------- MODULE HttpProxy ----------------------------
(***************************************************************************)
(* One HTTP request's way through fabio's data plane, as a state machine,  *)
(* transcribed from the statements of properties C07 (pass-through         *)
(* fidelity), C08 (forwarding headers) and C13 (redirect routes) and from  *)
(* fabio's documentation (docs/content/feature/http-*.md, cfg/_index.md).  *)
(*                                                                         *)
(*   ChooseOuter, ChooseCase   pick the request / route / configuration    *)
(*   Lookup | NextHost | NoRoute   walk the matching hosts, most specific  *)
(*                             first; a redirect pointing back at the      *)
(*                             request itself is passed over               *)
(*   Deny                      access rule refuses the request (C12's)     *)
(*   Redirect                  redirect route: answer 3xx + Location       *)
(*   BuildTarget               strip / prepend / query merge / host option *)
(*   AddHeaders                the headers fabio manages                   *)
(*   Forward                   the upstream is contacted                   *)
(*   Respond                   the upstream's answer goes to the client    *)
(*                                                                         *)
(* Everything is abstract: a path is a sequence of tokens ("/", literal    *)
(* text, percent escapes such as "%2F"), a query a sequence of parameters, *)
(* header values are tokens ("peer", "v1", ...).  Turning tokens into bytes *)
(* is the harness's job; what the upstream must receive and the client     *)
(* must see is decided here.                                               *)
(***************************************************************************)
EXTENDS Integers, Sequences, FiniteSets

CONSTANTS
    Outer,          \* first level of the choice of a case (any set)
    Inner(_),       \* Inner(o): the set of complete case records for outer choice o
    Escapes,        \* the path tokens that are percent escapes
    Encoded,        \* function: text that cannot stand in a path as it is |-> the escape it is written as ("^" |-> "%5E")
    Faulty,         \* the upstream answer scripts in which the upstream dies before its answer is complete
    Decoded         \* function: escape, in any spelling a client may use |-> the text it stands for ("%5e" |-> "^")

VARIABLES
    pc,     \* where the request is in the pipeline
    sel,    \* outer choice
    c,      \* the case: request, candidate routes, proxy configuration (record, see HttpProxy_MC)
    i,      \* index of the candidate route under examination
    route,  \* the route the lookup settled on
    up,     \* the request the upstream is to receive
    hits,   \* number of times an upstream was contacted
    out,    \* what the client is to receive
    env     \* the no-route page: [page: the page configured now, seen: every page that was configured at some
            \* moment since the request arrived, k: the next registry operation of c.pagehist]
vars == <<pc, sel, c, i, route, up, hits, out, env>>

-----------------------------------------------------------------------------
\* sequences
IsPrefix(p, s) == Len(p) <= Len(s) /\ SubSeq(s, 1, Len(p)) = p
Drop(s, n)     == SubSeq(s, n + 1, Len(s))
Last(s)        == s[Len(s)]
Abs(p)         == IF p # <<>> /\ p[1] = "/" THEN p ELSE <<"/">> \o p      \* "always leaving an absolute path"
EscapesOf(p)   == LET F[k \in 0..Len(p)] == IF k = 0 THEN <<>>
                                            ELSE IF p[k] \in Escapes THEN Append(F[k-1], p[k]) ELSE F[k-1]
                  IN F[Len(p)]

\* the text of a route option (strip=, prepend=) is plain text; on the wire and in the client's request the
\* characters that cannot stand in a path appear percent-encoded
Wire(t)        == IF t \in DOMAIN Encoded THEN Encoded[t] ELSE t
WireSeq(p)     == [k \in DOMAIN p |-> Wire(p[k])]
Dec(t)         == IF t \in DOMAIN Decoded THEN Decoded[t] ELSE t
\* p (option text) is a prefix of the raw path s, however the client spelled it
IsPrefixDec(p, s) == Len(p) <= Len(s) /\ \A k \in DOMAIN p : Dec(s[k]) = p[k]

\* placeholders of the right shape for "nothing yet"
NoRouteRec == [src |-> <<>>, strip |-> <<>>, prepend |-> <<>>, hostopt |-> "", tquery |-> <<>>,
               code |-> [txt |-> "", num |-> 0],
               tpl |-> [scheme |-> "", host |-> "", pre |-> <<>>, var |-> FALSE, slash |-> FALSE, query |-> <<>>],
               admitted |-> TRUE,
               ghost |-> FALSE,        \* the route's host is a pattern that several request hosts match
               dead |-> FALSE,         \* the route's only instance refuses connections
               hostform |-> ""]        \* how the route's host is written: "" (the request's host), "port80" (with :80),
                                       \* "none" (a route without a host: matches whatever host is asked for)
NoHdr  == [mode |-> "none", vals |-> <<>>]
NoManaged == [clientip |-> NoHdr, xff |-> NoHdr, xrealip |-> NoHdr, tlshdr |-> NoHdr,
              xfproto |-> NoHdr, forwarded |-> NoHdr, xfport |-> NoHdr, xfhost |-> NoHdr]
NoUp   == [method |-> "", path |-> <<>>, query |-> <<>>, host |-> "", managed |-> NoManaged]
NoLoc  == [scheme |-> "", host |-> "", path |-> <<>>, qmode |-> "", query |-> <<>>]
NoOut  == [kind |-> "", status |-> 0, page |-> "", pages |-> <<>>, loc |-> NoLoc, resp |-> "", sts |-> NoHdr, cut |-> FALSE]
AllPages == <<"", "page", "page2">>     \* no page, a page, a longer page

-----------------------------------------------------------------------------
\* C07: what BuildTarget makes of the request
\*   the path is rewritten only by strip and prepend, prepending after stripping, percent escapes
\*   stay as the client wrote them, the result is an absolute path;
\*   the route's own query goes in front of the request's; Host only changes when the route says so.
StripApplies(r, raw) == r.strip # <<>> /\ IsPrefixDec(r.strip, raw)
AfterStrip(r, raw)   == IF StripApplies(r, raw) THEN Abs(Drop(raw, Len(r.strip))) ELSE raw
AfterPrepend(r, p)   == IF r.prepend # <<>> THEN Abs(WireSeq(r.prepend) \o p) ELSE p
UpstreamPath(r, raw) == AfterPrepend(r, AfterStrip(r, raw))
UpstreamQuery(r, q)  == r.tquery \o q                  \* parameters; written "t&q" on the wire
UpstreamHost(r)      == IF r.hostopt = "" THEN "req"   \* the Host the client asked for
                        ELSE r.hostopt                 \* "dst": the upstream's address, else the given name

-----------------------------------------------------------------------------
\* C13: redirect routes
IsRedirect(r) == r.code.num >= 300 /\ r.code.num <= 399   \* any other redirect= value: an ordinary route
\* $path: the request's path after the route's strip and prepend
RedirPath(r, raw) == WireSeq(r.prepend) \o (IF StripApplies(r, raw) THEN Drop(raw, Len(r.strip)) ELSE raw)
\* ".../$path" and "...$path" both join without doubling the slash
JoinTpl(t, p) == IF t.slash /\ ~(p # <<>> /\ p[1] = "/") THEN t.pre \o <<"/">> \o p ELSE t.pre \o p
Location(r, raw, q) ==
    [scheme |-> r.tpl.scheme,
     host   |-> IF r.tpl.host \in {"$host", "self"} THEN "req" ELSE r.tpl.host,   \* "self": the request's host spelled out
     path   |-> IF r.tpl.var THEN JoinTpl(r.tpl, RedirPath(r, raw)) ELSE r.tpl.pre,
     \* the request's query is carried when the target has none; the documentation ties it to $path
     \* ("include the original request URI ... append $path"), a target without $path is not judged
     qmode  |-> IF r.tpl.query # <<>> \/ r.tpl.var THEN "eq" ELSE "any",
     query  |-> IF r.tpl.query # <<>> THEN r.tpl.query ELSE IF r.tpl.var THEN q ELSE <<>>]
NormPath(p) == IF p = <<>> THEN <<"/">> ELSE p
\* a history: the requests (host, path, query) that went through the same route one after the other, the case's own
\* request last.  A redirect route answers each of them from that request alone ("req" = its own host).
HistAnswers(r) == [k \in DOMAIN c.hist |-> Location(r, c.hist[k].path, c.hist[k].query)]
\* the same for the requests that arrive one after the other over ONE client connection (C08): the port and the
\* host that fabio tells the upstream are those of each request, not of the connection's first one
StepPort(h)  == IF h.rhost = "ported" THEN "reqport" ELSE IF c.tls THEN "443" ELSE "80"
ConnAnswers  == [k \in DOMAIN c.hist |-> [xfport |-> [mode |-> "eq", vals |-> <<StepPort(c.hist[k])>>],
                                          xfhost |-> [mode |-> "eq", vals |-> <<"reqhost">>]]]
\* requests that are in fabio at the SAME moment through ONE route (c.together, C07): the request each upstream
\* receives is made from that request alone - its own path after strip / prepend, the route's query in front of
\* its OWN query - whatever the others carry
TogetherUps(r) == [k \in DOMAIN c.hist |-> [path  |-> UpstreamPath(r, c.hist[k].path),
                                            query |-> UpstreamQuery(r, c.hist[k].query)]]
Sent(h)     == c.forged[h] # "absent"
\* the scheme of the request: what the proxy in front said, else what the connection is
ReqScheme   == IF Sent("xfproto") THEN c.xfpval ELSE IF c.tls THEN "https" ELSE "http"
PointsBack(r) == LET l == Location(r, c.path, c.query) IN
                 l.scheme = ReqScheme /\ l.host = "req" /\ NormPath(l.path) = c.path

-----------------------------------------------------------------------------
\* C08: the headers fabio manages, clause by clause.  An expectation is [mode, vals]:
\*   "eq"     the upstream receives exactly these values, in order (<<>>: the header is absent)
\*   "list"   the comma separated elements of all values are exactly these
\*   "prefix" one value, which starts with vals[1]
\*   "fwd"    one Forwarded value with for=vals[1]; proto is "secure" (https/wss), "insecure" (http/ws) or "any"
\*   "any"    not judged (the statement is silent)
\* "truefirst" / "truelast": the header is sent twice, one copy says the truth ("true": the value fabio itself would
\* put there), the other is forged
ClientVals(h) == CASE c.forged[h] = "absent" -> <<>>
                   [] c.forged[h] = "twice"  -> IF h = "xfproto" THEN <<c.xfpval, "v2">> ELSE <<"v1", "v2">>
                   [] c.forged[h] = "truefirst" -> <<"true", IF h = "xfproto" THEN c.xfpval ELSE "v1">>
                   [] c.forged[h] = "truelast"  -> <<IF h = "xfproto" THEN c.xfpval ELSE "v1", "true">>
                   [] OTHER                  -> IF h = "xfproto" THEN <<c.xfpval>> ELSE <<"v1">>    \* once / odd-cased name
Eq(v) == [mode |-> "eq", vals |-> v]
\* the configured client-IP header is overwritten with the peer
ExpClientIP  == IF c.cfgip THEN Eq(<<"peer">>) ELSE Eq(ClientVals("clientip"))
\* the peer is appended as the last element of X-Forwarded-For (one client line holds "x1", a second "x2, x3")
\* ... also when the client's list is crafted from the peer's own address: an element whose text merely ends
\* ("sfx") or starts ("pfx") with it, or the peer itself ("dup": whether it is then listed twice is not judged)
XffClient    == CASE c.forged["xff"] = "absent" -> <<>>
                  [] c.forged["xff"] = "twice"  -> <<"x1", "x2", "x3">>
                  [] c.forged["xff"] = "sfx"    -> <<"x1", "sfxpeer">>
                  [] c.forged["xff"] = "pfx"    -> <<"x1", "peerpfx">>
                  [] c.forged["xff"] = "dup"    -> <<"x1", "peer">>
                  [] c.forged["xff"] \in {"empty1", "blank2"} -> <<>>      \* header lines with an empty / blank value only
                  [] c.forged["xff"] = "emptymix"  -> <<"x1">>             \* an empty line and one with an address
                  [] c.forged["xff"] = "truelast"  -> <<"x1", "peer">>
                  [] c.forged["xff"] = "truefirst" -> <<"peer", "x1">>
                  [] OTHER -> <<"x1">>
\* ("listne": empty elements that empty client lines may leave in the list are not judged)
ExpXFF       == [mode |-> IF c.forged["xff"] \in {"dup", "truelast"} THEN "listdup"
                          ELSE IF c.forged["xff"] \in {"empty1", "blank2", "emptymix"} THEN "listne" ELSE "list",
                 vals |-> XffClient \o <<"peer">>]
\* X-Real-Ip carries the peer unless the client already sent one
ExpRealIP    == IF Sent("xrealip") THEN Eq(ClientVals("xrealip")) ELSE Eq(<<"peer">>)
\* the TLS header is present with the configured value exactly when the connection used TLS, whatever was sent
ExpTLSHdr    == IF c.cfgtls THEN (IF c.tls THEN Eq(<<"cfgvalue">>) ELSE Eq(<<>>)) ELSE Eq(ClientVals("tlshdr"))
\* X-Forwarded-Proto, Forwarded: supplied when absent, from the actual connection.  When the client supplied
\* exactly one of the two fabio trusts it for the other (statement silent): only the pass-through is judged.
ExpXFProto   == IF Sent("xfproto") THEN Eq(ClientVals("xfproto"))
                ELSE IF Sent("forwarded") THEN [mode |-> "any", vals |-> <<>>]
                ELSE Eq(<<IF c.tls THEN "https" ELSE "http">>)
ExpForwarded == IF Sent("forwarded") THEN [mode |-> "prefix", vals |-> <<ClientVals("forwarded")[1]>>]
                ELSE [mode |-> "fwd", vals |-> <<"peer", IF Sent("xfproto") THEN "any" ELSE IF c.tls THEN "secure" ELSE "insecure">>]
\* X-Forwarded-Port / -Host describe the host the client asked for, even when the route rewrites Host
ExpXFPort    == IF Sent("xfport") THEN Eq(ClientVals("xfport"))
                ELSE Eq(<<IF c.rhost = "ported" THEN "reqport" ELSE IF c.tls THEN "443" ELSE "80">>)
ExpXFHost    == IF Sent("xfhost") THEN Eq(ClientVals("xfhost")) ELSE Eq(<<"reqhost">>)
Managed == [clientip |-> ExpClientIP, xff |-> ExpXFF, xrealip |-> ExpRealIP, tlshdr |-> ExpTLSHdr,
            xfproto |-> ExpXFProto, forwarded |-> ExpForwarded, xfport |-> ExpXFPort, xfhost |-> ExpXFHost]
\* Strict-Transport-Security is added to responses only on TLS connections (a 101 answer to a websocket
\* handshake over TLS is not judged)
ExpSTS == IF ~c.tls THEN Eq(<<>>)
          ELSE IF c.kind # "http" THEN [mode |-> "any", vals |-> <<>>]
          ELSE IF c.cfgsts THEN Eq(<<"stsvalue">>) ELSE Eq(<<>>)

-----------------------------------------------------------------------------
Init == /\ pc = "init" /\ sel = <<>> /\ c = <<>> /\ i = 0 /\ route = NoRouteRec
        /\ up = NoUp /\ hits = 0 /\ out = NoOut /\ env = [page |-> "", seen |-> {""}, k |-> 1]

ChooseOuter == /\ pc = "init"
               /\ \E o \in Outer : sel' = o
               /\ pc' = "outer"
               /\ UNCHANGED <<c, i, route, up, hits, out, env>>
ChooseCase  == /\ pc = "outer"
               /\ \E x \in Inner(sel) : c' = x
               /\ pc' = "pages" /\ i' = 1
               /\ env' = [page |-> c'.nrpage, seen |-> {c'.nrpage}, k |-> 1]
               /\ UNCHANGED <<sel, route, up, hits, out>>

\* The no-route page is part of the environment: the registry delivers pages (set, replace, remove) before the
\* request arrives ...
RegistryPage == /\ pc = "pages" /\ env.k <= Len(c.pagehist)
                /\ env' = [page |-> c.pagehist[env.k], seen |-> {c.pagehist[env.k]}, k |-> env.k + 1]
                /\ UNCHANGED <<pc, sel, c, i, route, up, hits, out>>
Arrive       == /\ pc = "pages" /\ env.k > Len(c.pagehist)
                /\ pc' = "lookup"
                /\ UNCHANGED <<sel, c, i, route, up, hits, out, env>>
\* ... and may replace the page while the request is being answered (c.flip: the pages it alternates between)
PageUpdate   == /\ pc = "lookup"
                /\ \E p \in {c.flip[k] : k \in DOMAIN c.flip} \ {env.page} :
                       env' = [env EXCEPT !.page = p, !.seen = @ \cup {p}]
                /\ UNCHANGED <<pc, sel, c, i, route, up, hits, out>>

\* candidate routes are examined in the order of the matching hosts, most specific first
Matches(r) == IsPrefixDec(r.src, c.path)
PassOver(r) == ~Matches(r) \/ (IsRedirect(r) /\ PointsBack(r))
Lookup   == /\ pc = "lookup" /\ i <= Len(c.routes) /\ ~PassOver(c.routes[i])
            /\ route' = c.routes[i] /\ pc' = "found"
            /\ UNCHANGED <<sel, c, i, up, hits, out, env>>
NextHost == /\ pc = "lookup" /\ i <= Len(c.routes) /\ PassOver(c.routes[i])
            /\ i' = i + 1
            /\ UNCHANGED <<pc, sel, c, route, up, hits, out, env>>
NoRoute  == /\ pc = "lookup" /\ i > Len(c.routes)
            \* the page is read ONCE: the answer is the page configured at that moment, complete; the client, which cannot
            \* see that moment, accepts every page configured at some moment since its request arrived (out.pages)
            /\ out' = [NoOut EXCEPT !.kind = "noroute", !.status = c.nrstatus, !.page = env.page,
                                    !.pages = SelectSeq(AllPages, LAMBDA x : x \in env.seen)]
            /\ pc' = "done"
            /\ UNCHANGED <<sel, c, i, route, up, hits, env>>
Deny     == /\ pc = "found" /\ ~route.admitted
            /\ out' = [NoOut EXCEPT !.kind = "denied", !.status = 403]
            /\ pc' = "done"
            /\ UNCHANGED <<sel, c, i, route, up, hits, env>>
Redirect == /\ pc = "found" /\ route.admitted /\ IsRedirect(route)
            /\ out' = [NoOut EXCEPT !.kind = "redirect", !.status = route.code.num,
                                    !.loc = Location(route, c.path, c.query)]
            /\ pc' = "done"
            /\ UNCHANGED <<sel, c, i, route, up, hits, env>>
BuildTarget == /\ pc = "found" /\ route.admitted /\ ~IsRedirect(route)
               /\ up' = [method |-> c.method, path |-> UpstreamPath(route, c.path),
                         query |-> UpstreamQuery(route, c.query), host |-> UpstreamHost(route), managed |-> NoManaged]
               /\ pc' = "target"
               /\ UNCHANGED <<sel, c, i, route, hits, out, env>>
AddHeaders == /\ pc = "target"
              /\ up' = [up EXCEPT !.managed = Managed]
              /\ pc' = "headers"
              /\ UNCHANGED <<sel, c, i, route, hits, out, env>>
\* the environment can fail at this step: the instance refuses the connection.  fabio answers with an error of its
\* own; the request is NOT handed to anybody else (no other route's upstream sees it)
DialFails == /\ pc = "headers" /\ route.dead
             /\ out' = [NoOut EXCEPT !.kind = "badgateway", !.sts = ExpSTS]
             /\ pc' = "done"
             /\ UNCHANGED <<sel, c, i, route, up, hits, env>>
Forward  == /\ pc = "headers" /\ ~route.dead
            /\ hits' = hits + 1
            /\ pc' = "forwarded"
            /\ UNCHANGED <<sel, c, i, route, up, out, env>>
Respond  == /\ pc = "forwarded"
            \* an upstream that dies before its answer is complete: the client must not be told the answer is complete
            /\ out' = [NoOut EXCEPT !.kind = "upstream", !.resp = c.resp, !.sts = ExpSTS, !.cut = (c.resp \in Faulty)]
            /\ pc' = "done"
            /\ UNCHANGED <<sel, c, i, route, up, hits, env>>

Next == \/ ChooseOuter \/ ChooseCase \/ RegistryPage \/ Arrive \/ PageUpdate \/ Lookup \/ NextHost \/ NoRoute \/ Deny \/ Redirect
        \/ BuildTarget \/ AddHeaders \/ DialFails \/ Forward \/ Respond
Spec == Init /\ [][Next]_vars

-----------------------------------------------------------------------------
\* properties of the pipeline (invariants, checked by TLC on the bounded universes)
Chosen    == pc \notin {"init", "outer"}
\* the no-route answer carries a page that was configured while the request was there - after the registry's
\* operations the one delivered last, and nothing of a page that has been removed
NoRoutePageWasConfigured == (pc = "done" /\ out.kind = "noroute") =>
                               /\ out.page = env.page /\ out.page \in env.seen
                               /\ (c.flip = <<>> => out.pages = <<out.page>>)
                               /\ (c.flip = <<>> /\ c.pagehist # <<>> => out.page = c.pagehist[Len(c.pagehist)])
Forwarded == hits > 0
\* an upstream is contacted only for an admitted request that found an ordinary route, and once
ForwardOnlyRouted == Forwarded => /\ hits = 1 /\ route # NoRouteRec /\ Matches(route)
                                  /\ route.admitted /\ ~IsRedirect(route)
\* no route, denied, redirect: answered without any upstream
AnsweredLocally == (pc = "done" /\ out.kind \in {"noroute", "denied", "redirect", "badgateway"}) => hits = 0
EveryAnswerHasAKind == pc = "done" => out.kind \in {"noroute", "denied", "redirect", "upstream", "badgateway"}
\* C07
PathStaysAbsolute == Forwarded => up.path # <<>> /\ up.path[1] = "/"
EscapesSurvive    == Forwarded => EscapesOf(up.path) = EscapesOf(WireSeq(route.prepend)) \o
                                    EscapesOf(IF StripApplies(route, c.path) THEN Drop(c.path, Len(route.strip)) ELSE c.path)
OnlyStripAndPrepend == (Forwarded /\ route.strip = <<>> /\ route.prepend = <<>>) => up.path = c.path
QueryMergedInFront == Forwarded => IsPrefix(route.tquery, up.query) /\ Drop(up.query, Len(route.tquery)) = c.query
SimultaneousIndependent == (Forwarded /\ c.hist # <<>> /\ c.together) =>
                              /\ up.path = TogetherUps(route)[Len(c.hist)].path
                              /\ up.query = TogetherUps(route)[Len(c.hist)].query
                              /\ \A k \in DOMAIN c.hist :
                                    /\ IsPrefix(route.tquery, TogetherUps(route)[k].query)
                                    /\ Drop(TogetherUps(route)[k].query, Len(route.tquery)) = c.hist[k].query   \* its own, nobody else's
                              /\ \A j, k \in DOMAIN c.hist :
                                    (c.hist[j].path = c.hist[k].path /\ c.hist[j].query = c.hist[k].query)
                                       => TogetherUps(route)[j] = TogetherUps(route)[k]
HostOnlyOnRequest  == (Forwarded /\ route.hostopt = "") => up.host = "req"
FaultNotHidden == (pc = "done" /\ out.kind = "upstream") => (out.cut = (c.resp \in Faulty))
\* C08
PeerIsTold == Forwarded => /\ Last(up.managed.xff.vals) = "peer"
                           /\ (c.cfgip => up.managed.clientip.vals = <<"peer">>)
                           /\ (~Sent("xrealip") => up.managed.xrealip.vals = <<"peer">>)
TLSHeaderTruthful == (Forwarded /\ c.cfgtls) =>
                        /\ (c.tls => up.managed.tlshdr.vals = <<"cfgvalue">>)
                        /\ (~c.tls => up.managed.tlshdr.vals = <<>>)
RequestedHostIsTold == (Forwarded /\ ~Sent("xfhost")) => up.managed.xfhost.vals = <<"reqhost">>    \* whatever route.hostopt
RequestedPortIsTold == (Forwarded /\ ~Sent("xfport") /\ c.rhost = "ported") => up.managed.xfport.vals = <<"reqport">>
STSOnlyOnTLS == (pc = "done" /\ out.kind \in {"upstream", "badgateway"} /\ ~c.tls) => out.sts = Eq(<<>>)
\* ... and on TLS connections every answer carries it, also the one fabio makes up when the upstream fails
STSOnEveryTLSAnswer == (pc = "done" /\ out.kind \in {"upstream", "badgateway"} /\ c.tls /\ c.cfgsts /\ c.kind = "http")
                          => out.sts = Eq(<<"stsvalue">>)
\* C13
RedirectStatusIs3xx == (pc = "done" /\ out.kind = "redirect") => out.status >= 300 /\ out.status <= 399
NeverRedirectsToItself == (pc = "done" /\ out.kind = "redirect") =>
                             ~(out.loc.scheme = ReqScheme /\ out.loc.host = "req" /\ NormPath(out.loc.path) = c.path)
HistoryIndependent == (pc = "done" /\ out.kind = "redirect" /\ c.hist # <<>>) =>
                          /\ out.loc = HistAnswers(route)[Len(c.hist)]
                          /\ \A j, k \in DOMAIN c.hist :
                                (c.hist[j].path = c.hist[k].path /\ c.hist[j].query = c.hist[k].query)
                                   => HistAnswers(route)[j] = HistAnswers(route)[k]     \* whatever came in between, whoever asked
ConnectionIndependent == (Forwarded /\ c.hist # <<>> /\ ~Sent("xfport") /\ ~Sent("xfhost")) =>
                             /\ up.managed.xfport = ConnAnswers[Len(c.hist)].xfport
                             /\ up.managed.xfhost = ConnAnswers[Len(c.hist)].xfhost
RedirectCarriesQuery == (pc = "done" /\ out.kind = "redirect" /\ route.tpl.var) =>
                             out.loc.query = (IF route.tpl.query = <<>> THEN c.query ELSE route.tpl.query)
=============================================================================
