---------------------------- MODULE Rational ----------------------------
(* Exact non-negative rational arithmetic on pairs [n |-> num, d |-> den], den > 0.      *)
(* Used for route weights: the implementation works in float64, the specification in     *)
(* exact fractions; the harness compares with a tolerance that is far below one ring     *)
(* slot (1e-9 against 1e-4).                                                              *)
EXTENDS Integers

RECURSIVE GCD(_, _)
GCD(a, b) == IF b = 0 THEN a ELSE GCD(b, a % b)

Abs(x) == IF x < 0 THEN -x ELSE x

Q(n, d) == LET g == GCD(Abs(n), d) IN IF n = 0 THEN [n |-> 0, d |-> 1] ELSE [n |-> n \div g, d |-> d \div g]

QZero == [n |-> 0, d |-> 1]
QOne  == [n |-> 1, d |-> 1]

QAdd(a, b) == Q(a.n * b.d + b.n * a.d, a.d * b.d)
QSub(a, b) == Q(a.n * b.d - b.n * a.d, a.d * b.d)
QMul(a, b) == Q(a.n * b.n, a.d * b.d)
\* b # 0
QDiv(a, b) == IF b.n < 0 THEN Q(-(a.n * b.d), a.d * (-b.n)) ELSE Q(a.n * b.d, a.d * b.n)
QDivInt(a, k) == Q(a.n, a.d * k)
QLt(a, b) == a.n * b.d < b.n * a.d
QLe(a, b) == a.n * b.d <= b.n * a.d
QEq(a, b) == a.n * b.d = b.n * a.d
QPos(a) == a.n > 0

\* floor and ceiling of a non-negative rational
QFloor(a) == a.n \div a.d
QCeil(a)  == IF a.n % a.d = 0 THEN a.n \div a.d ELSE (a.n \div a.d) + 1
\* nearest integer (ties do not occur in the universes used; rounds half up)
QRound(a) == (2 * a.n + a.d) \div (2 * a.d)
=============================================================================
