---------------------------- MODULE DataPlane ----------------------------
(***************************************************************************)
(* Property C06: what concurrent lookups share.  Each request process g    *)
(* performs operations, split into invocation (Inv), one atomic effect     *)
(* (LinX) and response (Ret) so that recorded executions can be validated: *)
(*                                                                         *)
(*   pick      advance the round-robin cursor of a route and return the    *)
(*             ring slot it pointed at            (route.rrPicker)         *)
(*   glob      get the compiled matcher of a host pattern from the bounded *)
(*             cache (FIFO eviction)              (route.GlobCache.Get)    *)
(*   redirect  build the Location of a redirect route for THIS request     *)
(*             (route.Table.Lookup + Target.BuildRedirectURL)              *)
(*   access    decide whether THIS request's peer address is admitted by   *)
(*             the route's access rules  (Target.AccessDeniedHTTP/TCP)     *)
(*                                                                         *)
(* FineGrain = TRUE models the unrepaired code's grain (cursor read and    *)
(* increment as two steps; redirect URL written to and read back from the  *)
(* shared target; cache bookkeeping as separate unsynchronised steps) and  *)
(* violates the properties below; it documents the repaired flaws.         *)
(***************************************************************************)
EXTENDS Integers, Sequences, FiniteSets

CONSTANTS Procs, Ring, Patterns, Paths, Addrs, CacheSize, MaxOps, FineGrain

VARIABLES cursor, cache, shared, pend, nops, picks
vars == <<cursor, cache, shared, pend, nops, picks>>
\* cache: sequence of patterns, oldest first; shared: the redirect URL slot of the shared target
\* pend[g]: [op, arg, res, tmp] ; picks: sequence of returned targets in linearization order (history)

Idle == [op |-> "idle", arg |-> "", res |-> "", tmp |-> 0]
U == Len(Ring)
SeqToSet(q) == {q[i] : i \in DOMAIN q}

Init == /\ cursor = 0 /\ cache = <<>> /\ shared = "" /\ pend = [g \in Procs |-> Idle] /\ nops = 0 /\ picks = <<>>

Inv(g, op, arg) == /\ pend[g].op = "idle" /\ nops < MaxOps /\ nops' = nops + 1
                   /\ pend' = [pend EXCEPT ![g] = [op |-> op, arg |-> arg, res |-> "?", tmp |-> 0]]
                   /\ UNCHANGED <<cursor, cache, shared, picks>>

\* ---- round robin
LinPick(g) == /\ ~FineGrain /\ pend[g].op = "pick" /\ pend[g].res = "?"
              /\ pend' = [pend EXCEPT ![g].res = Ring[(cursor % U) + 1]]
              /\ cursor' = cursor + 1 /\ picks' = Append(picks, Ring[(cursor % U) + 1])
              /\ UNCHANGED <<cache, shared, nops>>
\* unrepaired grain: u := ring[total % len] ; atomic.Add(&total, 1)
PickRead(g) == /\ FineGrain /\ pend[g].op = "pick" /\ pend[g].res = "?"
               /\ pend' = [pend EXCEPT ![g].res = Ring[(cursor % U) + 1]] /\ picks' = Append(picks, Ring[(cursor % U) + 1])
               /\ UNCHANGED <<cursor, cache, shared, nops>>
PickAdd(g)  == /\ FineGrain /\ pend[g].op = "pick" /\ pend[g].res # "?" /\ pend[g].tmp = 0
               /\ cursor' = cursor + 1 /\ pend' = [pend EXCEPT ![g].tmp = 1]
               /\ UNCHANGED <<cache, shared, nops, picks>>

\* ---- glob cache
Put(c, p) == IF p \in SeqToSet(c) THEN c ELSE IF Len(c) < CacheSize THEN Append(c, p) ELSE Append(Tail(c), p)
LinGlob(g) == /\ pend[g].op = "glob" /\ pend[g].res = "?"
              /\ pend' = [pend EXCEPT ![g].res = "ok"] /\ cache' = Put(cache, pend[g].arg)
              /\ UNCHANGED <<cursor, shared, nops, picks>>

\* ---- redirect
LinRedirect(g) == /\ ~FineGrain /\ pend[g].op = "redirect" /\ pend[g].res = "?"
                  /\ pend' = [pend EXCEPT ![g].res = pend[g].arg]
                  /\ UNCHANGED <<cursor, cache, shared, nops, picks>>
RedirWrite(g) == /\ FineGrain /\ pend[g].op = "redirect" /\ pend[g].res = "?" /\ pend[g].tmp = 0
                 /\ shared' = pend[g].arg /\ pend' = [pend EXCEPT ![g].tmp = 1]
                 /\ UNCHANGED <<cursor, cache, nops, picks>>
RedirRead(g)  == /\ FineGrain /\ pend[g].op = "redirect" /\ pend[g].res = "?" /\ pend[g].tmp = 1
                 /\ pend' = [pend EXCEPT ![g].res = shared]
                 /\ UNCHANGED <<cursor, cache, shared, nops, picks>>

\* ---- access decision: a function of the request's own address and the (immutable) rules;
\* addresses are named by their class: "in-<k>" lies in block k of the allow list, "out" in none
Admitted(addr) == IF addr = "out" THEN "denied" ELSE "admitted"
LinAccess(g) == /\ pend[g].op = "access" /\ pend[g].res = "?"
                /\ pend' = [pend EXCEPT ![g].res = Admitted(pend[g].arg)]
                /\ UNCHANGED <<cursor, cache, shared, nops, picks>>

\* ---- observation of the active table by a request that is no lookup (admin API /api/routes, UI, Table.String):
\* it reads the table and has NO shared effect - in particular it leaves the ring, the cursor and the targets alone
LinObserve(g) == /\ pend[g].op = "observe" /\ pend[g].res = "?"
                 /\ pend' = [pend EXCEPT ![g].res = "ok"]
                 /\ UNCHANGED <<cursor, cache, shared, nops, picks>>

Ret(g) == /\ pend[g].op # "idle" /\ pend[g].res # "?" /\ (FineGrain /\ pend[g].op = "pick" => pend[g].tmp = 1)
          /\ pend' = [pend EXCEPT ![g] = Idle]
          /\ UNCHANGED <<cursor, cache, shared, nops, picks>>

Next == \E g \in Procs :
          \/ Inv(g, "pick", "") \/ (\E p \in Patterns : Inv(g, "glob", p)) \/ (\E p \in Paths : Inv(g, "redirect", p))
          \/ (\E a \in Addrs : Inv(g, "access", a)) \/ Inv(g, "observe", "")
          \/ LinPick(g) \/ PickRead(g) \/ PickAdd(g) \/ LinGlob(g) \/ LinRedirect(g) \/ RedirWrite(g) \/ RedirRead(g)
          \/ LinAccess(g) \/ LinObserve(g) \/ Ret(g)
Spec == Init /\ [][Next]_vars

-----------------------------------------------------------------------------
Count(q, t) == Cardinality({i \in DOMAIN q : q[i] = t})
Targets == SeqToSet(Ring)
\* round robin hands every target its exact share: after c picks, k full cycles plus a ring prefix
ExactShare == LET c == Len(picks) IN
              \A t \in Targets : Count(picks, t) = (c \div U) * Count(Ring, t) + Count(SubSeq(Ring, 1, c % U), t)
\* the response to a redirect request depends on that request alone
OwnLocation == \A g \in Procs : (pend[g].op = "redirect" /\ pend[g].res # "?") => pend[g].res = pend[g].arg
OwnDecision == \A g \in Procs : (pend[g].op = "access" /\ pend[g].res # "?") => pend[g].res = Admitted(pend[g].arg)
\* the cache stays within its size, holds no pattern twice
CacheBounded == Len(cache) <= CacheSize /\ Cardinality(SeqToSet(cache)) = Len(cache)
=============================================================================
