----------------------------- MODULE AccessMulti -----------------------------
(***************************************************************************)
(* Routes with SEVERAL targets that carry different access rules (property *)
(* C12): every instance registers its own route options, so the targets of *)
(* one route (one host/path, one ':port') can differ in their allow / deny *)
(* lists.  Which target serves a request is the picker's choice, and an    *)
(* instance may be down.  Whatever the proxy does (fail, or try another    *)
(* target), a request or connection may only ever reach an instance whose  *)
(* OWN rules admit the peer (and, for HTTP, the X-Forwarded-For chain).    *)
(*                                                                         *)
(* Reuses the admission bounds of module Access; the gate here has the     *)
(* steps pick -> check (against the picked target's rules) -> connect, and *)
(* after a failed connect optionally one more round with another target.   *)
(***************************************************************************)
EXTENDS Access

VARIABLES rules2,   \* rules of the second target (`rules` are those of the first)
          up,       \* <<first instance accepts connections, second instance accepts connections>>
          tgt,      \* the target picked for the current round (0 = none)
          tries,    \* rounds made
          served    \* the target whose instance was reached (0 = none)
mvars == <<vars, rules2, up, tgt, tries, served>>

RulesOf(i) == IF i = 1 THEN rules ELSE rules2
UpStates == {<<TRUE, TRUE>>, <<FALSE, TRUE>>, <<TRUE, FALSE>>}

MInit == /\ Init /\ rules2 = NoCfg /\ up = <<TRUE, TRUE>> /\ tgt = 0 /\ tries = 0 /\ served = 0

MChooseRoute(c1, c2, u) ==
    /\ phase = "rules"
    /\ rules' = c1 /\ rules2' = c2 /\ up' = u /\ phase' = "req"
    /\ UNCHANGED <<req, pc, todo, hits, tgt, tries, served>>

MChooseReq(q) ==
    /\ phase = "req"
    /\ req' = q /\ phase' = "gate" /\ pc' = "pick"
    /\ UNCHANGED <<rules, rules2, up, todo, hits, tgt, tries, served>>

Pick(i) == /\ pc = "pick" /\ tries < 2 /\ i # tgt
           /\ tgt' = i /\ tries' = tries + 1 /\ pc' = "check"
           /\ UNCHANGED <<phase, rules, rules2, up, req, todo, hits, served>>

CheckPass == /\ pc = "check" /\ MayAdmit(RulesOf(tgt), req)
             /\ pc' = "connect"
             /\ UNCHANGED <<phase, rules, rules2, up, req, todo, hits, tgt, tries, served>>
CheckDeny == /\ pc = "check" /\ ~MustAdmit(RulesOf(tgt), req)
             /\ pc' = "deny"
             /\ UNCHANGED <<phase, rules, rules2, up, req, todo, hits, tgt, tries, served>>
Connect == /\ pc = "connect" /\ up[tgt]
           /\ pc' = "served" /\ served' = tgt /\ hits' = hits + 1
           /\ UNCHANGED <<phase, rules, rules2, up, req, todo, tgt, tries>>
ConnectFail == /\ pc = "connect" /\ ~up[tgt]
               /\ pc' \in {"fail", "pick"}           \* give up, or try another target - which is CHECKED again
               /\ UNCHANGED <<phase, rules, rules2, up, req, todo, hits, tgt, tries, served>>
GiveUp == /\ pc = "pick" /\ tries >= 1
          /\ pc' = "fail"
          /\ UNCHANGED <<phase, rules, rules2, up, req, todo, hits, tgt, tries, served>>

MNext == \/ (phase = "rules" /\ \E c1, c2 \in Configs, u \in UpStates : MChooseRoute(c1, c2, u))
         \/ (phase = "req" /\ \E q \in Reqs : MChooseReq(q))
         \/ (\E i \in {1, 2} : Pick(i)) \/ CheckPass \/ CheckDeny \/ Connect \/ ConnectFail \/ GiveUp
MSpec == MInit /\ [][MNext]_mvars

\* outcomes the statement permits for a request to such a route
MOutcomes(c1, c2, u, q) ==
    (IF u[1] /\ MayAdmit(c1, q) THEN {"served1"} ELSE {})
    \cup (IF u[2] /\ MayAdmit(c2, q) THEN {"served2"} ELSE {})
    \cup (IF ~MustAdmit(c1, q) \/ ~MustAdmit(c2, q) THEN {"deny"} ELSE {})
    \cup (IF ~u[1] \/ ~u[2] THEN {"fail"} ELSE {})

\* properties
ServedByAdmittingTarget == served # 0 => (MayAdmit(RulesOf(served), req) /\ up[served])
UntouchedUnlessServed == (pc \in {"deny", "fail"}) => hits = 0
MOutcomeSound == /\ pc = "served" => (IF served = 1 THEN "served1" ELSE "served2") \in MOutcomes(rules, rules2, up, req)
                 /\ pc \in {"deny", "fail"} => pc \in MOutcomes(rules, rules2, up, req)
=============================================================================
