---------------------------- MODULE Metrics_MC ----------------------------
(* Bounded universes for Metrics.                                                             *)
(*   t1, t2   two http routes with live upstreams     t3   an http route whose default-template *)
(*   td       a route every client is denied on            name equals t1's (paths /a and /A)   *)
(*   tr       a redirect route                         tx   an http route whose upstream is down *)
(*   tt / tu  the tcp listener's port routed to a live / a dead upstream     tg   a grpc route   *)
EXTENDS Metrics, Json
CONSTANTS s1, s2, s3, s4

KindOf(t) == CASE t \in {"t1", "t2", "t3"} -> "http" [] t = "td" -> "deny" [] t = "tr" -> "redirect"
               [] t = "tx" -> "dead" [] t = "tt" -> "tcp" [] t = "tu" -> "tcpdead" [] t = "tg" -> "grpc"

\* the universe the generated histories are replayed on (harness/main/x05_metrics_test.go names the same ids)
MCTargets == {"t1", "t2", "t3", "td", "tr", "tx", "tt", "tu", "tg"}
MCKind    == [t \in MCTargets |-> KindOf(t)]
MCName    == [t \in MCTargets |-> IF t = "t3" THEN "n.t1" ELSE "n." \o t]   \* what the default template does
MCNameInj == [t \in MCTargets |-> "n." \o t]
TAll  == {"t1", "t2", "t3", "td", "tr", "tx", "tt", "tg"}
TLess == {"t2", "td", "tr", "tx", "tu"}
TBare == {"t1"}
MCTables == {TAll, TLess, TBare}

\* small universes for the exhaustive runs with concurrency
HTargets == {"t1", "t2", "td", "tx"}                       \* http part
HKind    == [t \in HTargets |-> KindOf(t)]
HName    == [t \in HTargets |-> "n." \o t]
HTables  == {{"t1", "t2", "td", "tx"}, {"t2"}}
WTargets == {"t1", "t3"}                                     \* websocket gauge; the name collision
WKind    == [t \in WTargets |-> KindOf(t)]
WName    == [t \in WTargets |-> "n.t1"]
WNameInj == [t \in WTargets |-> "n." \o t]
WTables  == {{"t1", "t3"}, {"t3"}}
OTargets == {"t1", "tt", "tu", "tg"}                        \* tcp and grpc next to one http route
OKind    == [t \in OTargets |-> KindOf(t)]
OName    == [t \in OTargets |-> "n." \o t]
OTables  == {{"t1", "tt", "tg"}, {"t1", "tu"}, {"t1"}}

HT0 == {"t1", "t2", "td", "tx"}
WT0 == {"t1", "t3"}
OT0 == {"t1", "tt", "tg"}
MCSym2 == Permutations({s1, s2})
MCSym3 == Permutations({s1, s2, s3})
=============================================================================
