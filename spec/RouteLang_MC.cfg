\* exhaustive check of the language properties, small universe
SPECIFICATION Spec
CONSTANTS
  Svc = {"A", "B"}
  Dst = {"http://u1:80/", "http://u2:80/"}
  Srcs <- MCSrcsSmall
  W <- MCW
  TagSeqs <- MCTagSeqs
  OptSet <- MCOptsSmall
  MaxCmds = 2
VIEW View
INVARIANTS TypeOK NoEmptyRoute AddIdempotent AddAccumulates DelExact WeighLocal WeightsSumToOne RoundTrip
CHECK_DEADLOCK FALSE
