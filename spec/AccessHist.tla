----------------------------- MODULE AccessHist -----------------------------
(***************************************************************************)
(* Route authentication over HISTORIES of login attempts on one proxy      *)
(* instance (property C12: "forwarded only if ... the route's              *)
(* authentication scheme accepts the credentials; otherwise the client     *)
(* gets 401 and no upstream is contacted").                                *)
(*                                                                         *)
(* A basic scheme accepts a credential pair iff the htpasswd content that  *)
(* is in force contains it.  The content may be replaced while the proxy   *)
(* runs (refresh).  Nothing else is state: the verdict on an attempt       *)
(* depends on that attempt and the content in force, never on earlier      *)
(* attempts.                                                               *)
(*                                                                         *)
(* The module carries, besides the design (Memo = "none"), two designs     *)
(* that remember verified credentials: keyed by the pair ("pair", still    *)
(* correct when flushed on reload) and keyed by user and password run      *)
(* together ("concat", wrong: different pairs share a key).  The model     *)
(* checker must accept the first two and reject the third.                 *)
(***************************************************************************)
EXTENDS Integers, Sequences, FiniteSets

CONSTANTS
    Creds,        \* credential classes an attempt can present (strings)
    Versions,     \* htpasswd contents (strings)
    Valid,        \* function: version -> set of credential classes it contains
    SameConcat,   \* set of credential classes whose user and password run together to the same string
    FirstVersion,
    MaxAttempts, MaxReloads,
    Memo          \* "none" | "pair" | "concat"

VARIABLES db, memo, hist, verdicts, hits, nat, nrl
vars == <<db, memo, hist, verdicts, hits, nat, nrl>>

Accepts(v, c) == c \in Valid[v]

Key(c) == IF Memo = "concat" /\ c \in SameConcat THEN "the-concatenation" ELSE c

Init == /\ db = FirstVersion /\ memo = {} /\ hist = <<>> /\ verdicts = <<>> /\ hits = 0 /\ nat = 0 /\ nrl = 0

Ev(e, c, v) == [ev |-> e, cred |-> c, ver |-> v]

Attempt(c) ==
    /\ nat < MaxAttempts
    /\ LET ok == IF Memo = "none" THEN Accepts(db, c) ELSE (Key(c) \in memo \/ Accepts(db, c)) IN
       /\ verdicts' = Append(verdicts, ok)
       /\ hits' = IF ok THEN hits + 1 ELSE hits          \* only an accepted request reaches the upstream
       /\ memo' = IF Memo # "none" /\ ok THEN memo \cup {Key(c)} ELSE memo
    /\ hist' = Append(hist, Ev("attempt", c, db))
    /\ nat' = nat + 1
    /\ UNCHANGED <<db, nrl>>

Reload(v) ==
    /\ nrl < MaxReloads /\ nat < MaxAttempts /\ v # db
    /\ db' = v /\ memo' = {}
    /\ hist' = Append(hist, Ev("reload", "", v))
    /\ nrl' = nrl + 1
    /\ UNCHANGED <<verdicts, hits, nat>>

Next == (\E c \in Creds : Attempt(c)) \/ (\E v \in Versions : Reload(v))
Spec == Init /\ [][Next]_vars

-----------------------------------------------------------------------------
\* the verdict on every attempt is the one the content in force at that moment prescribes
Attempts == {i \in DOMAIN hist : hist[i].ev = "attempt"}
NthAttempt(k) == CHOOSE i \in Attempts : Cardinality({j \in Attempts : j <= i}) = k
HistoryIndependent ==
    \A k \in DOMAIN verdicts : LET e == hist[NthAttempt(k)] IN verdicts[k] = Accepts(e.ver, e.cred)
\* the upstream is contacted exactly once per accepted attempt
UpstreamOnlyWhenAccepted == hits = Cardinality({k \in DOMAIN verdicts : verdicts[k]})
=============================================================================
