----------------------------- MODULE AccessHist -----------------------------
(***************************************************************************)
(* Route authentication over HISTORIES of login attempts on one proxy      *)
(* instance (property C12: "forwarded only if ... the route's              *)
(* authentication scheme accepts the credentials; otherwise the client     *)
(* gets 401 and no upstream is contacted").                                *)
(*                                                                         *)
(* A basic scheme accepts a credential pair iff the htpasswd content that  *)
(* is in force contains it.  The content may be replaced while the proxy   *)
(* runs (refresh): a replaced file is in force at the latest one refresh   *)
(* interval later, whether its modification time is newer OR OLDER than    *)
(* that of the file loaded before (a restored backup, a file moved into    *)
(* place).  When the modification time is unchanged the documentation      *)
(* ("refresh ... only if its modification time has changed") lets the old  *)
(* content stay: then either content may be in force.                      *)
(* The file may also DISAPPEAR (moved away, deleted): one refresh interval  *)
(* later nobody is accepted - an htpasswd file that is not there contains  *)
(* no credentials - every time it disappears, and when it comes back its   *)
(* content is in force again under the same rules as for a replacement.    *)
(* Nothing else is state: the verdict on an attempt       *)
(* depends on that attempt and the content in force, never on earlier      *)
(* attempts.                                                               *)
(*                                                                         *)
(* The module carries, besides the design (Memo = "none"), two designs     *)
(* that remember verified credentials: keyed by the pair ("pair", still    *)
(* correct when flushed on reload) and keyed by user and password run      *)
(* together ("concat", wrong: different pairs share a key).  The model     *)
(* checker must accept the first two and reject the third.                 *)
(***************************************************************************)
EXTENDS Integers, Sequences, FiniteSets

CONSTANTS
    Creds,        \* credential classes an attempt can present (strings)
    Versions,     \* htpasswd contents (strings)
    Valid,        \* function: version -> set of credential classes it contains
    SameConcat,   \* set of credential classes whose user and password run together to the same string
    FirstVersion,
    MTimes,       \* how the modification time of a replaced file relates to the loaded one: "newer" "older" "equal"
    Gone,         \* the "content" of a file that is not there (Valid[Gone] = {})
    WithRemoval,  \* whether histories contain the file disappearing
    MaxAttempts, MaxReloads,
    Memo          \* "none" | "pair" | "concat"

VARIABLES db,     \* the content of the file
          live,   \* the contents that may be in force (one, unless a file came with an unchanged modification time)
          memo, hist, verdicts, hits, nat, nrl
vars == <<db, live, memo, hist, verdicts, hits, nat, nrl>>

Accepts(v, c) == c \in Valid[v]

Key(c) == IF Memo = "concat" /\ c \in SameConcat THEN "the-concatenation" ELSE c

Init == /\ db = FirstVersion /\ live = {FirstVersion} /\ memo = {} /\ hist = <<>> /\ verdicts = <<>> /\ hits = 0 /\ nat = 0 /\ nrl = 0

Ev(e, c, v, mt, lv) == [ev |-> e, cred |-> c, ver |-> v, mt |-> mt, live |-> lv]

\* the model of the implementation follows the file whenever it may (the newest permitted content)
Attempt(c) ==
    /\ nat < MaxAttempts
    /\ LET ok == IF Memo = "none" THEN Accepts(db, c) ELSE (Key(c) \in memo \/ Accepts(db, c)) IN
       /\ verdicts' = Append(verdicts, ok)
       /\ hits' = IF ok THEN hits + 1 ELSE hits          \* only an accepted request reaches the upstream
       /\ memo' = IF Memo # "none" /\ ok THEN memo \cup {Key(c)} ELSE memo
    /\ hist' = Append(hist, Ev("attempt", c, db, "", live))
    /\ nat' = nat + 1
    /\ UNCHANGED <<db, live, nrl>>

Reload(v, mt) ==
    /\ nrl < MaxReloads /\ nat < MaxAttempts /\ v # db
    /\ db' = v /\ memo' = {}
    /\ live' = IF mt = "equal" THEN live \cup {v} ELSE {v}
    /\ hist' = Append(hist, Ev("reload", "", v, mt, IF mt = "equal" THEN live \cup {v} ELSE {v}))
    /\ nrl' = nrl + 1
    /\ UNCHANGED <<verdicts, hits, nat>>

\* the file disappears
Remove ==
    /\ WithRemoval /\ nrl < MaxReloads /\ nat < MaxAttempts /\ db # Gone
    /\ db' = Gone /\ memo' = {} /\ live' = {Gone}
    /\ hist' = Append(hist, Ev("remove", "", Gone, "", {Gone}))
    /\ nrl' = nrl + 1
    /\ UNCHANGED <<verdicts, hits, nat>>

Next == (\E c \in Creds : Attempt(c)) \/ (\E v \in Versions, mt \in MTimes : Reload(v, mt)) \/ Remove
Spec == Init /\ [][Next]_vars

-----------------------------------------------------------------------------
\* the verdict on every attempt is the one the content in force at that moment prescribes
AttemptsOf(h) == {i \in DOMAIN h : h[i].ev = "attempt"}
NthOf(h, k) == CHOOSE i \in AttemptsOf(h) : Cardinality({j \in AttemptsOf(h) : j <= i}) = k
\* the verdicts permitted for the k-th attempt of history h
AllowedFor(h, k) == LET e == h[NthOf(h, k)] IN {Accepts(v, e.cred) : v \in e.live}
HistoryIndependent == \A k \in DOMAIN verdicts : verdicts[k] \in AllowedFor(hist, k)
\* the upstream is contacted exactly once per accepted attempt
UpstreamOnlyWhenAccepted == hits = Cardinality({k \in DOMAIN verdicts : verdicts[k]})
=============================================================================
