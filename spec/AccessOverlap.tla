--------------------------- MODULE AccessOverlap ---------------------------
(***************************************************************************)
(* Route authentication while the htpasswd content CHANGES UNDER REQUESTS  *)
(* IN FLIGHT (property C12: "forwarded only if ... the route's             *)
(* authentication scheme accepts the credentials").                        *)
(*                                                                         *)
(* AccessHist.tla judges sequential histories.  Here a login attempt has   *)
(* an extent: it STARTS (the request is sent) and FINISHES (the client has *)
(* the answer), and the file may be replaced in between - checking a       *)
(* password against a deliberately slow hash (bcrypt) takes long enough    *)
(* for a refresh to happen meanwhile.  The statement:                      *)
(*   - an attempt is judged by a content that was in force at some moment  *)
(*     between its start and its finish (either one, when a replacement    *)
(*     took effect in between);                                            *)
(*   - hence an attempt STARTED AFTER a replacement took effect is judged  *)
(*     by the new content alone, whatever attempts were in flight during   *)
(*     the replacement and whatever their verdicts were: a replaced or     *)
(*     revoked password is not accepted any more.                          *)
(*                                                                         *)
(* Designs: "none" (every check consults the table in force), "checked"    *)
(* (remembers verified credentials, flushes on reload, and stores a        *)
(* verdict only if no reload happened since the check began - correct),    *)
(* "late" (flushes on reload but stores the verdict of a check begun       *)
(* against the old table after the flush - wrong).  The model checker      *)
(* must accept the first two and reject the third.                         *)
(***************************************************************************)
EXTENDS Integers, Sequences, FiniteSets

CONSTANTS
    Creds,        \* credential classes an attempt can present (strings)
    Versions,     \* htpasswd contents (strings)
    Valid,        \* function: version -> set of credential classes it contains
    FirstVersion,
    MaxAttempts, MaxReloads,
    MaxOpen,      \* attempts in flight at the same time
    Design        \* "none" | "checked" | "late"

VARIABLES db,       \* the content in force
          gen,      \* number of replacements that took effect
          open,     \* attempts in flight: id -> [cred, snap (content its check reads), sgen, seen (contents in force since its start)]
          memo,     \* remembered credential classes (designs with a memo)
          hist,     \* events
          verdicts, \* id -> verdict given
          allowed,  \* id -> set of verdicts the statement permits
          hits, nat, nrl
vars == <<db, gen, open, memo, hist, verdicts, allowed, hits, nat, nrl>>

Accepts(v, c) == c \in Valid[v]

Init == /\ db = FirstVersion /\ gen = 0 /\ open = <<>> /\ memo = {} /\ hist = <<>>
        /\ verdicts = <<>> /\ allowed = <<>> /\ hits = 0 /\ nat = 0 /\ nrl = 0

Ev(e, id, c, v, seen) == [ev |-> e, id |-> id, cred |-> c, ver |-> v, seen |-> seen]

OpenIds == {i \in 1..nat : i \in DOMAIN open /\ open[i].cred # ""}
Closed == [cred |-> "", snap |-> "", sgen |-> 0, seen |-> {}]

\* the request is sent: its check will read the table loaded now (or a later one)
Start(c) ==
    /\ nat < MaxAttempts /\ Cardinality(OpenIds) < MaxOpen
    /\ nat' = nat + 1
    /\ open' = Append(open, [cred |-> c, snap |-> db, sgen |-> gen, seen |-> {db}])
    /\ hist' = Append(hist, Ev("start", nat + 1, c, db, {db}))
    /\ UNCHANGED <<db, gen, memo, verdicts, allowed, hits, nrl>>

\* a replacement of the file takes effect (the refresh has run): the memo, if any, is flushed
Reload(v) ==
    /\ nrl < MaxReloads /\ v # db
    /\ \/ nat < MaxAttempts
       \/ OpenIds # {}
    /\ db' = v /\ gen' = gen + 1 /\ memo' = {} /\ nrl' = nrl + 1
    /\ open' = [i \in DOMAIN open |-> IF i \in OpenIds THEN [open[i] EXCEPT !.seen = @ \cup {v}] ELSE open[i]]
    /\ hist' = Append(hist, Ev("reload", 0, "", v, {v}))
    /\ UNCHANGED <<verdicts, allowed, hits, nat>>

\* the client has the answer.  The check read the table it found at the start (the slow comparison runs on it)
Finish(i) ==
    /\ i \in OpenIds
    /\ LET o == open[i]
           match == Accepts(o.snap, o.cred)
           ok == IF Design = "none" THEN match ELSE (o.cred \in memo \/ match)
           store == CASE Design = "late" -> ok
                      [] Design = "checked" -> ok /\ o.sgen = gen
                      [] OTHER -> FALSE
       IN /\ verdicts' = Append(verdicts, [id |-> i, ok |-> ok])
          /\ allowed' = Append(allowed, [id |-> i, may |-> {Accepts(v, o.cred) : v \in o.seen}])
          /\ hits' = IF ok THEN hits + 1 ELSE hits
          /\ memo' = IF store THEN memo \cup {o.cred} ELSE memo
          /\ hist' = Append(hist, Ev("finish", i, o.cred, db, o.seen))
    /\ open' = [open EXCEPT ![i] = Closed]
    /\ UNCHANGED <<db, gen, nat, nrl>>

Next == (\E c \in Creds : Start(c)) \/ (\E v \in Versions : Reload(v)) \/ (\E i \in 1..MaxAttempts : Finish(i))
Spec == Init /\ [][Next]_vars

-----------------------------------------------------------------------------
\* every verdict is one that a content in force during the attempt prescribes; in particular an attempt
\* started after a replacement took effect is judged by the new content alone
OverlapSound == \A k \in DOMAIN verdicts : verdicts[k].ok \in allowed[k].may
\* the upstream is contacted exactly once per accepted attempt
UpstreamOnlyWhenAccepted == hits = Cardinality({k \in DOMAIN verdicts : verdicts[k].ok})
=============================================================================
