---------------------------- MODULE UpdateLoop_Proof ----------------------------
(* TLAPS proof that LastGood is an inductive invariant of UpdateLoop for EVERY message      *)
(* alphabet and every bound (the TLC runs decide it for the bounded alphabets only).         *)
(* Checked with: tlapm --threads 8 UpdateLoop_Proof.tla                                      *)
EXTENDS UpdateLoop, TLAPS

ASSUME NoneIsNoMessage == "none" \notin SvcMsgs

TypeInv == svccfg \in SvcMsgs \cup {"s0"}
Ind == TypeInv /\ LastGood

LEMMA InitInd == Init => Ind
  BY DEF Init, Ind, TypeInv, LastGood

LEMMA StepInd == Ind /\ [Next]_vars => Ind'
<1> SUFFICES ASSUME Ind, [Next]_vars PROVE Ind'
  OBVIOUS
<1>1. CASE \E v \in SvcMsgs : RecvSvc(v)
  BY <1>1 DEF RecvSvc, Ind, TypeInv, LastGood
<1>2. CASE \E v \in ManMsgs : RecvMan(v)
  BY <1>2 DEF RecvMan, Ind, TypeInv, LastGood
<1>3. CASE Same
  BY <1>3 DEF Same, Ind, TypeInv, LastGood
<1>4. CASE Reject
  BY <1>4 DEF Reject, Ind, TypeInv, LastGood
<1>5. CASE Install
  <2>1. svccfg # "none"
    BY NoneIsNoMessage DEF Ind, TypeInv
  <2>2. last' = <<svccfg, mancfg>> /\ active' = Den[<<svccfg, mancfg>>] /\ svccfg' = svccfg
    BY <1>5 DEF Install
  <2>3. last'[1] = svccfg
    BY <2>2
  <2> QED
    BY <2>1, <2>2, <2>3 DEF Ind, TypeInv, LastGood
<1>6. CASE UNCHANGED vars
  BY <1>6 DEF vars, Ind, TypeInv, LastGood
<1> QED
  BY <1>1, <1>2, <1>3, <1>4, <1>5, <1>6 DEF Next

THEOREM Spec => []LastGood
<1>1. Init => Ind
  BY InitInd
<1>2. Ind /\ [Next]_vars => Ind'
  BY StepInd
<1>3. Ind => LastGood
  BY DEF Ind
<1> QED
  BY <1>1, <1>2, <1>3, PTL DEF Spec
=============================================================================
