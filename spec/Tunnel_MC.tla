----------------------------- MODULE Tunnel_MC -----------------------------
(* Bounded scenario universe for Tunnel and the scenario generator: at every terminal   *)
(* state one JSON line with the scenario and the streams the specification delivered.   *)
EXTENDS Tunnel, Json, TLC

CONSTANTS MaxC,       \* client payload bytes (behind the hello on the sni path): 0..MaxC
          MaxU,       \* upstream reply bytes: 0..MaxU
          Kinds       \* subset of {"tcp", "sni", "ws"}

HelloBytes == <<11, 12>>                 \* the ClientHello, two tokens (PeekN = 1: the peek needs the first)
CBytes == <<1, 2, 3, 4, 5>>
UBytes == <<21, 22, 23, 24, 25>>

\* all ways to cut a sequence into non-empty segments (one write each)
RECURSIVE Segs(_)
Segs(s) == IF s = <<>> THEN {<<>>}
           ELSE UNION { { <<SubSeq(s, 1, k)>> \o r : r \in Segs(SubSeq(s, k + 1, Len(s))) } : k \in 1..Len(s) }

CStreams(kind) == { (IF kind = "sni" THEN HelloBytes ELSE <<>>) \o SubSeq(CBytes, 1, n) : n \in 0..MaxC }
UStreams == { SubSeq(UBytes, 1, n) : n \in 0..MaxU }

\* closing behaviours:  cmode / umode  "half"  = shut the write side after the last segment, read to EOF, close
\*                                     "close" = close completely right after the last segment
\*                                     "wait"  = read until the peer's EOF, then close
\* trig: the upstream starts its reply after that many bytes of the client's stream, -1 = after EOF.
\* A scenario is well-posed when a direct connection would carry it to the end without a reset:
\* somebody starts closing, and nobody closes completely while data may still be on its way to it.
WellPosed(L, cm, tr, um) ==
    \/ cm = "half"  /\ tr = -1 /\ um = "close"
    \/ cm = "close" /\ tr = -1 /\ um = "close"
    \/ cm = "half"  /\ tr = L  /\ um = "close"
    \/ cm = "wait"  /\ tr = L  /\ um = "close"
    \/ cm = "half"  /\ tr \in 0..L /\ um \in {"half", "wait"}
    \/ cm = "wait"  /\ tr \in 0..L /\ um = "half"
\* one direction FAILS while the other finished cleanly and is still being delivered to a slow reader:
\* the client sends, half-closes, sees the upstream's first message and goes away (reset); only then
\* the upstream sends its second message (which cannot be delivered any more) and only after that it
\* starts to read.  The client finished first: everything it sent is due at the upstream.
ErrPosed(L, cm, tr, um, us) == cm = "abort" /\ tr = -2 /\ um = "wait" /\ L >= 1 /\ Len(us) = 2

Sc(k, p, cs, us, cm, tr, um, sl) ==
    [kind |-> k, proxy |-> p, cseg |-> cs, hl |-> (IF k = "sni" THEN Len(HelloBytes) ELSE 0),
     useg |-> us, cmode |-> cm, trig |-> tr, umode |-> um, uslow |-> sl, rt |-> 0, wt |-> 0, dead |-> 0, deadpp |-> 0, dt |-> 0, refresh |-> 0]
Proxies(k) == IF k = "ws" THEN {0} ELSE {0, 1}
CSegsOf(k) == UNION { Segs(s) : s \in CStreams(k) }
USegsAll == UNION { Segs(s) : s \in UStreams }

\* every well-posed clean close order
Combos(L) == { c \in {"half", "close", "wait"} \X (-1..L) \X {"half", "close", "wait"} : WellPosed(L, c[1], c[2], c[3]) }
MCClean == UNION { UNION { { Sc(k, p, cs, us, c[1], c[2], c[3], 0) : p \in Proxies(k), us \in USegsAll, c \in Combos(Len(Flatten(cs))) }
                         : cs \in CSegsOf(k) }
                 : k \in Kinds }
\* the failing-direction family
MCErr == UNION { { Sc(k, p, cs, us, "abort", -2, "wait", 1) :
                     p \in Proxies(k), cs \in CSegsOf(k), us \in { u \in USegsAll : Len(u) = 2 } }
               : k \in Kinds }

\* listeners with a read timeout: the reply comes while / after the client has been silent for longer
\* than that (client half-closes and the upstream answers late; client listens to a late reply)
MCTimeout == UNION { UNION { { [Sc(k, p, cs, us, c[1], c[2], c[3], 0) EXCEPT !.rt = 1] :
                                 p \in Proxies(k), us \in { u \in USegsAll : u # <<>> },
                                 c \in { <<"half", -1, "close">>, <<"wait", Len(Flatten(cs)), "close">> } }
                           : cs \in CSegsOf(k) }
                   : k \in Kinds \ {"ws"} }

\* listeners with a write timeout (and no, or a much longer, read timeout): a session with a pause.  The upstream
\* replies in mid-stream (trigger inside the client's stream, behind the hello), the client waits for the reply,
\* is silent for longer than the write timeout and then sends the rest
MCPause == UNION { UNION { { [Sc(k, p, cs, us, c[1], tr, c[2], 0) EXCEPT !.wt = 1] :
                               p \in Proxies(k), us \in { u \in USegsAll : u # <<>> },
                               tr \in ((IF k = "sni" THEN Len(HelloBytes) ELSE 1) .. (Len(Flatten(cs)) - 1)),
                               c \in { <<"half", "half">>, <<"half", "wait">>, <<"wait", "half">> } }
                         : cs \in CSegsOf(k) }
                 : k \in Kinds \ {"ws"} }

\* the same shapes without a read timeout: the proxies have a dial timeout (proxy.dialtimeout) and the tunnel
\* outlives it (dt), resp. the listener is a tcp-dynamic one and the tunnel lives across several refreshes
MCIdle == { [s EXCEPT !.rt = 0, !.dt = 1] : s \in MCTimeout }
MCRefresh == { [s EXCEPT !.rt = 0, !.refresh = 1] : s \in { t \in MCTimeout : t.kind = "tcp" /\ t.proxy = 0 } }

\* a service with two instances whose pxyproto options differ; the dial to the one picked first is refused
MCDead == UNION { UNION { { [Sc(k, p, cs, us, c[1], c[2], c[3], 0) EXCEPT !.dead = 1, !.deadpp = 1 - p] :
                              p \in {0, 1}, us \in { u \in USegsAll : u # <<>> },
                              c \in { <<"half", -1, "close">>, <<"wait", Len(Flatten(cs)), "close">> } }
                        : cs \in CSegsOf(k) }
                : k \in Kinds \ {"ws"} }

Valid(s) == \/ s.uslow = 0 /\ WellPosed(Len(Flatten(s.cseg)), s.cmode, s.trig, s.umode)
            \/ s.uslow = 1 /\ ErrPosed(Len(Flatten(s.cseg)) - s.hl, s.cmode, s.trig, s.umode, s.useg)
MCValid == MCClean \cup { s \in MCErr : Valid(s) } \cup MCTimeout \cup MCDead \cup MCIdle \cup MCRefresh \cup MCPause

ScJson(s) == [kind |-> s.kind, proxy |-> s.proxy, cseg |-> s.cseg, hl |-> s.hl, useg |-> s.useg,
              cmode |-> s.cmode, trig |-> s.trig, umode |-> s.umode, uslow |-> s.uslow, rt |-> s.rt, wt |-> s.wt, dead |-> s.dead, deadpp |-> s.deadpp, dt |-> s.dt, refresh |-> s.refresh]

\* generator: evaluated once per distinct state; prints at the terminal ones
GenOut == Terminated => PrintT(ToJson([sc |-> ScJson(sc), usegs |-> USegs, ufree |-> UFree,
                                       crecv |-> cRecv, urecv |-> uRecv, uconn |-> uConn,
                                       creads |-> (sc.cmode \notin {"close", "abort"})]))
=============================================================================
