---------------------------- MODULE Streaming_MC ----------------------------
(* Bounded universes for Streaming: scenario sets, chunk size classes and their weights.  *)
EXTENDS Streaming, TLC

Sizes == {"s1", "s4k", "s64k"}            \* 1 B, 4 KiB, 64 KiB + 1
MCParts(s) == CASE s = "s1" -> 1 [] s = "s4k" -> 2 [] OTHER -> 3
\* model checking: small weights and a small buffer, so that "the buffer fills" happens
MCUnitWSmall(s, j) == CASE s = "s1" -> 1 [] s = "s4k" -> 2 [] OTHER -> 3
\* generation: the real byte counts (65537 = 21846 + 21846 + 21845)
MCUnitWReal(s, j) == CASE s = "s1" -> 1 [] s = "s4k" -> 2048 [] OTHER -> (IF j = 3 THEN 21845 ELSE 21846)

SeqsUpTo(S, n) == UNION { [1..k -> S] : k \in 0..n }

Sc(f, g, sse, fr, ct, sz, refuse, rht) ==
    [f |-> f, g |-> g, sse |-> sse, fr |-> fr, ct |-> ct, sz |-> sz, refuse |-> refuse, rht |-> rht]

\* the plain exchanges: every interval pair x SSE or not x framing x content type x chunk sequences
Plain(maxn, S, cts) == { Sc(f, g, sse, fr, ct, sz, FALSE, FALSE) :
                          f \in Intervals, g \in Intervals, sse \in BOOLEAN, fr \in Framings, ct \in cts,
                          sz \in SeqsUpTo(S, maxn) }
\* nobody listens / a response header timeout is configured (the intervals do not matter much there)
Special == { Sc(f, f, sse, "cl", "other", << >>, r, ~r) : f \in {"zero", "pos"}, sse \in BOOLEAN, r \in BOOLEAN }

MCFull  == Plain(3, Sizes, {"es", "other"}) \cup Special
MCQuick == Plain(2, Sizes, {"es", "other"}) \cup Special
MCSmall == Plain(2, {"s1", "s64k"}, {"other"}) \cup Special
MCLive  == { s \in Plain(2, {"s4k"}, {"other"}) : s.f # s.g /\ s.fr # "eof" } \cup Special
MCTiny  == { s \in Plain(2, {"s1", "s64k"}, {"other"}) : s.f # s.g /\ s.fr # "eof" } \cup Special
=============================================================================
