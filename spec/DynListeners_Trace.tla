-------------------------- MODULE DynListeners_Trace --------------------------
(* Validation of an execution recorded from the REAL fabio binary (tcp-dynamic listener,  *)
(* consul backend against the fake Consul).  Observable from outside the process, and      *)
(* logged with one logical clock:                                                          *)
(*   Reg                 a registration appears / disappears in the fake Consul            *)
(*   HResp, CResp        the fake Consul answers fabio's blocking health query (the        *)
(*                       snapshot) / the catalog query of one service                      *)
(*   Quiesce             the control-plane barrier returned: both watchers are parked at   *)
(*                       the current indices and the update loop took a KV touch after     *)
(*                       them, i.e. every table built so far is installed                  *)
(*   FBindInv/FBindRet   the harness (a foreign process) tries to bind a port: ok | inuse  *)
(*   FRelInv/FRelRet     ... releases it                                                   *)
(*   ConnInv/ConnRet     a client connects to ip:port; outcome refused | closed | foreign  *)
(*                       | the upstream that greeted it; it may keep the tunnel            *)
(*   ChkInv/ChkRet       ping through a kept tunnel: alive | broken;  Drop                 *)
(* Not observable and therefore silent: table installs (the tables themselves are fixed    *)
(* by the health/catalog answers, exactly as in ControlPlane.tla; they are installed in    *)
(* order, each at some moment after its last catalog answer), every step of the refresh    *)
(* loop, the kernel's and the proxy's part of a connection, the instant of a foreign       *)
(* bind/release inside its bracket.                                                         *)
EXTENDS DynListeners_MC, Json, IOUtils, Sequences
VARIABLES l,
          reg,              \* registrations currently in the registry
          wsnap, wtodo, wacc,   \* service watcher: passing at the last snapshot, catalogs to read, table being built
          queue,            \* tables built and handed to the update loop, not yet installed
          fst, fport, fres  \* the foreign process' pending operation

tvars == <<l, reg, wsnap, wtodo, wacc, queue, fst, fport, fres>>
TraceLog == ndJsonDeserialize(IOEnv.VERIF_TRACE)
E == TraceLog[l]
Ev(e) == l <= Len(TraceLog) /\ TraceLog[l].ev = e /\ l' = l + 1
Design == <<lsn, loopvars, spawned, crashed>>
RU == UNCHANGED <<reg, wsnap, wtodo, wacc, queue>>
FU == UNCHANGED <<fst, fport, fres>>

TInit == /\ TLCSet(1, 0) /\ Init /\ l = 1 /\ reg = {} /\ wsnap = {} /\ wtodo = {} /\ wacc = {} /\ queue = <<>>
         /\ fst = "idle" /\ fport = "" /\ fres = ""

\* ---- the registry, the service watcher (registry/consul/service.go) and the table
TReg == /\ Ev("Reg") /\ reg' = {i \in Inst : E.inst[i] = "pass"}
        /\ UNCHANGED <<vars, wsnap, wtodo, wacc, queue, fst, fport, fres>>
\* the health snapshot; every registration is a service of its own, read from the catalog afterwards
THResp == /\ Ev("HResp") /\ wsnap' = reg /\ wtodo' = reg /\ wacc' = {}
          /\ queue' = IF reg = {} THEN Append(queue, {}) ELSE queue
          /\ UNCHANGED <<vars, reg, fst, fport, fres>>
\* a registration is in the table when it passed in the snapshot and is still registered at its catalog read
TCResp == /\ Ev("CResp") /\ E.i \in wtodo
          /\ wacc' = wacc \cup ({E.i} \cap reg) /\ wtodo' = wtodo \ {E.i}
          /\ queue' = IF wtodo' = {} THEN Append(queue, wacc') ELSE queue
          /\ UNCHANGED <<vars, reg, wsnap, fst, fport, fres>>
\* main.watchBackend takes the tables in the order they were built (unbuffered channel)
Install == /\ l' = l /\ FU /\ queue # <<>> /\ queue' = Tail(queue) /\ UNCHANGED <<reg, wsnap, wtodo, wacc>>
           /\ IF Head(queue) = table THEN UNCHANGED <<table, cseen, dirty>> ELSE SetTable(Head(queue))
           /\ UNCHANGED <<nchg, foreign, nfor, lsn, loopvars, spawned, crashed, cvars, orph, dead>>
TQuiesce == /\ Ev("Quiesce") /\ queue = <<>> /\ wtodo = {}
            /\ UNCHANGED <<vars, reg, wsnap, wtodo, wacc, queue, fst, fport, fres>>

\* ---- the foreign process
FreeNow(p) == Free(p) /\ ~ProbeWindow(p)
TFInv(e, st) == /\ Ev(e) /\ fst = "idle" /\ fst' = st /\ fport' = E.p /\ fres' = ""
                /\ UNCHANGED vars /\ RU
TFBindDo == /\ l' = l /\ fst = "bind" /\ fst' = "done" /\ RU /\ fport' = fport
            /\ \/ /\ Free(fport) /\ foreign' = foreign \cup {fport} /\ dirty' = TRUE /\ fres' = "ok"
                  /\ UNCHANGED <<table, nchg, nfor, lsn, loopvars, spawned, crashed, cvars, orph, dead, cseen>>
               \/ /\ ~FreeNow(fport) /\ fres' = "inuse" /\ UNCHANGED vars
TFRelDo == /\ l' = l /\ fst = "rel" /\ fst' = "done" /\ RU /\ fport' = fport /\ fres' = "ok"
           /\ fport \in foreign /\ foreign' = foreign \ {fport} /\ dirty' = TRUE
           /\ UNCHANGED <<table, nchg, nfor, lsn, loopvars, spawned, crashed, cvars, orph, dead, cseen>>
TFRet(e) == /\ Ev(e) /\ fst = "done" /\ E.res = fres /\ fst' = "idle" /\ fport' = "" /\ fres' = ""
            /\ UNCHANGED vars /\ RU

\* ---- clients
TConnInv == Ev("ConnInv") /\ ConnInv(E.c, E.ip, E.p) /\ RU /\ FU
TConnRet == Ev("ConnRet") /\ cres[E.c] = E.res /\ ConnRet(E.c, E.hold = 1) /\ RU /\ FU
TChkInv  == Ev("ChkInv") /\ ChkInv(E.c) /\ RU /\ FU
TChkRet  == Ev("ChkRet") /\ ChkRet(E.c) /\ cres'[E.c] = E.res /\ RU /\ FU
TDrop    == Ev("Drop") /\ Drop(E.c) /\ RU /\ FU

\* A refresh round that finds nothing to close and nothing it could start returns to the state it
\* began in and its intermediate states enable nothing that its initial state does not: such rounds
\* are not explored (reduction; the set of observable behaviours is the same).
NoOpRound == /\ pc = "sleep" /\ Wanted(table) = lastPorts
             /\ \A p \in Wanted(table) \ lsn : ~Free(p)
Silent == \/ Install
          \/ TFBindDo \/ TFRelDo
          \/ /\ l' = l /\ RU /\ FU
             /\ \/ ~NoOpRound /\ Loop
                \/ \E c \in Clients : ConnSyn(c) \/ ConnForeign(c) \/ ConnServe(c) \/ ConnKill(c)

TNext == TReg \/ THResp \/ TCResp \/ TQuiesce \/ TFInv("FBindInv", "bind") \/ TFInv("FRelInv", "rel")
         \/ TFRet("FBindRet") \/ TFRet("FRelRet")
         \/ TConnInv \/ TConnRet \/ TChkInv \/ TChkRet \/ TDrop \/ Silent
TSpec == TInit /\ [][TNext]_<<vars, tvars>>

TView == <<table, foreign, lsn, loopvars, spawned, crashed, cvars, orph, dead, tvars>>
HW == TLCSet(1, IF TLCGet(1) < l THEN l ELSE TLCGet(1))
Accepted == TLCGet(1) = Len(TraceLog) + 1

=============================================================================
