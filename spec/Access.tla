------------------------------- MODULE Access -------------------------------
(***************************************************************************)
(* Access rules and route authentication of fabio (property C12),          *)
(* transcribed from the property statement and docs/content/feature/       *)
(* access-control.md:                                                       *)
(*                                                                         *)
(*   - a route carries ONE of `allow=` / `deny=`, a comma separated list   *)
(*     of <type>:<data> items; the only type is ip (address or CIDR);      *)
(*   - allow list: admitted iff the peer address AND every address listed  *)
(*     in X-Forwarded-For lie inside some block of the list;               *)
(*   - deny list: rejected iff any of them lies inside a block;            *)
(*   - "a rule that cannot be parsed never widens access": whatever the    *)
(*     implementation does with a list that contains an unparsable item,   *)
(*     or with allow and deny given together (documented as unsupported),  *)
(*     it must not admit anything the well-formed part would not admit.    *)
(*     For such configurations the specification fixes only this UPPER     *)
(*     bound (MayAdmit); the exact decision is fixed (MustAdmit) only for  *)
(*     documented configurations;                                          *)
(*   - an address whose membership the proxy cannot establish (a           *)
(*     zone-scoped IPv6 literal such as fe80::1%eth0) is judged by its     *)
(*     address part for the upper bound and is never REQUIRED to be        *)
(*     admitted when rules exist;                                          *)
(*   - the other options of the same target (redirect=, strip=, host=, ...) *)
(*     do not take part in the decision; a malformed one must never widen  *)
(*     access either (what else happens to such a target is left open:     *)
(*     MustAdmit holds only for targets whose other options are valid);    *)
(*   - authentication: no scheme => authorised; a scheme name that is not  *)
(*     configured => nobody is; basic => the credentials must match.       *)
(*                                                                         *)
(* The gate is a small state machine: after the route lookup two checks    *)
(* (access, auth) are made, in an order the statement does not fix; a      *)
(* failed access check answers 403 (TCP: the connection is closed), a      *)
(* failed auth check answers 401; the upstream is contacted only by the    *)
(* Forward / Dial step.                                                    *)
(***************************************************************************)
EXTENDS Integers, Sequences, FiniteSets

CONSTANTS
    Items,      \* rule items usable in a list (strings)
    WFItems,    \* the well-formed ones (blocks)
    Addrs,      \* address universe (strings)
    Zoned,      \* addresses carrying an IPv6 zone (membership judged by the address part)
    Member,     \* set of <<address, block>>: the address (part) lies inside the block
    Schemes,    \* auth scheme names usable on a route ("" = none)
    KnownSchemes, \* the configured ones (all of type basic)
    Creds,      \* credential classes: "none" "good" "bad" "malformed"
    Protos,     \* subset of {"http", "tcp"}
    Others,     \* classes of OTHER options the same target carries next to its rules ("" = none): redirect=, strip=,
                \* host=, ... valid or not.  They say nothing about who may use the route.
    Redirects,  \* those of them that make the route answer with a redirect (redirect=<3xx>) instead of forwarding:
                \* such a route never contacts an upstream, but WHO is told the new location is gated all the same -
                \* a client the rules or the scheme reject gets 403 / 401, not the 30x
    ValidOthers, \* those of them that are documented and well-formed (incl. "")
    MaxItems,   \* bound on Len(allow) + Len(deny)
    MaxXff,     \* bound on the JUDGED part of the X-Forwarded-For chain
    Pres,       \* numbers of filler hops in front of the judged part (boundary values, e.g. {0, 15, 16, 17, 200})
    Sufs,       \* numbers of filler hops behind it
    Fills       \* address classes the filler hops may all have

VARIABLES phase, rules, req, pc, todo, hits
vars == <<phase, rules, req, pc, todo, hits>>

-----------------------------------------------------------------------------
\* the decision operators
SeqToSet(q) == {q[i] : i \in DOMAIN q}
WF(list) == SeqToSet(list) \cap WFItems
Malformed(list) == \E i \in DOMAIN list : list[i] \notin WFItems
Covered(a, list) == \E b \in WF(list) : <<a, b>> \in Member

NoRules(r) == r.allow = <<>> /\ r.deny = <<>>
\* a documented configuration: one of allow / deny, every item parses
Clean(r) == /\ ~(r.allow # <<>> /\ r.deny # <<>>)
            /\ ~Malformed(r.allow) /\ ~Malformed(r.deny)

\* what the well-formed part of the configuration says about one address
WFAdmitAddr(r, a) == /\ (r.allow # <<>> => Covered(a, r.allow))
                     /\ (r.deny  # <<>> => ~Covered(a, r.deny))
\* An X-Forwarded-For chain of arbitrary length is  pre x fill, the judged elements xff, suf x fill :
\* TLC enumerates the judged part, the harness unrolls the fillers.  Every element counts, wherever
\* it stands and however long the chain is.
Checked(q) == {q.peer} \cup SeqToSet(q.xff) \cup (IF q.pre + q.suf > 0 THEN {q.fill} ELSE {})

\* upper bound: nothing outside this may ever be forwarded
MayAdmit(r, q)  == \A a \in Checked(q) : WFAdmitAddr(r, a)
\* lower bound: this must be forwarded (as far as access rules go)
MustAdmit(r, q) == /\ r.other \in ValidOthers
                   /\ \/ NoRules(r)
                      \/ (Clean(r) /\ MayAdmit(r, q) /\ Checked(q) \cap Zoned = {})

Authorized(s, c) == \/ s = ""
                    \/ (s \in KnownSchemes /\ c = "good")
AuthOK(q) == q.proto = "tcp" \/ Authorized(q.scheme, q.creds)

\* terminal gate states the statement permits for a case
Outcomes(r, q) ==
    IF q.proto = "http"
    THEN (IF MayAdmit(r, q) /\ AuthOK(q) THEN {IF r.other \in Redirects THEN "redirect" ELSE "forward"} ELSE {})
         \cup (IF ~MustAdmit(r, q) THEN {"deny403"} ELSE {})
         \cup (IF ~AuthOK(q) THEN {"deny401"} ELSE {})
    ELSE (IF MayAdmit(r, q) THEN {"dial"} ELSE {})
         \cup (IF ~MustAdmit(r, q) THEN {"close"} ELSE {})

-----------------------------------------------------------------------------
\* universes
SeqsUpTo(S, n) == UNION {[1..k -> S] : k \in 0..n}
Configs == {c \in [allow : SeqsUpTo(Items, MaxItems), deny : SeqsUpTo(Items, MaxItems), other : Others] :
              Len(c.allow) + Len(c.deny) <= MaxItems}
HttpReqs == IF "http" \in Protos
            THEN {q \in [proto : {"http"}, peer : Addrs, xff : SeqsUpTo(Addrs, MaxXff), scheme : Schemes, creds : Creds,
                          pre : Pres, suf : Sufs, fill : Fills] :
                     \* one spelling of "no fillers"; fillers only around a non-empty judged part or alone
                     (q.pre + q.suf = 0) => (q.fill = CHOOSE f \in Fills : TRUE)}
            ELSE {}
TcpReqs  == IF "tcp" \in Protos
            THEN [proto : {"tcp"}, peer : Addrs, xff : {<<>>}, scheme : {""}, creds : {"none"},
                  pre : {0}, suf : {0}, fill : {CHOOSE f \in Fills : TRUE}]
            ELSE {}
Reqs == HttpReqs \cup TcpReqs

NoCfg == [allow |-> <<>>, deny |-> <<>>, other |-> ""]
NoReq == [proto |-> "", peer |-> "", xff |-> <<>>, scheme |-> "", creds |-> "", pre |-> 0, suf |-> 0, fill |-> ""]

-----------------------------------------------------------------------------
\* the gate
Init == phase = "rules" /\ rules = NoCfg /\ req = NoReq /\ pc = "idle" /\ todo = {} /\ hits = 0

ChooseRules(c) == /\ phase = "rules"
                  /\ rules' = c /\ phase' = "req"
                  /\ UNCHANGED <<req, pc, todo, hits>>

ChooseReq(q) == /\ phase = "req"
                /\ req' = q /\ phase' = "gate" /\ pc' = "lookup"
                /\ UNCHANGED <<rules, todo, hits>>

Lookup == /\ pc = "lookup"
          /\ pc' = "checking"
          /\ todo' = IF req.proto = "http" THEN {"access", "auth"} ELSE {"access"}
          /\ UNCHANGED <<phase, rules, req, hits>>

AccessPass == /\ pc = "checking" /\ "access" \in todo
              /\ MayAdmit(rules, req)
              /\ todo' = todo \ {"access"}
              /\ UNCHANGED <<phase, rules, req, pc, hits>>
AccessDeny == /\ pc = "checking" /\ "access" \in todo
              /\ ~MustAdmit(rules, req)
              /\ pc' = IF req.proto = "http" THEN "deny403" ELSE "close"
              /\ UNCHANGED <<phase, rules, req, todo, hits>>
AuthPass == /\ pc = "checking" /\ "auth" \in todo
            /\ AuthOK(req)
            /\ todo' = todo \ {"auth"}
            /\ UNCHANGED <<phase, rules, req, pc, hits>>
AuthDeny == /\ pc = "checking" /\ "auth" \in todo
            /\ ~AuthOK(req)
            /\ pc' = "deny401"
            /\ UNCHANGED <<phase, rules, req, todo, hits>>
\* the only step that touches the upstream
Forward == /\ pc = "checking" /\ todo = {}
           /\ pc' = IF req.proto = "http" THEN (IF rules.other \in Redirects THEN "redirect" ELSE "forward") ELSE "dial"
           /\ hits' = IF req.proto = "http" /\ rules.other \in Redirects THEN hits ELSE hits + 1
           /\ UNCHANGED <<phase, rules, req, todo>>

Gate == Lookup \/ AccessPass \/ AccessDeny \/ AuthPass \/ AuthDeny \/ Forward
\* (the phase guards stand in front of the quantifiers so that TLC does not enumerate the universes in
\* states where nothing is to be chosen)
Next == \/ (phase = "rules" /\ \E c \in Configs : ChooseRules(c))
        \/ (phase = "req" /\ \E q \in Reqs : ChooseReq(q))
        \/ Gate
Spec == Init /\ [][Next]_vars

-----------------------------------------------------------------------------
\* properties
Terminal == {"forward", "redirect", "dial", "deny403", "deny401", "close"}
TypeOK == /\ phase \in {"rules", "req", "gate"}
          /\ pc \in {"idle", "lookup", "checking"} \cup Terminal
          /\ hits \in 0..1

\* C12, first sentence
GateSafe == pc \in {"forward", "dial", "redirect"} => MayAdmit(rules, req) /\ AuthOK(req)
DeniedUntouched == pc \in {"deny403", "deny401", "close", "redirect"} => hits = 0
ForwardedOnce == pc \in {"forward", "dial"} => hits = 1
\* the declarative outcome set handed to the harness is exactly what the gate can reach
OutcomeSound == pc \in Terminal => pc \in Outcomes(rules, req)
\* a documented configuration with plain addresses and good credentials is served
NoSpuriousDeny == (MustAdmit(rules, req) /\ AuthOK(req)) => pc \notin {"deny403", "deny401", "close"}
\* the clauses below speak about the operators only; they are evaluated once per case
AtCase == phase = "gate" /\ pc = "lookup"
SomeOutcome == AtCase => Outcomes(rules, req) # {}

\* the clauses of the statement about lists, checked on the operators
InsertAt(list, i, x) == SubSeq(list, 1, i - 1) \o <<x>> \o SubSeq(list, i, Len(list))
\* "a rule that cannot be parsed never widens access": adding an unparsable item anywhere
\* (or the other option, making the configuration an unsupported one) never turns a denied
\* request into one that may be admitted, and never creates an obligation to admit
NeverWidens ==
    AtCase =>
      \A x \in Items \ WFItems :
        /\ \A i \in 1..(Len(rules.allow) + 1) :
             LET r2 == [rules EXCEPT !.allow = InsertAt(rules.allow, i, x)] IN
             /\ MayAdmit(r2, req) => MayAdmit(rules, req)
             /\ ~MustAdmit(r2, req)
        /\ \A i \in 1..(Len(rules.deny) + 1) :
             LET r2 == [rules EXCEPT !.deny = InsertAt(rules.deny, i, x)] IN
             /\ MayAdmit(r2, req) => MayAdmit(rules, req)
             /\ ~MustAdmit(r2, req)
AllowOnlyInside ==
    (AtCase /\ rules.allow # <<>> /\ MayAdmit(rules, req)) =>
        \A a \in Checked(req) : \E i \in DOMAIN rules.allow :
            rules.allow[i] \in WFItems /\ <<a, rules.allow[i]>> \in Member
DenyRejectsInside ==
    (AtCase /\ rules.deny # <<>>
       /\ \E a \in Checked(req) : \E i \in DOMAIN rules.deny : <<a, rules.deny[i]>> \in Member)
    => ~MayAdmit(rules, req)
\* whatever other option the target carries - malformed or not - the upper bound is the one of the rules, and
\* a malformed one creates no obligation to admit
OtherOptionNeverWidens ==
    AtCase => \A o \in Others :
        LET r2 == [rules EXCEPT !.other = o] IN
        /\ MayAdmit(r2, req) = MayAdmit(rules, req)
        /\ (o \notin ValidOthers => ~MustAdmit(r2, req))
\* the length of the chain and the position of an element do not matter: moving fillers from the
\* front to the back, or adding more of them, never changes the bounds
ChainPositionFree ==
    AtCase => \A p \in Pres, sfx \in Sufs :
        (p + sfx > 0 /\ req.pre + req.suf > 0) =>
            LET q2 == [req EXCEPT !.pre = p, !.suf = sfx] IN
            /\ MayAdmit(rules, q2) = MayAdmit(rules, req)
            /\ MustAdmit(rules, q2) = MustAdmit(rules, req)
UnknownSchemeRejects ==
    (AtCase /\ req.proto = "http" /\ req.scheme # "" /\ req.scheme \notin KnownSchemes) => ~AuthOK(req)
\* order independence of a list's well-formed meaning is NOT claimed for the code; the
\* specification's bound only depends on the set of well-formed blocks
=============================================================================
