------------------------------ MODULE AccessLog ------------------------------
(***************************************************************************)
(* fabio's access log, transcribed from the package documentation of       *)
(* logger (the list of fields and their formats), the doc comment of the   *)
(* format parser and the statement of property C20:                        *)
(*                                                                         *)
(*  - a format is a sequence of tokens: literal text, $field,              *)
(*    $header.<name>; a field name that is not documented makes the format *)
(*    invalid ("$header." without a name is the unknown field "$header");  *)
(*    a '$' that starts no name is literal text; the empty format is       *)
(*    invalid;                                                             *)
(*  - logging an event with a valid format writes exactly one line: the    *)
(*    renderings of the tokens in order, literal text verbatim, one        *)
(*    terminating newline;                                                 *)
(*  - numbers are decimal (Dec, zero padded where the documented layout    *)
(*    has a fixed width), times are UTC civil time, hexadecimal and UUID   *)
(*    layouts are fixed.  All of these are DEFINED here from \div and %.   *)
(*                                                                         *)
(*  - the EVENT that is logged is constructed from the exchange: the      *)
(*    status is the final status the client received (never an            *)
(*    informational 1xx that preceded it), the body size is the number of *)
(*    body bytes the client received, the request fields are what the     *)
(*    client sent, the upstream fields name the target that was contacted *)
(*    (section "the exchange").                                           *)
(*                                                                         *)
(* TLC integers are 32 bit.  Values that do not fit (sizes up to 2^63-1,   *)
(* unix times in ms/us/ns) are naturals in base 10^4, least significant    *)
(* limb first (the Big operators); everything else is a plain integer.                  *)
(***************************************************************************)
EXTENDS Integers, Sequences, FiniteSets

CONSTANTS
    Tokens,       \* format tokens: records [k |-> kind, v |-> spelling, lead |-> "sep" | "id"]
    DeepTokens,   \* the tokens formats longer than two tokens are built from
    Events,       \* log events (records, see EventOK)
    MaxTokens,
    Exchanges,    \* HTTP exchanges through the proxy (records, see "the exchange")
    XFormats,     \* the formats (token sequences) exchanges are logged with
    MaxServes     \* how many exchanges one proxy + logger serves in a history

VARIABLES fmt, pc, ev, xch, out,
          served  \* the exchanges this proxy + logger completed before the current one
vars == <<fmt, pc, ev, xch, out, served>>

-----------------------------------------------------------------------------
\* decimal, hexadecimal
Digit == <<"0", "1", "2", "3", "4", "5", "6", "7", "8", "9", "a", "b", "c", "d", "e", "f">>
RECURSIVE DecS(_)
DecS(n) == IF n < 10 THEN Digit[n + 1] ELSE DecS(n \div 10) \o Digit[(n % 10) + 1]
RECURSIVE NDigits(_)
NDigits(n) == IF n < 10 THEN 1 ELSE 1 + NDigits(n \div 10)
RECURSIVE Zeros(_)
Zeros(k) == IF k <= 0 THEN "" ELSE "0" \o Zeros(k - 1)
\* Dec(n, w): n >= 0 in decimal, left padded with zeros to at least w digits
Dec(n, w) == Zeros(w - NDigits(n)) \o DecS(n)

Hex2(n) == Digit[((n \div 16) % 16) + 1] \o Digit[(n % 16) + 1]
\* the layout of fmt "0x%04x" for a 16 bit value
Hex4(n) == "0x" \o Hex2(n \div 256) \o Hex2(n % 256)

\* a UUID is 16 bytes: 4-2-2-2-6 bytes in lower case hex separated by '-'
RECURSIVE HexBytes(_, _, _)
HexBytes(b, i, j) == IF i > j THEN "" ELSE Hex2(b[i]) \o HexBytes(b, i + 1, j)
UUIDStr(b) == HexBytes(b, 1, 4) \o "-" \o HexBytes(b, 5, 6) \o "-" \o HexBytes(b, 7, 8) \o "-" \o
              HexBytes(b, 9, 10) \o "-" \o HexBytes(b, 11, 16)

\* naturals beyond 2^31: base 10^4 limbs, least significant first, no leading zero limb; zero = <<>>
B == 10000
RECURSIVE BigOf(_)
BigOf(n) == IF n = 0 THEN <<>> ELSE <<n % B>> \o BigOf(n \div B)
RECURSIVE BigMulAdd(_, _, _)
\* x * k + c   for k <= 10^5, c < 2^30
BigMulAdd(x, k, c) == IF x = <<>> THEN BigOf(c)
                      ELSE LET v == Head(x) * k + c IN <<v % B>> \o BigMulAdd(Tail(x), k, v \div B)
RECURSIVE BigLow(_, _)
BigLow(x, i) == IF i = 0 THEN "" ELSE Dec(x[i], 4) \o BigLow(x, i - 1)
BigDec(x) == IF x = <<>> THEN "0" ELSE DecS(x[Len(x)]) \o BigLow(x, Len(x) - 1)

-----------------------------------------------------------------------------
\* civil UTC time t = [Y, M, D, h, m, s, ns]  ->  days since 1970-01-01 (proleptic Gregorian)
IsLeap(y) == (y % 4 = 0 /\ y % 100 # 0) \/ y % 400 = 0
DaysIn(y, m) == IF m = 2 THEN (IF IsLeap(y) THEN 29 ELSE 28) ELSE IF m \in {4, 6, 9, 11} THEN 30 ELSE 31
DaysFromCivil(y, m, d) ==
    LET yy  == IF m <= 2 THEN y - 1 ELSE y
        era == yy \div 400
        yoe == yy - era * 400
        mp  == (m + 9) % 12
        doy == (153 * mp + 2) \div 5 + d - 1
        doe == yoe * 365 + yoe \div 4 - yoe \div 100 + doy
    IN era * 146097 + doe - 719468
UnixSec(t) == BigMulAdd(BigOf(DaysFromCivil(t.Y, t.M, t.D)), 86400, t.h * 3600 + t.m * 60 + t.s)
UnixMs(t)  == BigMulAdd(UnixSec(t), 1000, t.ns \div 1000000)
UnixUs(t)  == BigMulAdd(UnixMs(t), 1000, (t.ns \div 1000) % 1000)
UnixNs(t)  == BigMulAdd(UnixUs(t), 1000, t.ns % 1000)
Mon == <<"Jan", "Feb", "Mar", "Apr", "May", "Jun", "Jul", "Aug", "Sep", "Oct", "Nov", "Dec">>
HMS(t)  == Dec(t.h, 2) \o ":" \o Dec(t.m, 2) \o ":" \o Dec(t.s, 2)
YMDT(t) == Dec(t.Y, 4) \o "-" \o Dec(t.M, 2) \o "-" \o Dec(t.D, 2) \o "T" \o HMS(t)
TimeOK(t) == /\ t.Y \in 1970..2262 /\ t.M \in 1..12 /\ t.D \in 1..DaysIn(t.Y, t.M)
             /\ t.h \in 0..23 /\ t.m \in 0..59 /\ t.s \in 0..59 /\ t.ns \in 0..999999999

-----------------------------------------------------------------------------
\* addresses: [form, h, p]
\*   "hp"  h:p      "h"  h (no port)     "v6p"  [h]:p     "v6"  [h] (no port)     "empty"
AddrStr(a) == CASE a.form = "hp"  -> a.h \o ":" \o a.p
                [] a.form = "h"   -> a.h
                [] a.form = "v6p" -> "[" \o a.h \o "]:" \o a.p
                [] a.form = "v6"  -> "[" \o a.h \o "]"
                [] OTHER          -> ""
\* the statement names no standard function for the split: for a bracketed IPv6 literal the
\* host may be rendered with or without the brackets
HostAlts(a) == CASE a.form \in {"hp", "h"}   -> {a.h}
                 [] a.form \in {"v6p", "v6"} -> {a.h, "[" \o a.h \o "]"}
                 [] OTHER                    -> {""}
PortStr(a) == IF a.form \in {"hp", "v6p"} THEN a.p ELSE ""

\* URLs: [present, scheme, host, path, query]
UrlURI(u) == (IF u.path = "" THEN "/" ELSE u.path) \o (IF u.query = "" THEN "" ELSE "?" \o u.query)
UrlStr(u) == u.scheme \o "://" \o u.host \o u.path \o (IF u.query = "" THEN "" ELSE "?" \o u.query)

\* header lookup is what net/http's Header.Get does: the event carries the keys of the header map
\* verbatim, each with its list of values (possibly empty or nil, possibly several); a token carries
\* the canonical form of its spelling in .canon.  The value is the FIRST value filed under exactly
\* the canonical key, "" if there is no such key, no value, or no header map at all.
HeaderVal(e, canon) == IF ~e.req \/ ~e.hmap THEN ""
                       ELSE IF \E i \in DOMAIN e.hdr : e.hdr[i].name = canon
                            THEN LET h == e.hdr[CHOOSE i \in DOMAIN e.hdr : e.hdr[i].name = canon]
                                 IN IF h.vals = <<>> THEN "" ELSE h.vals[1]
                            ELSE ""

-----------------------------------------------------------------------------
\* the documented fields and what each renders (a SET of admissible strings; singleton except hosts)
FieldAlts(f, e) ==
    CASE f = "$remote_addr"    -> {IF e.req THEN AddrStr(e.raddr) ELSE ""}
      [] f = "$remote_host"    -> IF e.req THEN HostAlts(e.raddr) ELSE {""}
      [] f = "$remote_port"    -> {IF e.req THEN PortStr(e.raddr) ELSE ""}
      [] f = "$request"        -> {IF e.req THEN e.method \o " " \o e.uri \o " " \o e.proto ELSE ""}
      [] f = "$request_args"   -> {IF e.rurl.present THEN e.rurl.query ELSE ""}
      [] f = "$request_host"   -> {IF e.req THEN e.host ELSE ""}
      [] f = "$request_method" -> {IF e.req THEN e.method ELSE ""}
      [] f = "$request_scheme" -> {IF e.rurl.present THEN e.rurl.scheme ELSE ""}
      [] f = "$request_uri"    -> {IF e.req THEN e.uri ELSE ""}
      [] f = "$request_url"    -> {IF e.rurl.present THEN UrlStr(e.rurl) ELSE ""}
      [] f = "$request_proto"  -> {IF e.req THEN e.proto ELSE ""}
      [] f = "$response_body_size" -> {BigDec(e.size)}
      [] f = "$response_status"    -> {Dec(e.status, 0)}
      [] f = "$response_time_ms" -> {Dec(e.dur.s, 0) \o "." \o Dec(e.dur.ns \div 1000000, 3)}
      [] f = "$response_time_us" -> {Dec(e.dur.s, 0) \o "." \o Dec(e.dur.ns \div 1000, 6)}
      [] f = "$response_time_ns" -> {Dec(e.dur.s, 0) \o "." \o Dec(e.dur.ns, 9)}
      [] f = "$time_rfc3339"     -> {YMDT(e.t) \o "Z"}
      [] f = "$time_rfc3339_ms"  -> {YMDT(e.t) \o "." \o Dec(e.t.ns \div 1000000, 3) \o "Z"}
      [] f = "$time_rfc3339_us"  -> {YMDT(e.t) \o "." \o Dec(e.t.ns \div 1000, 6) \o "Z"}
      [] f = "$time_rfc3339_ns"  -> {YMDT(e.t) \o "." \o Dec(e.t.ns, 9) \o "Z"}
      [] f = "$time_unix_ms"     -> {BigDec(UnixMs(e.t))}
      [] f = "$time_unix_us"     -> {BigDec(UnixUs(e.t))}
      [] f = "$time_unix_ns"     -> {BigDec(UnixNs(e.t))}
      [] f = "$time_common"      -> {Dec(e.t.D, 2) \o "/" \o Mon[e.t.M] \o "/" \o Dec(e.t.Y, 4) \o ":" \o HMS(e.t) \o " +0000"}
      [] f = "$upstream_addr"    -> {AddrStr(e.uaddr)}
      [] f = "$upstream_host"    -> HostAlts(e.uaddr)
      [] f = "$upstream_port"    -> {PortStr(e.uaddr)}
      [] f = "$upstream_request_scheme" -> {IF e.uurl.present THEN e.uurl.scheme ELSE ""}
      [] f = "$upstream_request_uri"    -> {IF e.uurl.present THEN UrlURI(e.uurl) ELSE ""}
      [] f = "$upstream_request_url"    -> {IF e.uurl.present THEN UrlStr(e.uurl) ELSE ""}
      [] f = "$upstream_service"        -> {e.svc}
KnownFields == {"$remote_addr", "$remote_host", "$remote_port", "$request", "$request_args", "$request_host",
                "$request_method", "$request_scheme", "$request_uri", "$request_url", "$request_proto",
                "$response_body_size", "$response_status", "$response_time_ms", "$response_time_us",
                "$response_time_ns", "$time_rfc3339", "$time_rfc3339_ms", "$time_rfc3339_us", "$time_rfc3339_ns",
                "$time_unix_ms", "$time_unix_us", "$time_unix_ns", "$time_common", "$upstream_addr",
                "$upstream_host", "$upstream_port", "$upstream_request_scheme", "$upstream_request_uri",
                "$upstream_request_url", "$upstream_service"}

\* token kinds: "text" literal, "dollar" a '$' that starts no name (literal), "field", "header",
\*              "unknown" an undocumented $name, "hdrdot" = "$header." without a name
Literal(t) == t.k \in {"text", "dollar"}
Invalid(t) == t.k \in {"unknown", "hdrdot"} \/ (t.k = "field" /\ t.v \notin KnownFields)
PieceAlts(t, e) == CASE Literal(t)     -> {t.v}
                     [] t.k = "header" -> {HeaderVal(e, t.canon)}
                     [] t.k = "field"  -> FieldAlts(t.v, e)

Accepts(f) == f # <<>> /\ \A i \in DOMAIN f : ~Invalid(f[i])
\* the body of the line: every way of choosing one admissible rendering per token, in order
RECURSIVE Bodies(_, _)
Bodies(f, e) == IF f = <<>> THEN {""} ELSE {a \o b : a \in PieceAlts(Head(f), e), b \in Bodies(Tail(f), e)}
Lines(f, e) == {b \o "\n" : b \in Bodies(f, e)}

\* which concatenations of tokens are unambiguous format strings (everything else is outside
\* the documented grammar and not part of the universe)
Joinable(a, b) == /\ ~(a.k = "text" /\ b.k = "text")
                  /\ (a.k # "text" /\ b.k = "text") => b.lead = "sep"
                  /\ a.k = "dollar" => b.k = "text"
WellFormed(f) == \A i \in 1..(Len(f) - 1) : Joinable(f[i], f[i + 1])


-----------------------------------------------------------------------------
\* the exchange: what happens on the wire, and the event the proxy has to hand to the logger
\*
\* x = [id, kind, method, path, query, host, expect, info, status, framing, chunks, raddr, target, svc]
\*   kind   "proxied"  the upstream answers: informational responses x.info (1xx), then x.status,
\*                     then the body in the pieces x.chunks (none for HEAD / 204 / 304)
\*          "refused"  nothing listens at the target: the proxy answers 502
\*          "timeout"  the upstream does not answer in time: the proxy answers 504
\*          "noroute"  no route matches: the proxy answers 404 itself
\*          "redirect" the route is a redirect: the proxy answers x.status (3xx) itself
\*          "aborted"  the client hangs up while the upstream has not answered yet: the proxy ends the
\*                     exchange with status 499 (client closed request); nobody reads it, it is logged
\* x.fwdhdr  what the client says about the original scheme: "none" | "xfp" (X-Forwarded-Proto: https) |
\*           "fwd" (Forwarded: proto=https).  fabio derives the request scheme from exactly one of them,
\*           otherwise from the connection (plain: http) - and logs the scheme it derived and forwards.
\* x.ridcfg  proxy.header.requestid as configured ("" = off, any letter case): fabio puts ITS id into
\*           that header (replacing the client's) for the upstream AND, being a request header, for
\*           $header.<name>; header names are case-insensitive.
\* The handler side of the exchange is a script of calls WriteHeader(n) / Write(n bytes); the wire
\* semantics of an HTTP/1.1 server turn the script into what the client receives:
\*   - an informational status (1xx other than 101) is sent at once and fixes nothing,
\*   - the first other status is THE status of the response, later ones are superfluous,
\*   - a Write before any status implies 200,
\*   - body bytes reach the client unless the method is HEAD or the status forbids a body.
WH(n) == [op |-> "wh", n |-> n]
WR(n) == [op |-> "w", n |-> n]
Informational(c) == c \in 100..199 /\ c # 101
BodyAllowed(m, s) == m # "HEAD" /\ s \notin {204, 304} /\ s \notin 100..199
UpstreamBody(x) == IF BodyAllowed(x.method, x.status) THEN x.chunks ELSE <<>>
Script(x) == CASE x.kind = "proxied"  -> [i \in DOMAIN x.info |-> WH(x.info[i])] \o <<WH(x.status)>> \o
                                         [i \in DOMAIN UpstreamBody(x) |-> WR(UpstreamBody(x)[i])]
               [] x.kind = "refused"  -> <<WH(502)>>
               [] x.kind = "timeout"  -> <<WH(504)>>
               [] x.kind = "noroute"  -> <<WH(404)>>
               [] x.kind = "redirect" -> <<WH(x.status)>>
               [] x.kind = "aborted"  -> <<WH(499)>>
WireStep(st, c, m) ==
    IF c.op = "wh"
    THEN IF st.status = 0 /\ ~Informational(c.n) THEN [st EXCEPT !.status = c.n]
         ELSE IF st.status = 0 THEN [st EXCEPT !.infos = Append(@, c.n)] ELSE st
    ELSE LET s2 == IF st.status = 0 THEN 200 ELSE st.status
         IN [st EXCEPT !.status = s2, !.bytes = @ + (IF BodyAllowed(m, s2) THEN c.n ELSE 0)]
RECURSIVE Wire(_, _, _)
Wire(st, sc, m) == IF sc = <<>> THEN st ELSE Wire(WireStep(st, Head(sc), m), Tail(sc), m)
\* what the client receives: final status, number of body bytes, the informational statuses before it
ClientView(x) == Wire([status |-> 0, bytes |-> 0, infos |-> <<>>], Script(x), x.method)

\* the event of a completed exchange (time and duration are bound by the harness, not here)
NoAddr == [form |-> "empty", h |-> "", p |-> ""]
Contacted(x) == x.kind \in {"proxied", "refused", "timeout", "aborted"}
ReqScheme(x) == IF x.fwdhdr \in {"xfp", "fwd"} THEN "https" ELSE "http"
\* the request headers as the proxy forwards and logs them, as far as the exchange universe looks at them
RidHeader(x) == IF x.ridcfg # "" THEN << [name |-> x.ridcanon, vals |-> <<x.fabioid>>, nilv |-> FALSE] >>
                ELSE IF x.ridclient # "" THEN << [name |-> x.ridcanon, vals |-> <<x.ridclient>>, nilv |-> FALSE] >>
                ELSE << >>
EventOf(x) ==
    LET cv == ClientView(x) IN
    [req |-> TRUE, t |-> [Y |-> 1970, M |-> 1, D |-> 1, h |-> 0, m |-> 0, s |-> 0, ns |-> 0], dur |-> [s |-> 0, ns |-> 0],
     size |-> BigOf(cv.bytes), status |-> cv.status,
     raddr |-> x.raddr, uaddr |-> IF Contacted(x) THEN x.target ELSE NoAddr,
     method |-> x.method, uri |-> x.path \o (IF x.query = "" THEN "" ELSE "?" \o x.query), proto |-> "HTTP/1.1", host |-> x.host,
     rurl |-> [present |-> TRUE, scheme |-> ReqScheme(x), host |-> x.host, path |-> x.path, query |-> x.query],
     uurl |-> IF Contacted(x) THEN [present |-> TRUE, scheme |-> "http", host |-> AddrStr(x.target), path |-> x.path, query |-> x.query]
              ELSE [present |-> FALSE, scheme |-> "", host |-> "", path |-> "", query |-> ""],
     hmap |-> TRUE, hdr |-> RidHeader(x) \o x.hdr, svc |-> IF Contacted(x) THEN x.svc ELSE ""]
\* the statement says nothing about the upstream fields of an exchange that contacts no upstream
UpstreamField(t) == t.k = "field" /\ t.v \in {"$upstream_addr", "$upstream_host", "$upstream_port", "$upstream_request_scheme",
                                               "$upstream_request_uri", "$upstream_request_url", "$upstream_service"}
SizeField(t) == t.k = "field" /\ t.v = "$response_body_size"
\* ... nor about the size of the body net/http writes for a redirect
Prescribed(x, f) == /\ ~Contacted(x) => \A i \in DOMAIN f : ~UpstreamField(f[i])
                    /\ x.kind = "redirect" => \A i \in DOMAIN f : ~SizeField(f[i])

-----------------------------------------------------------------------------
\* the machine:  build a format -> Parse -> (Reject | Ready) -> Log(event) | Serve(exchange) -> Written
None == "-"
Init == fmt \in {<<>>} \cup XFormats /\ pc = "build" /\ ev = 0 /\ xch = None /\ out = <<>> /\ served = <<>>

Extend(t) == /\ pc = "build" /\ Len(fmt) < MaxTokens
             /\ Len(fmt) >= 2 => (t \in DeepTokens /\ \A i \in DOMAIN fmt : fmt[i] \in DeepTokens)
             /\ IF fmt = <<>> THEN TRUE ELSE Joinable(fmt[Len(fmt)], t)
             /\ fmt' = Append(fmt, t)
             /\ UNCHANGED <<pc, ev, xch, out, served>>
Parse == /\ pc = "build"
         /\ pc' = IF Accepts(fmt) THEN "ready" ELSE "rejected"
         /\ UNCHANGED <<fmt, ev, xch, out, served>>
\* out: one set of admissible renderings per token, in order, and the line terminator
Log(i) == /\ pc = "ready"
          /\ ev' = i
          /\ out' = [k \in DOMAIN fmt |-> PieceAlts(fmt[k], Events[i])] \o << {"\n"} >>
          /\ pc' = "written"
          /\ UNCHANGED <<fmt, xch, served>>
\* an exchange through the proxy completes: its event is constructed and logged
Serve(x) == /\ pc = "ready" /\ fmt \in XFormats /\ Prescribed(x, fmt)
            /\ xch' = x.id
            /\ out' = [k \in DOMAIN fmt |-> PieceAlts(fmt[k], EventOf(x))] \o << {"\n"} >>
            /\ pc' = "written"
            /\ UNCHANGED <<fmt, ev, served>>
\* the same proxy and logger serve the next exchange: the line written for it is the line of THAT
\* exchange - nothing of the exchanges served before shows in it.  Where the statement prescribes
\* no value (the upstream fields of an exchange that contacts no upstream) the rendering still is
\* a function of the exchange alone: what a proxy that has served nothing else writes.
OutOf(f, x) == [k \in DOMAIN f |-> PieceAlts(f[k], EventOf(x))] \o << {"\n"} >>
ServeAgain(x) == /\ pc = "written" /\ xch # None /\ Len(served) < MaxServes - 1 /\ Prescribed(x, fmt)
                 /\ served' = Append(served, xch)
                 /\ xch' = x.id
                 /\ out' = OutOf(fmt, x)
                 /\ UNCHANGED <<fmt, pc, ev>>
Next == \/ \E t \in Tokens : Extend(t)
        \/ Parse
        \/ \E i \in DOMAIN Events : Log(i)
        \/ \E x \in Exchanges : Serve(x)
        \/ \E x \in Exchanges : ServeAgain(x)
Spec == Init /\ [][Next]_vars

-----------------------------------------------------------------------------
TypeOK == /\ pc \in {"build", "ready", "rejected", "written"}
          /\ (Len(fmt) <= MaxTokens \/ fmt \in XFormats) /\ WellFormed(fmt)
RejectIffInvalid == /\ pc = "rejected" => (fmt = <<>> \/ \E i \in DOMAIN fmt : Invalid(fmt[i]))
                    /\ pc \in {"ready", "written"} => (fmt # <<>> /\ \A i \in DOMAIN fmt : ~Invalid(fmt[i]))
\* exactly one line: one piece per token in order, text verbatim, the newline last and only there
OneLine == pc = "written" =>
              /\ Len(out) = Len(fmt) + 1
              /\ out[Len(out)] = {"\n"}
              /\ \A k \in DOMAIN fmt : /\ out[k] # {} /\ "\n" \notin out[k]
                                       /\ Literal(fmt[k]) => out[k] = {fmt[k].v}
\* the line of an exchange does not depend on what was served before
LineIndependent == (pc = "written" /\ xch # None) =>
                      \E x \in Exchanges : x.id = xch /\ out = OutOf(fmt, x)
\* the event of an exchange reports what the client received
EventFaithful == \A x \in Exchanges :
                    LET cv == ClientView(x) e == EventOf(x) IN
                    /\ cv.status \in 200..999 /\ e.status = cv.status /\ e.size = BigOf(cv.bytes)
                    /\ x.method = "HEAD" => cv.bytes = 0
                    /\ x.kind = "proxied" => (cv.status = x.status /\ cv.infos = x.info)
                    /\ \A i \in DOMAIN x.info : Informational(x.info[i])
\* numbers: the digit definitions agree with arithmetic on the boundaries used
DecSane == /\ Dec(0, 0) = "0" /\ Dec(0, 3) = "000" /\ Dec(7, 2) = "07" /\ Dec(999999999, 9) = "999999999"
           /\ Dec(1000, 3) = "1000" /\ Dec(2147483647, 0) = "2147483647"
           /\ Hex4(0) = "0x0000" /\ Hex4(65535) = "0xffff" /\ Hex4(771) = "0x0303" /\ Hex4(4096) = "0x1000"
           /\ BigDec(BigOf(0)) = "0" /\ BigDec(BigOf(10000)) = "10000" /\ BigDec(BigOf(2147483647)) = "2147483647"
           /\ BigDec(BigMulAdd(BigOf(2147483647), 1000, 999)) = "2147483647999"
           /\ DaysFromCivil(1970, 1, 1) = 0 /\ DaysFromCivil(2000, 3, 1) = 11017 /\ DaysFromCivil(2038, 1, 19) = 24855
           /\ BigDec(UnixSec([Y |-> 2038, M |-> 1, D |-> 19, h |-> 3, m |-> 14, s |-> 8, ns |-> 0])) = "2147483648"
EventsOK == \A i \in DOMAIN Events : TimeOK(Events[i].t) /\ Events[i].dur.ns \in 0..999999999 /\ Events[i].status \in 100..999
=============================================================================
