---------------------------- MODULE AdminKV ----------------------------
(***************************************************************************)
(* fabio's admin API for the manual overrides (admin/server.go,            *)
(* admin/api/manual.go, registry/consul/backend.go ReadManual/WriteManual, *)
(* registry/consul/kv.go putKV) on top of a Consul-like KV store, the KV   *)
(* watcher + update loop that apply the overrides, and the no-route HTML   *)
(* watcher (main.watchNoRouteHTML, noroute.Store, proxy no-route answer).  *)
(*                                                                         *)
(* One action per step that another process can observe:                   *)
(*   GetInv/GetLin/Ret      GET /api/manual<path>: request, the single KV  *)
(*                          read, response                                 *)
(*   PutInv/Put1/Put2/Ret   PUT /api/manual<path> {value, version}: the    *)
(*                          request, WriteManual's FIRST CAS (cas=0:       *)
(*                          create), its SECOND CAS (cas=version), response*)
(*   ExtEdit/ExtDelete/Touch  somebody edits the key directly in Consul    *)
(*   WkIssue/WkAnswer       blocking list query of the KV prefix           *)
(*   LoopRecv/LoopInstall/LoopSame   main.watchBackend, manual side        *)
(*   NrSet/NrDel/NrTouch    the no-route key changes                       *)
(*   NkIssue/NkAnswer/NlRecv/NlSet   no-route watcher and its loop         *)
(*   ReqInv/ReqLin/ReqRet   a request for which there is no route          *)
(*                                                                         *)
(* What MUST hold is taken from the documentation: registry/backend.go     *)
(* ("ReadManual returns the current manual overrides and their version as  *)
(* seen by the registry", "WriteManual writes the new value to the         *)
(* registry if the version of the stored document still matches version"), *)
(* ref/ui.access ("ro: read-only access"), ref/registry.consul.kvpath      *)
(* ("watched for changes which get appended to the routing table ...       *)
(* combine the values of the key itself and all its subkeys in             *)
(* alphabetical order"), ref/registry.consul.noroutehtmlpath ("KV path for *)
(* the HTML page when no route was found.  The consul KV path is watched   *)
(* for changes").                                                          *)
(*                                                                         *)
(* Deviations of the code from those sentences are NAMED constants:        *)
(*   CreateIgnoresVersion  WriteManual first tries cas=0 and succeeds      *)
(*                         whenever the key is absent, whatever version    *)
(*                         the caller sent (a document deleted after the   *)
(*                         caller read it is silently resurrected)         *)
(*   RoRefusesReads        in ro mode GET /api/manual and /api/paths are   *)
(*                         refused as well (403)                           *)
(***************************************************************************)
EXTENDS Integers, Sequences, FiniteSets

CONSTANTS
    Clients,               \* API clients
    RoClients,             \* those that talk to a fabio whose ui.access is ro
    Paths,                 \* manual documents: the key kvpath itself and sub-keys
    PathOrder,             \* the same, as a sequence in alphabetical key order
    Values,                \* abstract override texts
    NrValues,              \* abstract no-route pages (non-empty)
    MaxOps, MaxExt, MaxNr, \* bounds: API requests, direct edits of the overrides, changes of the no-route key
    MaxReq,                \* bound: no-route requests
    WatchMan, WatchNr,     \* switch the two watcher pipelines on/off (to model-check the parts separately)
    CreateIgnoresVersion,
    RoRefusesReads,
    AbsentIsZero           \* convention: a missing document is read with version 0 (FALSE: with the index
                           \* of the KV table, which is what the Consul-backed ReadManual hands out)

None == "-"                \* "no text": absent document, empty page

VARIABLES
    doc,        \* [Paths -> [present, val, mi]]   the manual documents (mi = Consul ModifyIndex)
    gidx,       \* index of the KV table (raft index of the last KV modification)
    tomb,       \* graveyard index of the manual prefix (last deletion / foreign write below the prefix)
    lastChg,    \* history: [Paths -> index of the last creation/modification/deletion]
    pc, req, res,   \* clients: program counter, request in progress, response
    wins,       \* history: <<path, version>> of every successful PUT with a non-zero version
    nops, next, \* counters: API requests, direct edits
    wkPc, wkLast, wkSnap,            \* KV watcher (registry/consul/kv.go watchKV on kvpath)
    bePc, mancfg, applied, appIdx, manIdx,   \* update loop: pc, received manual config, installed one, (history) their indices
    nr, nrTomb, nnr,                 \* the no-route key, its graveyard index, change counter
    nkPc, nkLast, nkSnap,            \* no-route watcher
    nlPc, nlNext, html,              \* main.watchNoRouteHTML: pc, value received, noroute.store
    htmlIdx, nlIdx,                  \* history: index of the snapshot behind html / nlNext
    rqPc, rqSeen, nreq               \* a client asking for an unrouted host: pc, body read, counter

kvvars  == <<doc, gidx, tomb, lastChg>>
clvars  == <<pc, req, res, wins, nops>>
wkvars  == <<wkPc, wkLast, wkSnap>>
bevars  == <<bePc, mancfg, applied, appIdx, manIdx>>
manvars == <<wkvars, bevars>>
nrvars  == <<nr, nrTomb, nnr>>
nkvars  == <<nkPc, nkLast, nkSnap>>
nlvars  == <<nlPc, nlNext, html, htmlIdx, nlIdx>>
rqvars  == <<rqPc, rqSeen, nreq>>
nrpipe  == <<nkvars, nlvars, rqvars>>
vars    == <<kvvars, clvars, next, manvars, nrvars, nrpipe>>

-----------------------------------------------------------------------------
Max(S) == IF S = {} THEN 0 ELSE CHOOSE x \in S : \A y \in S : y <= x
Absent == [present |-> FALSE, val |-> None, mi |-> 0]

\* what a reader of document p gets: (text, version).  Consul answers a GET of a missing key with
\* the index of the KV table, never 0.
ReadVal(p) == doc[p].val
ReadVer(p) == IF doc[p].present THEN doc[p].mi ELSE IF AbsentIsZero THEN 0 ELSE gidx
\* the content below the prefix, and the index Consul reports for a list of the prefix: the largest
\* ModifyIndex / graveyard index below it, or the table index when there never was anything
Content == [p \in Paths |-> doc[p].val]
MIdx    == LET m == Max({doc[p].mi : p \in Paths} \cup {tomb}) IN IF m = 0 THEN gidx ELSE m
NrContent == nr.val
NIdx    == LET m == Max({nr.mi, nrTomb}) IN IF m = 0 THEN gidx ELSE m

\* Consul's documented check-and-set: cas=0 puts the key only if it does not exist, cas=N only if
\* N is the ModifyIndex of the existing key
ConsulCas(p, ver) == IF ver = 0 THEN ~doc[p].present ELSE doc[p].present /\ doc[p].mi = ver
\* "the version of the stored document still matches version": nothing happened to the document
\* since that version was current.  0 stands for "there is no document".
Fresh(p, ver) == IF doc[p].present THEN ver = doc[p].mi
                 ELSE ver = 0 \/ (~AbsentIsZero /\ ver >= lastChg[p])

Store(p, v) == /\ gidx' = gidx + 1
               /\ doc' = [doc EXCEPT ![p] = [present |-> TRUE, val |-> v, mi |-> gidx + 1]]
               /\ lastChg' = [lastChg EXCEPT ![p] = gidx + 1]
               /\ UNCHANGED tomb

-----------------------------------------------------------------------------
Init ==
    /\ doc = [p \in Paths |-> Absent] /\ gidx = 1 /\ tomb = 0 /\ lastChg = [p \in Paths |-> 0]
    /\ pc = [c \in Clients |-> "idle"]
    /\ req = [c \in Clients |-> [op |-> "none", path |-> PathOrder[1], val |-> None, ver |-> 0]]
    /\ res = [c \in Clients |-> [status |-> 0, val |-> None, ver |-> 0]]
    /\ wins = {} /\ nops = 0 /\ next = 0
    /\ wkPc = "idle" /\ wkLast = 0 /\ wkSnap = [p \in Paths |-> None]
    /\ bePc = "select" /\ mancfg = [p \in Paths |-> None] /\ applied = [p \in Paths |-> None]
    /\ appIdx = 0 /\ manIdx = 0
    /\ nr = Absent /\ nrTomb = 0 /\ nnr = 0
    /\ nkPc = "idle" /\ nkLast = 0 /\ nkSnap = None
    /\ nlPc = "recv" /\ nlNext = None /\ html = None /\ htmlIdx = 0 /\ nlIdx = 0
    /\ rqPc = "idle" /\ rqSeen = None /\ nreq = 0

\* ---- the admin API (one handler goroutine per request)
Refused(c, op) == c \in RoClients /\ (op = "put" \/ RoRefusesReads)

GetInv(c, p) ==
    /\ pc[c] = "idle" /\ nops < MaxOps /\ nops' = nops + 1
    /\ req' = [req EXCEPT ![c] = [op |-> "get", path |-> p, val |-> None, ver |-> 0]]
    /\ IF Refused(c, "get")
       THEN pc' = [pc EXCEPT ![c] = "ret"] /\ res' = [res EXCEPT ![c] = [status |-> 403, val |-> None, ver |-> 0]]
       ELSE pc' = [pc EXCEPT ![c] = "get"] /\ UNCHANGED res
    /\ UNCHANGED <<kvvars, wins, next, manvars, nrvars, nrpipe>>

GetLin(c) ==
    /\ pc[c] = "get"
    /\ res' = [res EXCEPT ![c] = [status |-> 200, val |-> ReadVal(req[c].path), ver |-> ReadVer(req[c].path)]]
    /\ pc' = [pc EXCEPT ![c] = "ret"]
    /\ UNCHANGED <<kvvars, req, wins, nops, next, manvars, nrvars, nrpipe>>

PutInv(c, p, v, ver) ==
    /\ pc[c] = "idle" /\ nops < MaxOps /\ nops' = nops + 1
    /\ ver \in 0..gidx             \* versions a reader can have been given (or 0)
    /\ req' = [req EXCEPT ![c] = [op |-> "put", path |-> p, val |-> v, ver |-> ver]]
    /\ IF Refused(c, "put")
       THEN pc' = [pc EXCEPT ![c] = "ret"] /\ res' = [res EXCEPT ![c] = [status |-> 403, val |-> None, ver |-> 0]]
       ELSE pc' = [pc EXCEPT ![c] = IF CreateIgnoresVersion THEN "put1" ELSE "put2"] /\ UNCHANGED res
    /\ UNCHANGED <<kvvars, wins, next, manvars, nrvars, nrpipe>>

Ok(c)       == /\ res' = [res EXCEPT ![c] = [status |-> 200, val |-> None, ver |-> 0]]
               /\ pc' = [pc EXCEPT ![c] = "ret"]
               /\ wins' = IF req[c].ver = 0 THEN wins ELSE wins \cup {<<req[c].path, req[c].ver>>}
Conflict(c) == /\ res' = [res EXCEPT ![c] = [status |-> 409, val |-> None, ver |-> 0]]
               /\ pc' = [pc EXCEPT ![c] = "ret"]
               /\ UNCHANGED wins

\* "try to create the key first by using version 0"
Put1(c) ==
    /\ pc[c] = "put1"
    /\ IF ConsulCas(req[c].path, 0)
       THEN Store(req[c].path, req[c].val) /\ Ok(c)
       ELSE pc' = [pc EXCEPT ![c] = "put2"] /\ UNCHANGED <<kvvars, res, wins>>
    /\ UNCHANGED <<req, nops, next, manvars, nrvars, nrpipe>>

\* "then try the CAS update" (the code), resp. the one check-and-set the documentation asks for
Put2(c) ==
    /\ pc[c] = "put2"
    /\ IF (IF CreateIgnoresVersion THEN ConsulCas(req[c].path, req[c].ver) ELSE Fresh(req[c].path, req[c].ver))
       THEN Store(req[c].path, req[c].val) /\ Ok(c)
       ELSE Conflict(c) /\ UNCHANGED kvvars
    /\ UNCHANGED <<req, nops, next, manvars, nrvars, nrpipe>>

NoReq == [op |-> "none", path |-> PathOrder[1], val |-> None, ver |-> 0]
NoRes == [status |-> 0, val |-> None, ver |-> 0]
Ret(c) ==
    /\ pc[c] = "ret" /\ pc' = [pc EXCEPT ![c] = "idle"]
    /\ req' = [req EXCEPT ![c] = NoReq] /\ res' = [res EXCEPT ![c] = NoRes]   \* the handler's locals are gone
    /\ UNCHANGED <<kvvars, wins, nops, next, manvars, nrvars, nrpipe>>

\* ---- somebody else works on the keys (consul kv put / delete, another tool)
ExtEdit(p, v) ==
    /\ next < MaxExt /\ next' = next + 1 /\ Store(p, v)
    /\ UNCHANGED <<clvars, manvars, nrvars, nrpipe>>
ExtDelete(p) ==
    /\ next < MaxExt /\ next' = next + 1 /\ doc[p].present
    /\ gidx' = gidx + 1 /\ doc' = [doc EXCEPT ![p] = Absent]
    /\ lastChg' = [lastChg EXCEPT ![p] = gidx + 1] /\ tomb' = gidx + 1
    /\ UNCHANGED <<clvars, manvars, nrvars, nrpipe>>
\* the index of the prefix moves although no document changed
Touch ==
    /\ next < MaxExt /\ next' = next + 1
    /\ gidx' = gidx + 1 /\ tomb' = gidx + 1 /\ UNCHANGED <<doc, lastChg>>
    /\ UNCHANGED <<clvars, manvars, nrvars, nrpipe>>

\* ---- KV watcher and update loop (manual side; the service side is ControlPlane's)
WkIssue == /\ WatchMan /\ wkPc = "idle" /\ wkPc' = "blocked"
           /\ UNCHANGED <<kvvars, clvars, next, wkLast, wkSnap, bevars, nrvars, nrpipe>>
WkAnswer == /\ wkPc = "blocked" /\ MIdx > wkLast
            /\ wkSnap' = Content /\ wkLast' = MIdx /\ wkPc' = "send"
            /\ UNCHANGED <<kvvars, clvars, next, bevars, nrvars, nrpipe>>
LoopRecv == /\ bePc = "select" /\ wkPc = "send"
            /\ mancfg' = wkSnap /\ manIdx' = wkLast /\ wkPc' = "idle" /\ bePc' = "process"
            /\ UNCHANGED <<kvvars, clvars, next, wkLast, wkSnap, applied, appIdx, nrvars, nrpipe>>
LoopSame == /\ bePc = "process" /\ mancfg = applied /\ bePc' = "select"
            /\ UNCHANGED <<kvvars, clvars, next, wkvars, mancfg, applied, appIdx, manIdx, nrvars, nrpipe>>
LoopInstall == /\ bePc = "process" /\ mancfg # applied /\ bePc' = "select"
               /\ applied' = mancfg /\ appIdx' = manIdx
               /\ UNCHANGED <<kvvars, clvars, next, wkvars, mancfg, manIdx, nrvars, nrpipe>>

\* ---- the no-route key, its watcher, main.watchNoRouteHTML, and requests without a route
NrStore(v) == /\ gidx' = gidx + 1 /\ nr' = [present |-> TRUE, val |-> v, mi |-> gidx + 1] /\ UNCHANGED nrTomb
NrSet(v) == /\ nnr < MaxNr /\ nnr' = nnr + 1 /\ NrStore(v)
            /\ UNCHANGED <<doc, tomb, lastChg, clvars, next, manvars, nrpipe>>
NrDel    == /\ nnr < MaxNr /\ nnr' = nnr + 1 /\ nr.present
            /\ gidx' = gidx + 1 /\ nr' = Absent /\ nrTomb' = gidx + 1
            /\ UNCHANGED <<doc, tomb, lastChg, clvars, next, manvars, nrpipe>>
NrTouch  == /\ nnr < MaxNr /\ nnr' = nnr + 1
            /\ gidx' = gidx + 1 /\ nrTomb' = gidx + 1 /\ UNCHANGED nr
            /\ UNCHANGED <<doc, tomb, lastChg, clvars, next, manvars, nrpipe>>

NkIssue  == /\ WatchNr /\ nkPc = "idle" /\ nkPc' = "blocked"
            /\ UNCHANGED <<kvvars, clvars, next, manvars, nrvars, nkLast, nkSnap, nlvars, rqvars>>
NkAnswer == /\ nkPc = "blocked" /\ NIdx > nkLast
            /\ nkSnap' = NrContent /\ nkLast' = NIdx /\ nkPc' = "send"
            /\ UNCHANGED <<kvvars, clvars, next, manvars, nrvars, nlvars, rqvars>>
NlRecv   == /\ nlPc = "recv" /\ nkPc = "send"
            /\ nlNext' = nkSnap /\ nlIdx' = nkLast /\ nkPc' = "idle" /\ nlPc' = "set"
            /\ UNCHANGED <<kvvars, clvars, next, manvars, nrvars, nkLast, nkSnap, html, htmlIdx, rqvars>>
NlSet    == /\ nlPc = "set" /\ nlPc' = "recv"
            /\ html' = nlNext /\ htmlIdx' = nlIdx       \* "if next == GetHTML() continue" is the same assignment
            /\ UNCHANGED <<kvvars, clvars, next, manvars, nrvars, nkvars, nlNext, nlIdx, rqvars>>

ReqInv == /\ rqPc = "idle" /\ nreq < MaxReq /\ nreq' = nreq + 1 /\ rqPc' = "lookup"
          /\ UNCHANGED <<kvvars, clvars, next, manvars, nrvars, nkvars, nlvars, rqSeen>>
ReqLin == /\ rqPc = "lookup" /\ rqSeen' = html /\ rqPc' = "ret"
          /\ UNCHANGED <<kvvars, clvars, next, manvars, nrvars, nkvars, nlvars, nreq>>
ReqRet == /\ rqPc = "ret" /\ rqPc' = "idle"
          /\ UNCHANGED <<kvvars, clvars, next, manvars, nrvars, nkvars, nlvars, rqSeen, nreq>>

-----------------------------------------------------------------------------
GetInvAny == \E c \in Clients, p \in Paths : GetInv(c, p)
PutInvAny == \E c \in Clients : pc[c] = "idle" /\ \E p \in Paths, v \in Values, ver \in 0..gidx : PutInv(c, p, v, ver)
GetLinAny == \E c \in Clients : GetLin(c)
Put1Any   == \E c \in Clients : Put1(c)
Put2Any   == \E c \in Clients : Put2(c)
RetAny    == \E c \in Clients : Ret(c)
ExtEditAny   == next < MaxExt /\ \E p \in Paths, v \in Values : ExtEdit(p, v)
ExtDeleteAny == \E p \in Paths : ExtDelete(p)
NrSetAny  == nnr < MaxNr /\ \E v \in NrValues : NrSet(v)

Api      == GetLinAny \/ Put1Any \/ Put2Any \/ RetAny
ManPipe  == WkIssue \/ WkAnswer \/ LoopRecv \/ LoopSame \/ LoopInstall
NrPipe   == NkIssue \/ NkAnswer \/ NlRecv \/ NlSet \/ ReqLin \/ ReqRet
World    == GetInvAny \/ PutInvAny \/ ExtEditAny \/ ExtDeleteAny \/ Touch \/ NrSetAny \/ NrDel \/ NrTouch \/ ReqInv
Next == GetInvAny \/ PutInvAny \/ GetLinAny \/ Put1Any \/ Put2Any \/ RetAny
        \/ ExtEditAny \/ ExtDeleteAny \/ Touch
        \/ WkIssue \/ WkAnswer \/ LoopRecv \/ LoopSame \/ LoopInstall
        \/ NrSetAny \/ NrDel \/ NrTouch
        \/ NkIssue \/ NkAnswer \/ NlRecv \/ NlSet \/ ReqInv \/ ReqLin \/ ReqRet
Spec == Init /\ [][Next]_vars /\ WF_vars(Api) /\ WF_vars(ManPipe) /\ WF_vars(NrPipe)

-----------------------------------------------------------------------------
PcSet == {"idle", "get", "put1", "put2", "ret"}
TypeOK ==
    /\ \A p \in Paths : doc[p].present \in BOOLEAN /\ doc[p].val \in Values \cup {None} /\ doc[p].mi \in 0..gidx
    /\ \A p \in Paths : doc[p].present <=> doc[p].mi # 0
    /\ \A c \in Clients : pc[c] \in PcSet /\ res[c].status \in {0, 200, 403, 409}
    /\ wkPc \in {"idle", "blocked", "send"} /\ bePc \in {"select", "process"}
    /\ nkPc \in {"idle", "blocked", "send"} /\ nlPc \in {"recv", "set"} /\ rqPc \in {"idle", "lookup", "ret"}
    /\ tomb <= gidx /\ nrTomb <= gidx /\ wkLast <= gidx /\ nkLast <= gidx

\* a step in which client c's PUT is written
Wrote(c) == pc[c] \in {"put1", "put2"} /\ pc'[c] = "ret" /\ res'[c].status = 200
Failed(c) == pc[c] \in {"put1", "put2"} /\ pc'[c] = "ret" /\ res'[c].status # 200

\* REQUIRED (registry/backend.go): a write goes through only if the caller's version is still the
\* version of the stored document - lost-update prevention.  Holds for the one-CAS design
\* (CreateIgnoresVersion = FALSE); the code violates it through the create-first step.
NoLostUpdate == [][\A c \in Clients : Wrote(c) => Fresh(req[c].path, req[c].ver)]_vars
\* REQUIRED consequence: of the writers that present the same non-zero version of a document at most one wins
OneWinner == [][\A c \in Clients : (Wrote(c) /\ req[c].ver # 0) => <<req[c].path, req[c].ver>> \notin wins]_vars
\* what the code does guarantee: an EXISTING document is only replaced by a caller holding its
\* current version, and version 0 never replaces an existing document
NoLostUpdateExisting ==
    [][\A c \in Clients : (Wrote(c) /\ doc[req[c].path].present) => req[c].ver = doc[req[c].path].mi]_vars
\* the write is reported as failed only if the version was not (no longer) current
ConflictOnlyIfStale == [][\A c \in Clients : Failed(c) => ~Fresh(req[c].path, req[c].ver)]_vars
\* a failed or refused write changes nothing; a successful one stores exactly the caller's text
FailedWriteChangesNothing ==
    [][\A c \in Clients : ((pc[c] # pc'[c] /\ ~Wrote(c)) => UNCHANGED kvvars)]_vars
WriteStores ==
    [][\A c \in Clients : Wrote(c) =>
          /\ doc'[req[c].path] = [present |-> TRUE, val |-> req[c].val, mi |-> gidx']
          /\ \A q \in Paths \ {req[c].path} : doc'[q] = doc[q]]_vars
\* reading returns the current value and version: what a reader is told is what the store holds at the read
ReadCurrent ==
    [][\A c \in Clients : (pc[c] = "get" /\ pc'[c] = "ret") =>
          res'[c] = [status |-> 200, val |-> doc[req[c].path].val, ver |-> ReadVer(req[c].path)]]_vars
\* ro mode: every mutating request is refused and nothing is written on behalf of such a client
RoNeverMutates ==
    /\ \A c \in RoClients : pc[c] \notin {"put1", "put2"}
    /\ \A c \in RoClients : (pc[c] = "ret" /\ req[c].op = "put") => res[c].status = 403
\* REQUIRED reading of "read-only access": reads are served
RoServesReads == \A c \in RoClients : (pc[c] = "ret" /\ req[c].op = "get") => res[c].status = 200
\* versions never repeat: every modification gets a new, larger index
VersionsGrow == [][gidx' >= gidx /\ \A p \in Paths : (doc'[p] # doc[p] => lastChg'[p] = gidx' /\ gidx' > gidx)]_vars

\* the overrides are applied: once the watcher is parked at the current index and the loop is idle,
\* the manual configuration in force is the current content of the documents
ManQuiescent == wkPc = "blocked" /\ wkLast = MIdx /\ bePc = "select"
ManualApplied == (WatchMan /\ ManQuiescent) => applied = Content
ManualMonotone == [][appIdx' >= appIdx /\ manIdx' >= manIdx]_vars
EventuallyApplied == WatchMan => <>[](ManQuiescent /\ applied = Content)

\* the no-route page is the current content of the key (empty = none), without restart
NrQuiescent == nkPc = "blocked" /\ nkLast = NIdx /\ nlPc = "recv"
NoRouteHtmlCurrent == (WatchNr /\ NrQuiescent) => html = NrContent
NoRouteMonotone == [][htmlIdx' >= htmlIdx]_vars
EventuallyNoRouteCurrent == WatchNr => <>[](NrQuiescent /\ html = NrContent)
\* every API request is answered
Responsive == \A c \in Clients : pc[c] # "idle" ~> pc[c] = "idle"

\* the routes the manual configuration stands for, on top of the service route of svc-a: the
\* documents are concatenated in alphabetical key order and the commands applied in that order
Cmd(v, s) == CASE v = "addM1" -> s \cup {"man1"}
               [] v = "addM2" -> s \cup {"man2"}
               [] v = "delA"  -> s \ {"svc-a"}
               [] v = "delM1" -> s \ {"man1"}
               [] OTHER       -> s
RECURSIVE Fold(_, _, _)
Fold(cont, i, s) == IF i > Len(PathOrder) THEN s ELSE Fold(cont, i + 1, Cmd(cont[PathOrder[i]], s))
Routes(cont) == Fold(cont, 1, {"svc-a"})
=============================================================================
