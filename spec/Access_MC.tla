----------------------------- MODULE Access_MC -----------------------------
(* Bounded universes for Access and the case generator: one JSON line per request chosen  *)
(* (two-level Next: rule configuration first, request second) with the bounds and the     *)
(* set of gate outcomes the specification permits.                                        *)
EXTENDS Access, Json, TLC

\* blocks: A = an IPv4 /8, B = an IPv4 host, C = an IPv6 /10; the other items do not parse:
\* bad33 = ip:<v4>/33, notanip = ip:notanip, notype = item without "<type>:", unktype = unknown type
MCItems   == {"A", "B", "C", "bad33", "notanip", "notype", "unktype"}
MCWFItems == {"A", "B", "C"}
\* addresses: inside A, inside B (= the host), IPv4 outside both, inside C, IPv6 outside C,
\* zone-scoped IPv6 whose address part lies inside C
MCAddrs   == {"inA", "inB", "out4", "inC", "out6", "zoneC"}
MCZoned   == {"zoneC"}
MCMember  == {<<"inA", "A">>, <<"inB", "B">>, <<"inC", "C">>, <<"zoneC", "C">>}
\* nested / overlapping blocks: An = a narrower block inside A with the SAME network address, Ah = that network
\* address as a host entry, Cn = a narrower block inside C; addresses inside the narrow ones
MCItemsNest   == {"A", "An", "Ah", "C", "Cn"}
MCWFItemsNest == MCItemsNest
MCAddrsNest   == {"inA", "inAn", "isAh", "out4", "inC", "inCn"}
MCMemberAll   == MCMember \cup {<<"inAn", "A">>, <<"inAn", "An">>, <<"isAh", "A">>, <<"isAh", "An">>, <<"isAh", "Ah">>,
                                 <<"inCn", "C">>, <<"inCn", "Cn">>}
\* other options of the same target: none; valid ones (strip=<path>, host=dst, tlsskipverify=true); malformed / unknown ones
\* (redirect=3O1, redirect=200 - not a 3xx code -, proto=<unknown>, an option fabio does not know)
MCOthersNone  == {""}
MCRedirects   == {"redirect-valid"}
MCOthersRedirect == {"", "redirect-valid"}
MCOthersAll   == {"", "redirect-valid", "strip", "hostdst", "tlsskip", "redirect-alpha", "redirect-range", "proto-unknown", "unknown-option"}
MCOthersValid == {"", "redirect-valid", "strip", "hostdst", "tlsskip"}
MCSchemes == {"", "basic1", "nosuch"}
MCKnown   == {"basic1"}
MCCreds   == {"none", "good", "bad", "malformed"}
MCNoAuthSchemes == {""}
MCNoAuthCreds   == {"none"}
\* chain lengths around the places where implementations bound or batch their work
MCPresNone == {0}
MCSufsNone == {0}
MCPresLong == {0, 1, 2, 15, 16, 17, 40, 200}
MCSufsLong == {0, 1, 20}
MCSufsShort == {0, 1}
MCFillsOne == {"out4"}
MCFillsNest == {"out4"}
MCFillsAll == MCAddrs
MCFillsSome == {"inA", "out4", "zoneC"}
MCHttp == {"http"}
MCTcp  == {"tcp"}
MCBoth == {"http", "tcp"}

CaseJson(r, q) == [allow |-> r.allow, deny |-> r.deny, other |-> r.other,
                   proto |-> q.proto, peer |-> q.peer, xff |-> q.xff, scheme |-> q.scheme, creds |-> q.creds,
                   pre |-> q.pre, suf |-> q.suf, fill |-> q.fill,
                   may |-> MayAdmit(r, q), must |-> MustAdmit(r, q), auth |-> AuthOK(q),
                   outcomes |-> Outcomes(r, q)]

GenReq(q) == /\ ChooseReq(q)
             /\ PrintT(ToJson(CaseJson(rules, q)))
\* the generator stops after the request is chosen (the gate itself is decided by the MC run)
GenNext == \/ (phase = "rules" /\ \E c \in Configs : ChooseRules(c))
           \/ (phase = "req" /\ \E q \in Reqs : GenReq(q))
GenSpec == Init /\ [][GenNext]_vars
=============================================================================
