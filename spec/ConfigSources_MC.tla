---------------------------- MODULE ConfigSources_MC ----------------------------
(* Bounded universe for ConfigSources and the case generator: one JSON line per completed *)
(* Load (the transition into pc = "done"), i.e. per combination of                        *)
(*   subset of the four sources x value given by each x spelling of each environment name *)
(*   x junk entries in the environment block x state of the properties file               *)
(* together with the outcome the specification prescribes (winner, value, cfg | error).   *)
EXTENDS ConfigSources, Json, TLC

MCVals        == {"v1", "v2", "bad"}
MCBad         == {"bad"}
MCSpellings   == {"upper", "asis", "alt"}
MCJunk        == {"noeq", "empty", "emptyname", "unrelated", "duprelated", "nonutf8"}

\* The generator explores the junk dimension on the part of the universe where the
\* environment decides (no command line value, no file value); the full product is what the
\* exhaustive configuration (Init) checks.
GenInit == /\ Init
           /\ junk # {} => /\ given["cmd"] = None /\ given["file"] = None
                           /\ \A s \in EnvSources : spell[s] = Canonical
                           /\ fstate # "junk"
           /\ fstate = "junk" => \A s \in EnvSources : spell[s] = Canonical

CaseJson(via) ==
    [cmd |-> given["cmd"], fenv |-> given["fenv"], env |-> given["env"], file |-> given["file"],
     fenvcase |-> spell["fenv"], envcase |-> spell["env"],
     junk |-> junk, fstate |-> fstate,
     via |-> via, winner |-> Winner(given), value |-> Effective(given), result |-> result']

GenNext == \/ ParseCmdline
           \/ ReadFile /\ (pc' = "done" => PrintT(ToJson(CaseJson("readfile"))))
           \/ ApplyEnv
           \/ ApplyFile
           \/ Validate /\ PrintT(ToJson(CaseJson("validate")))
GenSpec == GenInit /\ [][GenNext]_vars

\* exhaustive configuration restricted the same way (quick tier)
SmallSpec == GenInit /\ [][Next]_vars /\ WF_vars(Next)
=============================================================================
