---------------------------- MODULE ConfigSources_MC ----------------------------
(* Bounded universe for ConfigSources and the case generator: one JSON line per completed *)
(* Load (the transition into pc = "done"), i.e. per combination of                        *)
(*   subset of the four sources x value given by each x spelling of each environment name *)
(*   x junk entries in the environment block x state of the properties file               *)
(* together with the outcome the specification prescribes (winner, value, cfg | error).   *)
EXTENDS ConfigSources, Json, TLC

MCVals        == {"v1", "v2", "bad"}
MCBad         == {"bad"}
MCSpellings   == {"upper", "asis", "alt"}
MCJunk        == {"noeq", "empty", "emptyname", "unrelated", "duprelated", "nonutf8"}

\* The generator explores the junk dimension on the part of the universe where the
\* environment decides (no command line value, no file value); the full product is what the
\* exhaustive configuration (Init) checks.
GenInit == /\ Init
           /\ junk # {} => /\ given["cmd"] = None /\ given["file"] = None
                           /\ \A s \in EnvSources : spell[s] = Canonical
                           /\ fstate # "junk"
           /\ fstate = "junk" => \A s \in EnvSources : spell[s] = Canonical
           /\ fetch # "path" => /\ given["cmd"] = None /\ given["file"] = "v1" /\ given["env"] = None /\ given["fenv"] \in {None, "v2"}
           /\ nbr # NoNbr => /\ given["cmd"] = None /\ given["fenv"] \in {None, "v1"} /\ given["env"] \in {None, "v2"}
                             /\ given["file"] \in {None, "v1"} /\ \E s \in Sources : given[s] # None

CaseJson(via) ==
    [cmd |-> given["cmd"], fenv |-> given["fenv"], env |-> given["env"], file |-> given["file"],
     fenvcase |-> spell["fenv"], envcase |-> spell["env"],
     junk |-> junk, fstate |-> fstate, fetch |-> fetch, nside |-> nbr.side, nsrc |-> nbr.src, nform |-> nbr.form,
     via |-> via, winner |-> Winner(given), value |-> Effective(given), result |-> result']

MCNbrSays == [side : {"before", "after"}, src : {"fenv", "env", "file"}, form : {"ok", "ill"}]
MCNoNbr == {}
MCRunnable == MCVals \ MCBad
GenNext == \/ ParseCmdline
           \/ ScanNeighbour("before") \/ ScanNeighbour("after")
           \/ ReadFile /\ (pc' = "done" => PrintT(ToJson(CaseJson("readfile"))))
           \/ ApplyEnv
           \/ ApplyFile
           \/ Validate /\ PrintT(ToJson(CaseJson("validate")))
GenSpec == GenInit /\ [][GenNext]_vars

\* exhaustive configuration restricted the same way (quick tier)
SmallSpec == GenInit /\ [][Next]_vars /\ WF_vars(Next)

-----------------------------------------------------------------------------
\* degenerate values: every string of at most MCDegLen letters over separators, blanks and one
\* ordinary letter / digit.  The harness gives each of them to every list- or struct-valued and
\* parsed option in the place of v1 (for typed options only those the type admits).
MCAlphabet == <<",", ";", "=", " ", "a", "1">>
RECURSIVE Words(_)
Words(n) == IF n = 0 THEN {""} ELSE LET W == Words(n - 1) IN W \cup {w \o MCAlphabet[i] : w \in W, i \in DOMAIN MCAlphabet}
Once == pc = "cmdline" /\ hist = <<>> /\ junk = {} /\ fstate = "absent" /\ \A s \in Sources : given[s] = None
PrintDegenerate2 == Once => PrintT(ToJson([degenerate |-> Words(2)]))
PrintDegenerate3 == Once => PrintT(ToJson([degenerate |-> Words(3)]))

\* histories of Loads in one process
G(c, f, e, fi) == [cmd |-> c, fenv |-> f, env |-> e, file |-> fi]
MCHistGivens == { G(None, None, None, None), G("v1", None, None, None), G(None, "v2", None, None), G(None, None, "v1", None),
                  G(None, None, None, "v2"), G("v2", None, None, "v1") }
MCNoGivens == {}
LoadJson(g, v, r) == [cmd |-> g["cmd"], fenv |-> g["fenv"], env |-> g["env"], file |-> g["file"],
                      winner |-> Winner(g), value |-> Effective(g), result |-> r]
HistJson == [i \in DOMAIN hist |-> LoadJson(hist[i].given, hist[i].value, hist[i].result)]
HistGenNext == \/ ParseCmdline \/ ReadFile \/ ApplyEnv \/ ApplyFile \/ ScanNeighbour("before") \/ ScanNeighbour("after")
               \/ Validate /\ (Len(hist) = MaxLoads - 1 => PrintT(ToJson([hist |-> HistJson \o <<LoadJson(given, val, result')>>])))
               \/ \E g \in HistGivens : Again(g)
HistGenSpec == HistInit /\ [][HistGenNext]_vars
=============================================================================
