-------------------------- MODULE AccessOverlap_MC --------------------------
(* Universe and generator for AccessOverlap: one JSON line per schedule in which every attempt  *)
(* that was started has finished - the events (start / reload / finish) and, per finished       *)
(* attempt, the verdicts the contents in force during its extent prescribe.                     *)
EXTENDS AccessOverlap, Json, TLC

\* htpasswd contents (as in AccessHist_MC; here the password of ops is stored under a SLOW hash):
\*   v1 = {ops:admin42, bob:another}   v2 = {ops:changed7, bob:another}   v3 = {bob:another}
\* credential classes: good = ops:admin42   newpw = ops:changed7   bad = ops:wrong   other = bob:another
MCCreds == {"good", "newpw", "bad"}
MCCredsWide == {"good", "newpw", "bad", "other"}
MCVersions == {"v1", "v2", "v3"}
MCValid == [v \in MCVersions |-> CASE v = "v1" -> {"good", "other"}
                                   [] v = "v2" -> {"newpw", "other"}
                                   [] v = "v3" -> {"other"}]

GenFinish(i) == /\ Finish(i)
                /\ (\A j \in DOMAIN open' : open'[j].cred = "") =>
                       PrintT(ToJson([events |-> hist', allowed |-> allowed']))
GenNext == (\E c \in Creds : Start(c)) \/ (\E v \in Versions : Reload(v)) \/ (\E i \in 1..MaxAttempts : GenFinish(i))
GenSpec == Init /\ [][GenNext]_vars
=============================================================================
