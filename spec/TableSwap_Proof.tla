---------------------------- MODULE TableSwap_Proof ----------------------------
(* TLAPS proof that the atomic-register design of TableSwap keeps its invariants for EVERY   *)
(* number of readers, builders, versions and writes (TLC decides them for 2 readers, 2       *)
(* builders, 3 writes only): a lookup that has loaded answers from a version that was        *)
(* installed (or the initial one), and a finished build is the table of its own text.        *)
(* Checked with: tlapm --threads 8 TableSwap_Proof.tla                                       *)
EXTENDS TableSwap, TLAPS

ASSUME NoneIsNoVersion == "none" \notin Versions

TypeInv == /\ cur \in Versions \cup {"init"}
           /\ wval \in Versions \cup {"init"}
           /\ snap \in [Readers -> Versions \cup {"init", "none"}]
           /\ rpc \in [Readers -> {"idle", "inv", "loaded"}]
           /\ bpc \in [Builders -> {"idle", "building"}]
           /\ btext \in [Builders -> Versions \cup {"none"}]
           /\ built \in [Builders -> Versions \cup {"none"}]
\* what a loaded reader holds is a version; a builder at rest has built its own text or nothing yet
Loaded == \A r \in Readers : rpc[r] = "loaded" => snap[r] \in Versions \cup {"init"}
Built  == \A b \in Builders : bpc[b] = "idle" => built[b] = "none" \/ built[b] = btext[b]
Ind == TypeInv /\ Loaded /\ Built

LEMMA InitInd == Init => Ind
  BY DEF Init, Ind, TypeInv, Loaded, Built

LEMMA StepInd == Ind /\ [Next]_vars => Ind'
<1> SUFFICES ASSUME Ind, [Next]_vars PROVE Ind'
  OBVIOUS
<1>1. CASE \E v \in Versions : WInv(v)
  BY <1>1 DEF WInv, Ind, TypeInv, Loaded, Built, bvars
<1>2. CASE WLin
  BY <1>2 DEF WLin, Ind, TypeInv, Loaded, Built, bvars
<1>3. CASE WRet
  BY <1>3 DEF WRet, Ind, TypeInv, Loaded, Built, bvars
<1>4. CASE \E r \in Readers : RInv(r)
  BY <1>4 DEF RInv, Ind, TypeInv, Loaded, Built, bvars
<1>5. CASE \E r \in Readers : RLin(r)
  BY <1>5 DEF RLin, Ind, TypeInv, Loaded, Built, bvars
<1>6. CASE \E r \in Readers : RRet(r)
  BY <1>6 DEF RRet, Ind, TypeInv, Loaded, Built, bvars
<1>7. CASE \E b \in Builders : \E v \in Versions : BInv(b, v)
  BY <1>7 DEF BInv, Ind, TypeInv, Loaded, Built
<1>8. CASE \E b \in Builders : BRet(b)
  BY <1>8 DEF BRet, Ind, TypeInv, Loaded, Built
<1>9. CASE UNCHANGED vars
  BY <1>9 DEF vars, Ind, TypeInv, Loaded, Built
<1> QED
  BY <1>1, <1>2, <1>3, <1>4, <1>5, <1>6, <1>7, <1>8, <1>9 DEF Next

THEOREM Safe == Spec => [](ReadsInstalled /\ BuildIsolated /\ ReaderSingleVersion)
<1>1. Init => Ind
  BY InitInd
<1>2. Ind /\ [Next]_vars => Ind'
  BY StepInd
<1>3. Ind => ReadsInstalled /\ BuildIsolated /\ ReaderSingleVersion
  BY NoneIsNoVersion DEF Ind, TypeInv, Loaded, Built, ReadsInstalled, BuildIsolated, ReaderSingleVersion, Answer
<1> QED
  BY <1>1, <1>2, <1>3, PTL DEF Spec
=============================================================================
