---------------------------- MODULE AdminKV_Gen ----------------------------
(* Histories of API requests and direct edits for replay against the real admin server, the   *)
(* real consul backend and the real watcher loops.  The steps are AdminKV's own actions; the  *)
(* schedule is restricted to the interleavings a driver can force from outside: a request     *)
(* runs without interruption except between WriteManual's two check-and-set calls (a PUT that *)
(* did not create the key is "pending" until the step put2 lets its second call through).     *)
(* After every step the history records the answer and the complete observable state the      *)
(* specification prescribes: the documents with their versions, the table index, and - by    *)
(* ManualApplied / NoRouteHtmlCurrent / the liveness properties, which TLC checks on AdminKV  *)
(* itself - the routes and the no-route page in force once the watchers are quiescent.        *)
EXTENDS AdminKV_MC
CONSTANT MaxSteps
VARIABLES ghist, seen, pend

gvars == <<vars, ghist, seen, pend>>
GenInit == Init /\ ghist = <<>> /\ seen = [c \in Clients |-> 0] /\ pend = {}

Urgent(c) == pc[c] \in {"get", "put1", "ret"}
Calm == \A c \in Clients : ~Urgent(c)
Room == Len(ghist) < MaxSteps

KvView == [p \in Paths |-> [val |-> doc[p].val, mi |-> doc[p].mi]]
Obs == [kv |-> KvView, gidx |-> gidx, routes |-> Routes(Content), html |-> NrContent,
        paths |-> {p \in Paths : doc[p].present}]
Entry(kind, c, p, v, ver, r) ==
    [kind |-> kind, c |-> c, p |-> p, val |-> v, ver |-> ver,
     status |-> r.status, rval |-> r.val, rver |-> r.ver, obs |-> Obs']
Emit(e) == /\ ghist' = Append(ghist, e)
           /\ (Len(ghist') = MaxSteps => PrintT(ToJson([steps |-> ghist'])))

\* versions worth sending: none, the current one, the one this client was last told
VerChoices(c, p) == {0, ReadVer(p), seen[c]}

\* ---- a new request, or a step of the world (only when no request is in its uninterruptible part)
GGetInv == \E c \in Clients, p \in Paths :
    /\ Calm /\ Room /\ GetInv(c, p) /\ UNCHANGED <<ghist, seen, pend>>
GPutInv == \E c \in Clients : pc[c] = "idle" /\ Calm /\ Room /\ \E p \in Paths, v \in Values : \E ver \in VerChoices(c, p) :
    /\ PutInv(c, p, v, ver)
    /\ IF pc'[c] = "put2"     \* the design with one check-and-set: pending right away
       THEN Emit(Entry("put", c, p, v, ver, [status |-> 0, val |-> None, ver |-> 0])) /\ pend' = pend \cup {c}
       ELSE UNCHANGED <<ghist, pend>>
    /\ UNCHANGED seen
GExt == \E p \in Paths, v \in Values :
    /\ Calm /\ Room /\ ExtEdit(p, v) /\ UNCHANGED <<seen, pend>>
    /\ Emit(Entry("ext", "-", p, v, 0, NoRes))
GDel == \E p \in Paths :
    /\ Calm /\ Room /\ ExtDelete(p) /\ UNCHANGED <<seen, pend>>
    /\ Emit(Entry("del", "-", p, None, 0, NoRes))
GNrSet == \E v \in NrValues :
    /\ Calm /\ Room /\ NrSet(v) /\ UNCHANGED <<seen, pend>>
    /\ Emit(Entry("nrset", "-", PathOrder[1], v, 0, NoRes))
GNrDel ==
    /\ Calm /\ Room /\ NrDel /\ UNCHANGED <<seen, pend>>
    /\ Emit(Entry("nrdel", "-", PathOrder[1], None, 0, NoRes))

\* ---- the uninterruptible continuation of a request
GGetLin == \E c \in Clients : GetLin(c) /\ UNCHANGED <<ghist, seen, pend>>
GPut1 == \E c \in Clients :
    /\ Put1(c)
    /\ IF pc'[c] = "put2"
       THEN Emit(Entry("put", c, req[c].path, req[c].val, req[c].ver, [status |-> 0, val |-> None, ver |-> 0])) /\ pend' = pend \cup {c}
       ELSE UNCHANGED <<ghist, pend>>
    /\ UNCHANGED seen
GPut2 == \E c \in Clients : Calm /\ Room /\ Put2(c) /\ UNCHANGED <<ghist, seen, pend>>
GRet == \E c \in Clients :
    /\ Ret(c)
    /\ Emit(Entry(IF c \in pend THEN "put2" ELSE req[c].op, c, req[c].path, req[c].val, req[c].ver, res[c]))
    /\ seen' = IF req[c].op = "get" /\ res[c].status = 200 THEN [seen EXCEPT ![c] = res[c].ver] ELSE seen
    /\ pend' = pend \ {c}

GenNext == GGetInv \/ GPutInv \/ GExt \/ GDel \/ GNrSet \/ GNrDel \/ GGetLin \/ GPut1 \/ GPut2 \/ GRet
GenSpec == GenInit /\ [][GenNext]_gvars

\* every generated step is a step of the design, and the design's safety properties hold on the way
GenConsistent == TypeOK /\ RoNeverMutates /\ Cardinality({c \in Clients : Urgent(c)}) <= 1
=============================================================================
