---------------------------- MODULE Health_MC ----------------------------
(* Enumerates every multiset of <= MaxChecks checks over the universe below and prints,  *)
(* for every configuration (accepted-status list x checksRequired mode x which services  *)
(* carry the routing tag), the set of instances the rule routes, as a bit mask.           *)
EXTENDS Health, Json, TLC, SequencesExt
CONSTANT MaxChecks

Nodes == {"n1", "n2"}
Sids  == {"s1", "s2"}
Sts   == {"passing", "warning", "critical"}
U0 == {[node |-> n, sid |-> "", kind |-> "serf", st |-> st] : n \in Nodes, st \in Sts}
  \cup {[node |-> n, sid |-> "", kind |-> "nodemaint", st |-> "critical"] : n \in Nodes}
  \cup {[node |-> n, sid |-> s, kind |-> k, st |-> st] : n \in Nodes, s \in Sids, k \in ServiceKinds, st \in Sts}
  \cup {[node |-> n, sid |-> s, kind |-> "svcmaint", st |-> "critical"] : n \in Nodes, s \in Sids}
\* a fixed order of the universe so that multisets are non-decreasing index tuples
USeq == SetToSeq(U0)
N == Cardinality(U0)

AccLists == << {"passing"}, {"passing", "warning"}, {"passing", "warning", "critical"}, {"warning"},
               {"critical"}, {"passing", "critical"}, {"warning", "critical"} >>
AllInst  == {<<n, s>> : n \in Nodes, s \in Sids}
\* which instances carry the routing tag: all; all of s1 only; all but (n1,s1) - the same service id is
\* tagged on one node and untagged on the other; all but (n2,s1)
Tagged   == << AllInst, {i \in AllInst : i[2] = "s1"}, AllInst \ {<<"n1", "s1">>}, AllInst \ {<<"n2", "s1">>} >>
InstSeq  == << <<"n1", "s1">>, <<"n1", "s2">>, <<"n2", "s1">>, <<"n2", "s2">> >>

Mask(M, acc, strict, tg) ==
    LET b(k) == IF Healthy(M, InstSeq[k][1], InstSeq[k][2], acc, strict, tg) THEN 2^(k-1) ELSE 0
    IN b(1) + b(2) + b(3) + b(4)
\* configuration order: acc list (7) x strict (FALSE, TRUE) x tagged (4)
Masks(M) == [c \in 1..56 |->
               LET a == ((c - 1) \div 8) + 1  r == (c - 1) % 8 IN
               Mask(M, AccLists[a], (r \div 4) = 1, Tagged[(r % 4) + 1])]

VARIABLES ms, done
vars == <<ms, done>>
Init == ms = <<>> /\ done = FALSE
\* level 1: extend the multiset by an index >= the last one; level 2: emit
Extend == /\ ~done /\ Len(ms) < MaxChecks
          /\ \E i \in (IF ms = <<>> THEN 1 ELSE ms[Len(ms)])..N : ms' = Append(ms, i)
          /\ done' = FALSE
Emit == /\ ~done /\ ms # <<>>
        /\ done' = TRUE /\ ms' = ms
        /\ LET M == [k \in DOMAIN ms |-> USeq[ms[k]]] IN
           PrintT(ToJson([checks |-> M, masks |-> Masks(M)]))
Next == Extend \/ Emit
Spec == Init /\ [][Next]_vars

\* sanity of the rule on the whole universe: more accepted statuses never un-route an instance
\* in non-strict mode, and strict mode never routes more than non-strict mode
Monotone == ms # <<>> =>
    LET M == [k \in DOMAIN ms |-> USeq[ms[k]]] IN
    \A k \in 1..4 : LET n == InstSeq[k][1] s == InstSeq[k][2] IN
       /\ Healthy(M, n, s, {"passing"}, FALSE, AllInst) => Healthy(M, n, s, {"passing", "warning"}, FALSE, AllInst)
       /\ \A a \in 1..7 : Healthy(M, n, s, AccLists[a], TRUE, AllInst) => Healthy(M, n, s, AccLists[a], FALSE, AllInst)
       /\ \A a \in 1..7, tg \in 2..4 : Healthy(M, n, s, AccLists[a], FALSE, Tagged[tg]) => Healthy(M, n, s, AccLists[a], FALSE, AllInst)
=============================================================================
