---------------------------- MODULE Sessions_MC ----------------------------
(* Session shapes and the generator: one JSON line per finished session with the client schedule. *)
EXTENDS Sessions, Json, TLC

RECURSIVE Shp(_)
Shp(n) == IF n = 0 THEN {<<>>} ELSE { Append(s, z) : s \in Shp(n - 1), z \in {"S", "L"} }
MCShapes == Shp(N)
\* the quick universe: half of the size assignments (every pair of neighbours large-small, small-large, equal)
MCShapesQuick == { <<"L", "S", "S">>, <<"S", "L", "S">>, <<"S", "S", "S">>, <<"L", "L", "S">> }

\* model checking looks at every interleaving once, whatever the schedule that led there
View == <<shape, cpc, inq, ppc, buf, fill, need, bufs, pool, caps, nextBuf, routed, up, fin>>

GenOut == AllOver => PrintT(ToJson([shape |-> shape, sched |-> sched,
                                    up |-> [i \in C |-> up[i]], routed |-> [i \in C |-> routed[i]]]))
=============================================================================
