---------------------------- MODULE Sessions_MC ----------------------------
(* Session shapes and the generator: one JSON line per finished session with the client schedule. *)
EXTENDS Sessions, Json, TLC

RECURSIVE Shp(_)
Shp(n) == IF n = 0 THEN {<<>>} ELSE { Append(s, z) : s \in Shp(n - 1), z \in {"S", "L"} }
MCShapes == Shp(N)

GenOut == AllOver => PrintT(ToJson([shape |-> shape, sched |-> sched,
                                    up |-> [i \in C |-> up[i]], routed |-> [i \in C |-> routed[i]]]))
=============================================================================
