---------------------------- MODULE ControlPlane_Gen ----------------------------
(* Registry histories with the table the specification prescribes at quiescence after   *)
(* every change.  A macro step = one RegChange followed by Internal steps up to          *)
(* quiescence; its outcome is fixed by the invariants QuiescentCorrect and LastGood and  *)
(* by EventuallyCorrect, which TLC checks on ControlPlane itself: the table is the       *)
(* denotation of (registry, overrides) when that candidate is valid, else it is kept.    *)
EXTENDS ControlPlane_MC
VARIABLE ghist

GenInit == Init /\ ghist = <<>>

Settle(i2, n2, k2) ==   \* quiescent values of the watcher / loop variables for registry (i2, n2, k2)
    LET p  == {i \in Inst : Passing(i2, n2, i)}
        c  == [ok |-> {i \in p : i2[i] # "bad"}, bad |-> {i \in p : i2[i] = "bad"}] IN
    /\ wsPc' = "blocked" /\ wsLast' = hidx' /\ wsSnap' = [i |-> i2, n |-> n2] /\ wsTodo' = {} /\ wsCfg' = c
    /\ wsDegraded' = FALSE /\ svcDegraded' = FALSE /\ svcSnap' = [i |-> i2, n |-> n2]
    /\ wkPc' = "blocked" /\ wkLast' = kidx' /\ wkVal' = k2
    /\ bePc' = "select" /\ svccfg' = c /\ mancfg' = k2 /\ svcIdx' = hidx'
    /\ IF Valid(c, k2)
       THEN active' = TableOf(c, k2) /\ lastTable' = <<CfgText(c), k2>> /\ activeIdx' = hidx' /\ activeSnap' = [i |-> i2, n |-> n2]
       ELSE UNCHANGED <<active, lastTable, activeIdx, activeSnap>>

GenStep(kind, id, st) ==
    /\ Len(ghist) < MaxChanges
    /\ nchg' = nchg + 1
    /\ CASE kind = "inst" -> InstChange(id, st)
         [] kind = "node" -> NodeChange(id, st)
         [] kind = "kv"   -> KVChange(st)
    /\ Settle(inst', node', kv')
    /\ ghist' = Append(ghist, [kind |-> kind, id |-> id, state |-> st, expect |-> active'])
    /\ (Len(ghist') = MaxChanges => PrintT(ToJson([steps |-> ghist'])))

GenNext == \/ \E i \in Inst, s \in InstState : GenStep("inst", i, s)
           \/ \E n \in Node, s \in NodeState : GenStep("node", n, s)
           \/ \E m \in Manual : GenStep("kv", "kv", m)
GenSpec == GenInit /\ [][GenNext]_<<vars, ghist>>

\* every generated state is a quiescent state of the design satisfying its invariants
GenConsistent == (ghist # <<>>) => (Quiescent /\ QuiescentCorrect /\ LastGood /\ Isolation /\ RoutedWerePassing)
=============================================================================
