--------------------------- MODULE VaultCerts_MC ---------------------------
(* Bounded universes for VaultCerts (X07).                                  *)
EXTENDS VaultCerts, TLC

CONSTANTS c1, c2, c3
MCKNames == {"a", "b"}
MCKNames1 == {"a"}
MCPNames == {"a", "b"}
MCPNames1 == {"a"}
MCClients1 == {c1}
MCClients2 == {c1, c2}
MCClients3 == {c1, c2, c3}
MCIssueFaults == {"none", "500"}
Sym2 == Permutations({c1, c2})
Sym3 == Permutations({c1, c2, c3})

\* bounded versions of the environment for model checking Part A: one entry or the fault changes
ANear(k) == {k2 \in AllKV : Cardinality({n \in KNames : k2[n] # k[n]}) <= 1}
MCANext ==
    \/ \E k \in ANear(kv), f \in KFaults : (k = kv \/ f = kfault) /\ KEnv(k, f)
    \/ KLoad \/ KPublish \/ KSleep
MCASpec == Init /\ [][MCANext]_vars
MCALive == MCASpec /\ AFair
=============================================================================
