---------------------------- MODULE ControlPlane ----------------------------
(***************************************************************************)
(* fabio's control plane: a Consul-like registry, the two independent      *)
(* watchers of the consul backend (service health + catalog, KV manual     *)
(* overrides), the unbuffered channels between them and the update loop    *)
(* (main.watchBackend), and the atomically published routing table.        *)
(*                                                                         *)
(* One action per step of the implementation that another process can      *)
(* observe:                                                                *)
(*   RegChange              the world changes (registration, check flip,   *)
(*                          maintenance, agent failure, KV edit)           *)
(*   WsIssue/WsHealth       blocking health query: issued / answered       *)
(*   WsCatalog(s)           catalog read of one service (later than the    *)
(*                          health snapshot: the skew is in the code)      *)
(*   WkIssue/WkAnswer       blocking KV query: issued / answered           *)
(*   BeRecvSvc/BeRecvMan    rendez-vous on the unbuffered channels         *)
(*   BeInstall/BeReject/BeSame   the three outcomes of one loop iteration  *)
(*                                                                         *)
(* Properties: C01 (QuiescentCorrect, EventuallyCorrect, MonotoneSnapshot),*)
(* C02 (LastGood, NextValidApplied), C14 (isolation of inexpressible       *)
(* registrations: they are dropped on their own).                          *)
(***************************************************************************)
EXTENDS Integers, Sequences, FiniteSets

CONSTANTS
    Inst,           \* service instances
    Node,           \* nodes
    Services,       \* service names
    NodeOf,         \* [Inst -> Node]
    SvcOf,          \* [Inst -> Services]
    Manual,         \* KV override texts (abstract); see ManualSem
    MaxChanges,
    MaxFaults,      \* how many catalog queries may fail (fault injection; 0 = none)
    PoisonTables    \* TRUE = deviation of the unrepaired code: one inexpressible
                    \* registration makes every candidate table invalid

InstState == {"absent", "pass", "fail", "maint", "bad"}   \* bad: passing, but its tags cannot be expressed as commands
NodeState == {"ok", "maint", "serfdown"}

VARIABLES
    inst, node, kv, hidx, kidx, nchg,           \* the registry
    wsPc, wsLast, wsSnap, wsTodo, wsCfg,        \* service watcher
    wkPc, wkLast, wkVal,                        \* KV watcher
    bePc, svccfg, mancfg, lastTable, active,    \* update loop and published table
    svcIdx, activeIdx,                          \* history: health index behind svccfg / active
    svcSnap, activeSnap,                        \* history: health snapshot behind svccfg / active
    nfault, wsDegraded, svcDegraded             \* catalog faults so far; the config under construction /
                                                \* delivered was built while a catalog query failed

regvars == <<inst, node, kv, hidx, kidx, nchg, nfault>>
wsvars  == <<wsPc, wsLast, wsSnap, wsTodo, wsCfg, wsDegraded>>
wkvars  == <<wkPc, wkLast, wkVal>>
bevars  == <<bePc, svccfg, mancfg, lastTable, active, svcIdx, activeIdx, svcSnap, activeSnap, svcDegraded>>
vars    == <<regvars, wsvars, wkvars, bevars>>

-----------------------------------------------------------------------------
\* health rule at the level of instances (the check-multiset rule is Health.tla)
Passing(is, ns, i) == is[i] \in {"pass", "bad"} /\ ns[NodeOf[i]] = "ok"

\* a service configuration: which instances contribute commands, which are poison
NoCfg == [ok |-> {}, bad |-> {}]

\* what the manual overrides mean for a set of routed instances ("X" = a manually added target)
ManualValid(m) == m # "bad"
ManualSem(m, s) ==
    CASE m = "none"    -> s
      [] m = "delA"    -> {i \in s : i \notin Inst \/ SvcOf[i] \notin {"A", "C"}}   \* "C": the second /a instance registered under a name of its own
      [] m = "weightA" -> s                \* weights only; a no-op when A has no target
      [] m = "addX"    -> s \cup {"X"}
      [] OTHER         -> s
Valid(c, m) == ManualValid(m) /\ (PoisonTables => c.bad = {})
TableOf(c, m) == ManualSem(m, c.ok)

-----------------------------------------------------------------------------
Init ==
    /\ inst = [i \in Inst |-> "absent"] /\ node = [n \in Node |-> "ok"] /\ kv = "none"
    /\ hidx = 1 /\ kidx = 1 /\ nchg = 0
    /\ wsPc = "idle" /\ wsLast = 0 /\ wsSnap = [i |-> inst, n |-> node] /\ wsTodo = {} /\ wsCfg = NoCfg
    /\ wkPc = "idle" /\ wkLast = 0 /\ wkVal = "none"
    /\ bePc = "select" /\ svccfg = NoCfg /\ mancfg = "none" /\ lastTable = <<NoCfg, "init">> /\ active = {}
    /\ svcIdx = 0 /\ activeIdx = 0
    /\ svcSnap = [i |-> inst, n |-> node] /\ activeSnap = [i |-> inst, n |-> node]
    /\ nfault = 0 /\ wsDegraded = FALSE /\ svcDegraded = FALSE

\* ---- the world
InstChange(i, s) == /\ inst[i] # s /\ inst' = [inst EXCEPT ![i] = s] /\ hidx' = hidx + 1
                    /\ UNCHANGED <<node, kv, kidx, nfault>>
NodeChange(n, s) == /\ node[n] # s /\ node' = [node EXCEPT ![n] = s] /\ hidx' = hidx + 1
                    /\ UNCHANGED <<inst, kv, kidx, nfault>>
KVChange(m)      == /\ kv # m /\ kv' = m /\ kidx' = kidx + 1
                    /\ UNCHANGED <<inst, node, hidx, nfault>>
\* the KV index moves although the text under the prefix is the same (another key was written)
KVTouch          == /\ kidx' = kidx + 1 /\ UNCHANGED <<inst, node, kv, hidx, nfault>>
\* the health index moves although no advertised instance changed (a registration without routing tags, another service)
HealthTouch      == /\ hidx' = hidx + 1 /\ UNCHANGED <<inst, node, kv, kidx, nfault>>
RegChange ==
    /\ nchg < MaxChanges /\ nchg' = nchg + 1
    /\ \/ \E i \in Inst, s \in InstState : InstChange(i, s)
       \/ \E n \in Node, s \in NodeState : NodeChange(n, s)
       \/ \E m \in Manual : KVChange(m)
       \/ KVTouch
       \/ HealthTouch
    /\ UNCHANGED <<wsvars, wkvars, bevars>>

\* ---- service watcher (registry/consul/service.go)
WsIssue == /\ wsPc = "idle" /\ wsPc' = "blocked"
           /\ UNCHANGED <<regvars, wsLast, wsSnap, wsTodo, wsCfg, wsDegraded, wkvars, bevars>>
WsHealth == /\ wsPc = "blocked" /\ hidx > wsLast
            /\ wsSnap' = [i |-> inst, n |-> node] /\ wsLast' = hidx
            /\ wsTodo' = {SvcOf[i] : i \in {j \in Inst : Passing(inst, node, j)}}
            /\ wsCfg' = NoCfg /\ wsDegraded' = FALSE
            /\ wsPc' = IF wsTodo' = {} THEN "send" ELSE "catalog"
            /\ UNCHANGED <<regvars, wkvars, bevars>>
\* catalog read of service s: instances deregistered meanwhile vanish, tags are the current ones
WsCatalog(s) ==
    /\ wsPc = "catalog" /\ s \in wsTodo
    /\ LET mine == {i \in Inst : SvcOf[i] = s /\ Passing(wsSnap.i, wsSnap.n, i) /\ inst[i] # "absent"} IN
       wsCfg' = [ok  |-> wsCfg.ok  \cup {i \in mine : inst[i] # "bad"},
                 bad |-> wsCfg.bad \cup {i \in mine : inst[i] = "bad"}]
    /\ wsTodo' = wsTodo \ {s}
    /\ wsPc' = IF wsTodo' = {} THEN "send" ELSE "catalog"
    /\ UNCHANGED <<regvars, wsLast, wsSnap, wsDegraded, wkvars, bevars>>
\* fault: the catalog query of service s fails.  The code logs the error and builds the configuration
\* WITHOUT that service (its healthy instances lose their routes until the next registry change); what
\* must never happen is that an instance which was not passing in the snapshot gets a route.
WsCatalogFail(s) ==
    /\ wsPc = "catalog" /\ s \in wsTodo /\ nfault < MaxFaults
    /\ nfault' = nfault + 1 /\ wsDegraded' = TRUE
    /\ wsTodo' = wsTodo \ {s}
    /\ wsPc' = IF wsTodo' = {} THEN "send" ELSE "catalog"
    /\ UNCHANGED <<inst, node, kv, hidx, kidx, nchg, wsLast, wsSnap, wsCfg, wkvars, bevars>>

\* ---- KV watcher (registry/consul/kv.go)
WkIssue == /\ wkPc = "idle" /\ wkPc' = "blocked"
           /\ UNCHANGED <<regvars, wsvars, wkLast, wkVal, bevars>>
WkAnswer == /\ wkPc = "blocked" /\ kidx > wkLast
            /\ wkVal' = kv /\ wkLast' = kidx
            /\ wkPc' = "send"      \* the index changed, so the value is sent even if it is the same text
            /\ UNCHANGED <<regvars, wsvars, bevars>>

\* ---- update loop (main.watchBackend)
BeRecvSvc == /\ bePc = "select" /\ wsPc = "send"
             /\ svccfg' = wsCfg /\ svcIdx' = wsLast /\ wsPc' = "idle" /\ bePc' = "process"
             /\ svcSnap' = wsSnap /\ svcDegraded' = wsDegraded
             /\ UNCHANGED <<regvars, wsLast, wsSnap, wsTodo, wsCfg, wsDegraded, wkvars, mancfg, lastTable, active, activeIdx, activeSnap>>
BeRecvMan == /\ bePc = "select" /\ wkPc = "send"
             /\ mancfg' = wkVal /\ wkPc' = "idle" /\ bePc' = "process"
             /\ UNCHANGED <<regvars, wsvars, wkLast, wkVal, svccfg, lastTable, active, svcIdx, activeIdx, svcSnap, activeSnap, svcDegraded>>
\* the loop compares candidate TEXTS; an inexpressible registration that is dropped on its own
\* leaves no trace in the text
CfgText(c) == IF PoisonTables THEN c ELSE [ok |-> c.ok, bad |-> {}]
Cand == <<CfgText(svccfg), mancfg>>
BeSame    == /\ bePc = "process" /\ Cand = lastTable /\ bePc' = "select"
             /\ UNCHANGED <<regvars, wsvars, wkvars, svccfg, mancfg, lastTable, active, svcIdx, activeIdx, svcSnap, activeSnap, svcDegraded>>
BeReject  == /\ bePc = "process" /\ Cand # lastTable /\ ~Valid(svccfg, mancfg) /\ bePc' = "select"
             /\ UNCHANGED <<regvars, wsvars, wkvars, svccfg, mancfg, lastTable, active, svcIdx, activeIdx, svcSnap, activeSnap, svcDegraded>>
BeInstall == /\ bePc = "process" /\ Cand # lastTable /\ Valid(svccfg, mancfg) /\ bePc' = "select"
             /\ active' = TableOf(svccfg, mancfg) /\ lastTable' = Cand /\ activeIdx' = svcIdx /\ activeSnap' = svcSnap
             /\ UNCHANGED <<regvars, wsvars, wkvars, svccfg, mancfg, svcIdx, svcSnap, svcDegraded>>

Internal == WsIssue \/ WsHealth \/ (\E s \in Services : WsCatalog(s) \/ WsCatalogFail(s)) \/ WkIssue \/ WkAnswer
            \/ BeRecvSvc \/ BeRecvMan \/ BeSame \/ BeReject \/ BeInstall
Next == RegChange \/ Internal
Spec == Init /\ [][Next]_vars /\ WF_vars(Internal)

-----------------------------------------------------------------------------
\* what the registry currently says
RegCfg == LET p == {i \in Inst : Passing(inst, node, i)} IN
          [ok |-> {i \in p : inst[i] # "bad"}, bad |-> {i \in p : inst[i] = "bad"}]
Quiescent == /\ wsPc = "blocked" /\ wsLast = hidx
             /\ wkPc = "blocked" /\ wkLast = kidx
             /\ bePc = "select"

TypeOK == /\ inst \in [Inst -> InstState] /\ node \in [Node -> NodeState] /\ kv \in Manual
          /\ wsPc \in {"idle", "blocked", "catalog", "send"} /\ wkPc \in {"idle", "blocked", "send"}
          /\ bePc \in {"select", "process"}
          /\ active \subseteq Inst \cup {"X"}

\* C01: once the registry's view stops changing the table is exactly healthy+tagged with overrides applied
\* (after a failed catalog query the table may lack instances of the affected service: deviation of the
\* code from "exactly", outside the quantifier of C01 which ranges over registry states, not API faults)
QuiescentCorrect == (Quiescent /\ Valid(RegCfg, kv)) =>
                       IF svcDegraded THEN active \subseteq TableOf(RegCfg, kv) ELSE active = TableOf(RegCfg, kv)
\* C01, 2nd sentence, as a state invariant: every routed instance was passing in the health snapshot the
\* active table was built from - also when catalog queries fail
RoutedWerePassing == \A i \in active \cap Inst : Passing(activeSnap.i, activeSnap.n, i)
\* C01, 2nd sentence: tables are built from ever newer observations of the registry
MonotoneSnapshot == [][activeIdx' >= activeIdx /\ svcIdx' >= svcIdx]_vars
\* C02: the active table is the denotation of the last valid candidate; invalid ones change nothing
LastGood == active = (IF lastTable[2] = "init" THEN {} ELSE TableOf(lastTable[1], lastTable[2]))
InvalidKeeps == [][(bePc = "process" /\ ~Valid(svccfg, mancfg)) => (active' = active /\ lastTable' = lastTable)]_vars
NextValidApplied == [][(bePc = "process" /\ bePc' = "select" /\ Valid(svccfg, mancfg) /\ Cand # lastTable)
                          => active' = TableOf(svccfg, mancfg)]_vars
\* C14: an inexpressible registration never keeps an expressible healthy instance out of a quiescent table
Isolation == (Quiescent /\ ManualValid(kv) /\ ~svcDegraded) => (TableOf(RegCfg, kv) \subseteq active)
\* liveness (C01 "once the registry's view stops changing"; C02 "the next valid configuration is still applied")
EventuallyCorrect == <>[](Quiescent /\ ((Valid(RegCfg, kv) /\ ~svcDegraded) => active = TableOf(RegCfg, kv)))
=============================================================================
