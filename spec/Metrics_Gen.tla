---------------------------- MODULE Metrics_Gen ----------------------------
(* Histories of events for replay against the real proxy front (main.startServers: HTTPProxy,  *)
(* tcp proxy, grpc server, prometheus listener) behind real metrics providers.  A driver can    *)
(* force one event at a time, so a step is a MACRO step of Metrics: the lookup, the upstream's  *)
(* answer, every increment and the end of the request - except where the driver can hold a      *)
(* request open across other events: an HTTP request held at its upstream (hold .. release)     *)
(* and a websocket tunnel (wsopen .. wsclose); both stay in flight across table replacements.   *)
(* After every step the history carries the COMPLETE metrics store the specification            *)
(* prescribes (every key, and the gauge).                                                       *)
EXTENDS Metrics_MC
CONSTANT MaxSteps
VARIABLE ghist
gvars == <<vars, ghist>>

GenInit == Init /\ ghist = <<>>
Room == Len(ghist) < MaxSteps
FreeSlot == CHOOSE r \in Slots : req[r].pc = "idle" /\ \A q \in Slots : req[q].pc = "idle" => r <= q
HasFree == \E r \in Slots : req[r].pc = "idle"

Emit(ev, w, s, slot) ==
    /\ ghist' = Append(ghist, [ev |-> ev, w |-> w, s |-> s, slot |-> slot, table |-> table',
                               cnt |-> cnt', gauge |-> gauge'])
    /\ (Len(ghist') = MaxSteps => PrintT(ToJson([steps |-> ghist'])))

\* the request in slot r ends with this outcome: every metric it touches is incremented once
Complete(r, cls, t, s) ==
    LET touch == CodeTouch(cls, t, s) IN
    /\ cnt' = Bump(cnt, touch) /\ gcode' = Bump(gcode, touch) /\ gdoc' = Bump(gdoc, DocTouch(cls, t, s))
    /\ hist' = [hist EXCEPT ![cls] = @ + 1]
    /\ req' = [req EXCEPT ![r] = Idle]

GHttp == Room /\ HasFree /\ \E w \in HttpAsk :
    LET r == FreeSlot IN
    /\ nreq' = nreq + 1 /\ UNCHANGED <<table, nswaps, conns, gauge>>
    /\ IF w \in table
       THEN CASE Kind[w] = "http"     -> \E s \in Statuses : Complete(r, "fwd", w, s) /\ Emit("http", w, s, r)
              [] Kind[w] = "dead"     -> Complete(r, "fwd", w, "502") /\ Emit("http", w, "502", r)
              [] Kind[w] = "deny"     -> Complete(r, "local", w, "403") /\ Emit("http", w, "403", r)
              [] Kind[w] = "redirect" -> Complete(r, "local", w, "301") /\ Emit("http", w, "301", r)
       ELSE Complete(r, "noroute", None, "404") /\ Emit("http", w, "404", r)

\* an HTTP request that has been routed and is held at its upstream
GHold == Room /\ HasFree /\ \E w \in OfKind({"http"}) \cap table :
    LET r == FreeSlot IN
    /\ UNCHANGED <<table, nswaps, cnt, conns, gauge, gcode, gdoc, hist>>
    /\ nreq' = nreq + 1 /\ Wait(r, "http", w, "up") /\ Emit("hold", w, None, r)
GRelease == Room /\ \E r \in Slots : req[r].pc = "up" /\ \E s \in Statuses :
    /\ UNCHANGED <<table, nswaps, nreq, conns, gauge>>
    /\ Complete(r, "fwd", req[r].t, s) /\ Emit("release", req[r].t, s, r)

GWsOpen == Room /\ HasFree /\ \E w \in OfKind({"http"}) \cup {None} :
    LET r == FreeSlot IN
    /\ nreq' = nreq + 1 /\ UNCHANGED <<table, nswaps>>
    /\ IF w \in table
       THEN /\ Wait(r, "ws", w, "tunnel") /\ conns' = conns + 1 /\ gauge' = conns + 1
            /\ UNCHANGED <<cnt, gcode, gdoc, hist>> /\ Emit("wsopen", w, None, r)
       ELSE /\ Complete(r, "noroute", None, "404") /\ UNCHANGED <<conns, gauge>> /\ Emit("wsopen", w, "404", r)
GWsClose == Room /\ \E r \in Slots :
    /\ req[r].pc = "tunnel"
    /\ conns' = conns - 1 /\ gauge' = conns - 1 /\ UNCHANGED <<table, nswaps, nreq>>
    /\ Complete(r, "ws", req[r].t, None) /\ Emit("wsclose", req[r].t, None, r)

GTcp == Room /\ HasFree /\
    LET r == FreeSlot IN
    /\ nreq' = nreq + 1 /\ UNCHANGED <<table, nswaps, conns, gauge>>
    /\ IF TcpRoutes = {} THEN Complete(r, "tcpnoroute", None, None) /\ Emit("tcp", None, "noroute", r)
       ELSE \E t \in TcpRoutes :
              IF Kind[t] = "tcp" THEN Complete(r, "tcpok", t, None) /\ Emit("tcp", t, "ok", r)
              ELSE Complete(r, "tcpfail", t, None) /\ Emit("tcp", t, "fail", r)

\* a gRPC call, on the client's current connection or (fresh) on a new one
CompleteG(r, fresh, cls, t, s) ==
    LET conn  == IF fresh THEN CodeTouch("gconn", None, None) ELSE {}
        touch == CodeTouch(cls, t, s) IN
    /\ cnt' = Bump(Bump(cnt, conn), touch) /\ gcode' = Bump(Bump(gcode, conn), touch)
    /\ gdoc' = Bump(Bump(gdoc, IF fresh THEN DocTouch("gconn", None, None) ELSE {}), DocTouch(cls, t, s))
    /\ hist' = [hist EXCEPT ![cls] = @ + 1, !["gconn"] = @ + (IF fresh THEN 1 ELSE 0)]
    /\ req' = [req EXCEPT ![r] = Idle]
GGrpc == Room /\ HasFree /\ \E fresh \in BOOLEAN :
    LET r == FreeSlot
        f == IF fresh THEN "fresh" ELSE "same" IN
    /\ nreq' = nreq + 1 /\ UNCHANGED <<table, nswaps, conns, gauge>>
    /\ IF GrpcRoutes = {} THEN CompleteG(r, fresh, "grpcnoroute", None, "NotFound") /\ Emit("grpc", f, "NotFound", r)
       ELSE \E t \in GrpcRoutes, c \in GrpcCodes : CompleteG(r, fresh, "grpc", t, c) /\ Emit("grpc", f, c, r)

GSwap == Room /\ \E T \in Tables :
    /\ T # table
    /\ UNCHANGED <<req, nreq, cnt, conns, gauge, gcode, gdoc, hist>>
    /\ table' = T /\ nswaps' = nswaps + 1 /\ Emit("swap", None, None, 0)

GenNext == GHttp \/ GHold \/ GRelease \/ GWsOpen \/ GWsClose \/ GTcp \/ GGrpc \/ GSwap
GenSpec == GenInit /\ [][GenNext]_gvars

\* every generated state is a state of the design in which its invariants hold
GenConsistent == TypeOK /\ Accounted /\ Bounds /\ ConnsExact /\ GaugeExact /\ TcpPartition /\ OneTimerEach
=============================================================================
