---------------------------- MODULE StaticFile ----------------------------
(***************************************************************************)
(* X03(b) - the static and the file registry backends                      *)
(* (registry/static, registry/file, main.initBackend / watchBackend /      *)
(* watchNoRouteHTML).                                                      *)
(*                                                                         *)
(* Documentation transcribed (docs/content/ref/registry.static.*.md,       *)
(* registry.file.*.md, fabio.properties):                                  *)
(*   "registry.static.routes configures a static routing table"            *)
(*   "registry.static.noroutehtml configures the HTML for the page when    *)
(*    no route was found"                                                  *)
(*   "registry.file.path configures a file based routing table; the value  *)
(*    configures the path to the file with the routing table"              *)
(*   "registry.file.noroutehtmlpath configures the path [to] the HTML page *)
(*    when no route was found.  The default is [empty]"                    *)
(* Nothing says that the file is watched; the package comment says it is   *)
(* read once.  A configuration fabio cannot parse is never installed       *)
(* (property C02); the proxies are started after the first table only.     *)
(*                                                                         *)
(* The machine is a constant register: Boot reads the configured text (the *)
(* file's content at that moment), Apply installs it when it is valid.     *)
(* Deviations of the code from the documentation, as named constants:      *)
(*   FileNeedsHtml  the file backend fails to start ("Timeout registering  *)
(*                  backend") unless registry.file.noroutehtmlpath names a *)
(*                  readable file, although it is documented as optional   *)
(*   ReadsOnce      (no deviation: the documented silence) the file is not *)
(*                  read again after the start                             *)
(***************************************************************************)
EXTENDS Integers, FiniteSets

CONSTANTS FileNeedsHtml, ReadsOnce, MaxWrites

Texts  == {"empty", "one", "two", "bad"}        \* routes texts: no command | one route | two routes with comments | a grammar error
Htmls  == {"unset", "empty", "page"}            \* no-route HTML option: not given | given and empty | a page
Valid(t)    == t # "bad"
RoutesOf(t) == CASE t = "one" -> {"r1"} [] t = "two" -> {"r1", "r2"} [] OTHER -> {}
HtmlOf(h)   == IF h = "page" THEN "page" ELSE ""

VARIABLES backend,      \* "static" | "file"
          cfgText,      \* static: the option's value
          cfgHtml,
          fileText,     \* file: the current content of the routes file
          phase,        \* boot | loaded | waiting (admin up, no table, no proxy) | serving | failed
          loaded,       \* the text the backend delivered
          installed, table, html,
          nw
vars == <<backend, cfgText, cfgHtml, fileText, phase, loaded, installed, table, html, nw>>

Init == /\ backend \in {"static", "file"} /\ cfgText \in Texts /\ cfgHtml \in Htmls /\ fileText = cfgText
        /\ phase = "boot" /\ loaded = "empty" /\ installed = FALSE /\ table = {} /\ html = "" /\ nw = 0

Boot == /\ phase = "boot"
        /\ IF backend = "file" /\ cfgHtml = "unset" /\ FileNeedsHtml
           THEN phase' = "failed" /\ UNCHANGED loaded
           ELSE phase' = "loaded" /\ loaded' = (IF backend = "file" THEN fileText ELSE cfgText)
        /\ UNCHANGED <<backend, cfgText, cfgHtml, fileText, installed, table, html, nw>>
Apply == /\ phase = "loaded"
         /\ html' = HtmlOf(cfgHtml)             \* watchNoRouteHTML runs next to the table loop
         /\ IF Valid(loaded)
            THEN installed' = TRUE /\ table' = RoutesOf(loaded) /\ phase' = "serving"
            ELSE phase' = "waiting" /\ UNCHANGED <<installed, table>>
         /\ UNCHANGED <<backend, cfgText, cfgHtml, fileText, loaded, nw>>
FileWrite(t) == /\ backend = "file" /\ nw < MaxWrites /\ t # fileText /\ fileText' = t /\ nw' = nw + 1
                /\ UNCHANGED <<backend, cfgText, cfgHtml, phase, loaded, installed, table, html>>
Reread == /\ ~ReadsOnce /\ backend = "file" /\ phase \in {"serving", "waiting"} /\ loaded # fileText
          /\ loaded' = fileText /\ phase' = "loaded"
          /\ UNCHANGED <<backend, cfgText, cfgHtml, fileText, installed, table, html, nw>>
Next == Boot \/ Apply \/ Reread \/ \E t \in Texts : FileWrite(t)
Spec == Init /\ [][Next]_vars /\ WF_vars(Boot \/ Apply)

TypeOK == /\ backend \in {"static", "file"} /\ cfgText \in Texts /\ cfgHtml \in Htmls /\ fileText \in Texts
          /\ phase \in {"boot", "loaded", "waiting", "serving", "failed"} /\ loaded \in Texts
          /\ installed \in BOOLEAN /\ table \subseteq {"r1", "r2"} /\ html \in {"", "page"}
\* "serves exactly the configured routes" ...
ServesConfigured == phase = "serving" => /\ installed /\ Valid(loaded) /\ table = RoutesOf(loaded)
                                         /\ (backend = "static" => loaded = cfgText)
\* ... "and never changes"
Constant == [][installed => (installed' /\ table' = table)]_vars
\* C02 for a backend with a single configuration: an invalid text is never installed, no proxy starts
InvalidNeverServes == (~Valid(loaded) => phase # "serving") /\ (phase \in {"waiting", "failed", "boot"} => ~installed)
HtmlConfigured == phase = "serving" => html = HtmlOf(cfgHtml)
\* the documentation's reading of the file backend without a no-route page: it starts
DocStarts == <>(phase \in {"serving", "waiting"})
=============================================================================
