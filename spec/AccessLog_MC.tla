---------------------------- MODULE AccessLog_MC ----------------------------
(* Bounded universe for AccessLog and the case generator: one JSON line per Parse that   *)
(* rejects and one per Log transition (format tokens, event, the admissible lines).      *)
EXTENDS AccessLog, Json, TLC

Tok(k, v, lead, canon) == [k |-> k, v |-> v, lead |-> lead, canon |-> canon]
FieldTok(f) == Tok("field", f, "-", "-")
\* literal text is arbitrary UTF-8, not only ASCII.  <uXXXX> stands for the code point U+XXXX (the
\* binding expands it in formats and expected lines alike, so the specification does not depend on
\* the character encoding the JVM reads its sources with): multi-byte characters before, after
\* and between fields.  No such character is a letter of a field name.
MCUnicodeText == { Tok("text", "<u00B5>s", "sep", "-"), Tok("text", " <u2713>", "sep", "-"),
                   Tok("text", "<u00FC>=<u65E5><u672C> ", "sep", "-"), Tok("text", "<u1F600>", "sep", "-") }
MCTextTokens == { Tok("text", " ", "sep", "-"), Tok("text", " - [", "sep", "-"), Tok("text", "\"", "sep", "-"),
                  Tok("text", "x=", "id", "-"), Tok("text", "] ", "sep", "-") } \cup MCUnicodeText
MCOddTokens  == { Tok("dollar", "$", "-", "-"),
                  Tok("unknown", "$nope", "-", "-"), Tok("unknown", "$request_urix", "-", "-"),
                  Tok("unknown", "$header", "-", "-"), Tok("hdrdot", "$header.", "-", "-") }
MCHeaderTokens == { Tok("header", "$header.User-Agent", "-", "User-Agent"),
                    Tok("header", "$header.referer", "-", "Referer"),
                    Tok("header", "$header.X-Missing", "-", "X-Missing"),
                    Tok("header", "$header.x_under", "-", "X_under"),
                    Tok("header", "$header.X-Forwarded-For", "-", "X-Forwarded-For") }
MCTokens == {FieldTok(f) : f \in KnownFields} \cup MCTextTokens \cup MCOddTokens \cup MCHeaderTokens
MCDeepSmall == { FieldTok("$remote_host"), FieldTok("$response_time_us"), FieldTok("$upstream_port"),
                 Tok("text", " ", "sep", "-"), Tok("text", "x=", "id", "-"),
                 Tok("dollar", "$", "-", "-"), Tok("hdrdot", "$header.", "-", "-"),
                 Tok("header", "$header.referer", "-", "Referer"), Tok("text", "<u00B5>s", "sep", "-"), Tok("text", " <u2713>", "sep", "-") }
MCDeepQuick == { FieldTok("$upstream_host"), Tok("text", " ", "sep", "-"), Tok("dollar", "$", "-", "-"),
                 Tok("unknown", "$nope", "-", "-"), Tok("text", "<u00B5>s", "sep", "-") }

T(Y, M, D, h, m, s, ns) == [Y |-> Y, M |-> M, D |-> D, h |-> h, m |-> m, s |-> s, ns |-> ns]
A(form, h, p) == [form |-> form, h |-> h, p |-> p]
U(scheme, host, path, query) == [present |-> TRUE, scheme |-> scheme, host |-> host, path |-> path, query |-> query]
NoURL == [present |-> FALSE, scheme |-> "", host |-> "", path |-> "", query |-> ""]
\* header map entries: key as filed, value list, nil or not
H(n, v) == [name |-> n, vals |-> <<v>>, nilv |-> FALSE]
HM(n, vs) == [name |-> n, vals |-> vs, nilv |-> FALSE]
HNil(n) == [name |-> n, vals |-> <<>>, nilv |-> TRUE]
Big(limbs) == limbs
Ev(t, ds, dns, size, status, raddr, uaddr, method, uri, proto, host, rurl, uurl, hdr, svc) ==
    [req |-> TRUE, t |-> t, dur |-> [s |-> ds, ns |-> dns], size |-> size, status |-> status, raddr |-> raddr,
     uaddr |-> uaddr, method |-> method, uri |-> uri, proto |-> proto, host |-> host, rurl |-> rurl, uurl |-> uurl,
     hmap |-> TRUE, hdr |-> hdr, svc |-> svc]

UA == H("User-Agent", "curl/8.0 (x; y)")
\* sizes: 0, 7, 10^4, 2^31, 2^32, 10^12, 2^63-1
Z0 == <<>>   Z7 == <<7>>   Z1e4 == <<0, 1>>   Z2e31 == <<3648, 4748, 21>>   Z2e32 == <<7296, 9496, 42>>
Z1e12 == <<0, 0, 0, 1>>   ZMax == <<5807, 5477, 368, 3372, 922>>
MCEvents == <<
  Ev(T(1970, 1, 1, 0, 0, 0, 0), 0, 0, Z0, 100, A("hp", "1.2.3.4", "5"), A("hp", "backend", "80"),
     "GET", "/", "HTTP/1.1", "example.com", U("http", "example.com", "/", ""), U("http", "backend:80", "/", ""), <<UA>>, "svc-a"),
  Ev(T(1999, 12, 31, 23, 59, 59, 999999999), 0, 999999999, Z2e31, 999, A("v6p", "::1", "8080"), A("h", "backend", ""),
     "POST", "/a/b?x=1&y=2", "HTTP/2.0", "example.com:8443", U("https", "example.com:8443", "/a/b", "x=1&y=2"),
     U("http", "backend", "/a/b", "x=1&y=2"), <<UA, H("Referer", "http://ref.example/?q=1")>>, "svc-b"),
  Ev(T(2000, 2, 29, 12, 0, 0, 1000), 1, 0, ZMax, 200, A("empty", "", ""), A("v6p", "fe80::1", "443"),
     "GET", "/x", "HTTP/1.0", "", U("http", "h", "/x", ""), U("https", "[fe80::1]:443", "/x", ""), <<>>, ""),
  Ev(T(2038, 1, 19, 3, 14, 8, 1000000), 0, 1000000, Z1e4, 404, A("hp", "host.example", "1"), A("v6", "::1", ""),
     "DELETE", "/q?", "HTTP/1.1", "h", U("http", "h", "/q", ""), U("http", "[::1]", "", ""), <<H("X_under", "u")>>, "svc d"),
  Ev(T(2100, 3, 1, 0, 0, 0, 500000000), 59, 999999, Z2e32, 301, A("hp", "10.0.0.1", "65535"), A("hp", "10.0.0.2", "1"),
     "HEAD", "*", "HTTP/1.1", "h", U("http", "h", "", ""), U("http", "10.0.0.2:1", "", "a=b"), <<UA>>, "s"),
  Ev(T(2262, 4, 11, 23, 47, 16, 854775807), 2147483647, 999999999, Z1e12, 599, A("v6p", "2001:db8::1", "1"), A("h", "b", ""),
     "GET", "/", "HTTP/1.1", "h", U("http", "h", "/", ""), U("http", "b", "/", ""), <<UA>>, "s"),
  Ev(T(2001, 2, 3, 4, 5, 6, 7008009), 0, 1, Z7, 204, A("hp", "1.2.3.4", "5"), A("hp", "b", "8080"),
     "GET", "/", "HTTP/1.1", "h", U("http", "h", "/", ""), U("http", "b:8080", "/", ""), <<UA>>, "s"),
  Ev(T(2023, 3, 31, 10, 10, 10, 10), 3600, 500000000, Z0, 500, A("hp", "1.2.3.4", "5"), A("empty", "", ""),
     "GET", "/", "HTTP/1.1", "h", NoURL, NoURL, <<UA>>, "s"),
  Ev(T(2024, 4, 30, 1, 2, 3, 999), 0, 999, Z7, 200, A("hp", "1.2.3.4", "5"), A("hp", "b", "1"), "GET", "/", "HTTP/1.1", "h", U("http", "h", "/", ""), U("http", "b:1", "/", ""), <<UA>>, "s"),
  Ev(T(2023, 5, 9, 9, 9, 9, 99999), 0, 99999, Z7, 200, A("hp", "1.2.3.4", "5"), A("hp", "b", "1"), "GET", "/", "HTTP/1.1", "h", U("http", "h", "/", ""), U("http", "b:1", "/", ""), <<UA>>, "s"),
  Ev(T(2023, 6, 30, 23, 0, 0, 0), 9, 9, Z7, 200, A("hp", "1.2.3.4", "5"), A("hp", "b", "1"), "GET", "/", "HTTP/1.1", "h", U("http", "h", "/", ""), U("http", "b:1", "/", ""), <<UA>>, "s"),
  Ev(T(2023, 7, 1, 0, 59, 0, 0), 10, 10000, Z7, 200, A("hp", "1.2.3.4", "5"), A("hp", "b", "1"), "GET", "/", "HTTP/1.1", "h", U("http", "h", "/", ""), U("http", "b:1", "/", ""), <<UA>>, "s"),
  Ev(T(2023, 8, 31, 0, 0, 59, 0), 99, 100000000, Z7, 200, A("hp", "1.2.3.4", "5"), A("hp", "b", "1"), "GET", "/", "HTTP/1.1", "h", U("http", "h", "/", ""), U("http", "b:1", "/", ""), <<UA>>, "s"),
  Ev(T(2023, 9, 30, 12, 30, 30, 123456789), 100, 123456789, Z7, 200, A("hp", "1.2.3.4", "5"), A("hp", "b", "1"), "GET", "/", "HTTP/1.1", "h", U("http", "h", "/", ""), U("http", "b:1", "/", ""), <<UA>>, "s"),
  Ev(T(2023, 10, 10, 10, 10, 10, 10101010), 0, 10101010, Z7, 200, A("hp", "1.2.3.4", "5"), A("hp", "b", "1"), "GET", "/", "HTTP/1.1", "h", U("http", "h", "/", ""), U("http", "b:1", "/", ""), <<UA>>, "s"),
  Ev(T(2023, 11, 30, 23, 59, 59, 1), 0, 1001, Z7, 200, A("hp", "1.2.3.4", "5"), A("hp", "b", "1"), "GET", "/", "HTTP/1.1", "h", U("http", "h", "/", ""), U("http", "b:1", "/", ""), <<UA>>, "s"),
  [Ev(T(2023, 1, 31, 0, 0, 0, 0), 0, 0, Z0, 200, A("hp", "1.2.3.4", "5"), A("hp", "b", "1"), "GET", "/", "HTTP/1.1", "h", NoURL, NoURL, <<>>, "s") EXCEPT !.req = FALSE]
>>

\* header maps as code can build them: a key with a nil list (the documented way to suppress a header
\* in httputil.ReverseProxy), an empty list, several values (Get takes the first), a non-canonical
\* key put into the map directly (never found by Get), and a request without a header map
HdrEvent1 == Ev(T(2023, 12, 24, 18, 0, 0, 0), 0, 5, Z7, 200, A("hp", "1.2.3.4", "5"), A("hp", "b", "1"), "GET", "/", "HTTP/1.1", "h",
                U("http", "h", "/", ""), U("http", "b:1", "/", ""),
                <<HNil("X-Forwarded-For"), HM("Referer", <<>>), HM("User-Agent", <<"first", "second">>), H("user-agent", "lower-case key"), H("X_under", "u")>>, "s")
HdrEvent2 == [Ev(T(2023, 12, 25, 6, 0, 0, 0), 0, 6, Z7, 200, A("hp", "1.2.3.4", "5"), A("hp", "b", "1"), "GET", "/", "HTTP/1.1", "h",
                 U("http", "h", "/", ""), U("http", "b:1", "/", ""), <<>>, "s") EXCEPT !.hmap = FALSE]
MCEventsAll == MCEvents \o <<HdrEvent1, HdrEvent2>>
\* quick tier: the events that carry the address / padding / size / header-map boundaries
MCEventsQuick == SubSeq(MCEvents, 1, 8) \o <<HdrEvent1, HdrEvent2>>

AddrJson(a) == [form |-> a.form, h |-> a.h, p |-> a.p]
EvJson(e) == [req |-> e.req, t |-> <<e.t.Y, e.t.M, e.t.D, e.t.h, e.t.m, e.t.s, e.t.ns>>, durs |-> e.dur.s, durns |-> e.dur.ns,
              size |-> e.size, status |-> e.status, raddr |-> AddrStr(e.raddr), uaddr |-> AddrStr(e.uaddr),
              method |-> e.method, uri |-> e.uri, proto |-> e.proto, host |-> e.host,
              rurl |-> e.rurl, uurl |-> e.uurl, hmap |-> e.hmap, hdr |-> e.hdr, svc |-> e.svc]
FmtJson(f) == [i \in DOMAIN f |-> [k |-> f[i].k, v |-> f[i].v]]

GenParse == /\ Parse
            /\ pc' = "rejected" => PrintT(ToJson([fmt |-> FmtJson(fmt), accept |-> FALSE, e |-> 0, lines |-> {}]))
GenLog(i) == /\ Log(i)
             /\ PrintT(ToJson([fmt |-> FmtJson(fmt), accept |-> TRUE, e |-> i, lines |-> Lines(fmt, Events[i])]))
GenNext == (\E t \in Tokens : Extend(t)) \/ GenParse \/ (\E i \in DOMAIN Events : GenLog(i))
GenSpec == Init /\ [][GenNext]_vars

\* the events themselves, once (printed from an ASSUME-like invariant of the initial state)
EventsJson == [i \in DOMAIN Events |-> EvJson(Events[i])]
PrintEvents == (pc = "build" /\ fmt = <<>>) => PrintT(ToJson([events |-> EventsJson]))

\* pure formatter boundaries defined by the spec: Dec, Hex4, UUID
MCDecCases == { <<0, 0>>, <<0, 2>>, <<0, 9>>, <<9, 2>>, <<10, 2>>, <<99, 3>>, <<100, 3>>, <<999, 3>>, <<1000, 3>>, <<5, 4>>,
                <<9999, 4>>, <<10000, 4>>, <<999999, 6>>, <<1, 6>>, <<999999999, 9>>, <<1, 9>>, <<123456789, 9>>,
                <<2147483647, 0>>, <<2147483647, 9>>, <<1000000000, 9>> }
MCHexCases == {0, 1, 9, 10, 15, 16, 255, 256, 768, 769, 770, 771, 772, 4095, 4096, 4865, 49199, 32767, 32768, 65534, 65535}
MCUUIDs == { [i \in 1..16 |-> 0], [i \in 1..16 |-> 255], [i \in 1..16 |-> i - 1], [i \in 1..16 |-> (i * 37) % 256],
             [i \in 1..16 |-> IF i % 2 = 0 THEN 16 ELSE 1], [i \in 1..16 |-> 256 - i * 16] }
PrintFormatters == (pc = "build" /\ fmt = <<>>) =>
     PrintT(ToJson([dec |-> {[n |-> c[1], w |-> c[2], s |-> Dec(c[1], c[2])] : c \in MCDecCases},
                    hex |-> {[n |-> n, s |-> Hex4(n)] : n \in MCHexCases},
                    uuid |-> {[b |-> u, s |-> UUIDStr(u)] : u \in MCUUIDs}]))

-----------------------------------------------------------------------------
\* exchanges through the proxy.  "CPORT" stands for the client's source port, which only the run knows.
Sp == Tok("text", " ", "sep", "-")
MCXFormats == {
  <<FieldTok("$request_method"), Sp, FieldTok("$request_uri"), Sp, FieldTok("$request_proto"), Sp, FieldTok("$request_host")>>,
  <<FieldTok("$response_status"), Sp, FieldTok("$response_body_size")>>,
  <<FieldTok("$response_status")>>,
  <<FieldTok("$upstream_addr"), Sp, FieldTok("$upstream_host"), Sp, FieldTok("$upstream_port"), Sp, FieldTok("$upstream_service"), Sp, FieldTok("$upstream_request_url")>>,
  <<FieldTok("$remote_addr"), Sp, FieldTok("$remote_host"), Sp, FieldTok("$remote_port")>>,
  <<FieldTok("$request"), Sp, FieldTok("$request_url"), Sp, FieldTok("$request_args"), Sp, FieldTok("$request_scheme")>>,
  <<Tok("header", "$header.User-Agent", "-", "User-Agent"), Sp, Tok("header", "$header.x-verif", "-", "X-Verif"), Sp, Tok("header", "$header.X-Missing", "-", "X-Missing")>>,
  <<Tok("header", "$header.X-Request-ID", "-", "X-Request-Id"), Sp, Tok("header", "$header.x-request-id", "-", "X-Request-Id")>> }

R(method, expect, rest, query, host, v6) == [method |-> method, expect |-> expect, rest |-> rest, query |-> query, host |-> host, v6 |-> v6,
                                             fwdhdr |-> "none", ridcfg |-> "", ridclient |-> ""]
\* the same request with a forwarded-scheme header, a configured request id header, an id of the client's own
With(r, fwdhdr, ridcfg, ridclient) == [r EXCEPT !.fwdhdr = fwdhdr, !.ridcfg = ridcfg, !.ridclient = ridclient]
FabioID == "f47ac10b-58cc-0372-8567-0e02b2c3d479"
MCReqs == { R("GET", FALSE, "x", "", "front.example", FALSE),
            R("GET", FALSE, "a/b", "q=1&r=%20z", "front.example:8080", TRUE),
            R("HEAD", FALSE, "x", "h=1", "front.example", FALSE),
            R("POST", FALSE, "post", "", "front.example", FALSE),
            R("POST", TRUE, "post/expect", "e=1", "Front.Example", FALSE) }
MCReqsQuick == { r \in MCReqs : r.rest \in {"x", "post/expect"} } \cup { R("GET", FALSE, "a/b", "q=1&r=%20z", "front.example:8080", TRUE) }
MCInfos == { <<>>, <<103>>, <<102, 103>> }
MCInfosQuick == { <<>>, <<103>> }
MCStatuses == { 200, 404, 500, 204, 304 }
MCStatusesQuick == { 200, 204, 500 }
MCChunks == { <<>>, <<1>>, <<5000>>, <<40000, 30000, 1>> }
MCChunksQuick == { <<>>, <<40000, 30000, 1>> }
MCTargets == { [a |-> A("hp", "backend", "8080"), prefix |-> "/t1/", svc |-> "svc-t1"],
               [a |-> A("h", "backend2", ""), prefix |-> "/t2/", svc |-> "svc-t2"],
               \* the route of /t3/ carries the option host=dst: the upstream gets the target's Host header;
               \* what the client sent stays what it sent
               [a |-> A("hp", "backend", "8080"), prefix |-> "/t3/", svc |-> "svc-t3"] }
HistReq0 == R("GET", FALSE, "x", "", "front.example", FALSE)
Client(v6) == IF v6 THEN A("v6p", "::1", "CPORT") ELSE A("hp", "127.0.0.1", "CPORT")
ReqHdr == << H("User-Agent", "verif/1.0"), H("X-Verif", "v w") >>
X(kind, r, info, status, framing, chunks, tg) ==
    [id |-> ToString(<<kind, r.method, r.expect, r.rest, info, status, framing, chunks, tg.prefix, r.fwdhdr, r.ridcfg, r.ridclient>>),
     fwdhdr |-> r.fwdhdr, ridcfg |-> r.ridcfg, ridclient |-> r.ridclient, ridcanon |-> "X-Request-Id", fabioid |-> FabioID,
     kind |-> kind, method |-> r.method, expect |-> r.expect, path |-> tg.prefix \o r.rest, query |-> r.query, host |-> r.host,
     info |-> info, status |-> status, framing |-> framing, chunks |-> chunks,
     raddr |-> Client(r.v6), target |-> tg.a, svc |-> tg.svc, hdr |-> ReqHdr]
Down  == [a |-> A("hp", "down", "81"), prefix |-> "/down/", svc |-> "svc-down"]
Slow  == [a |-> A("hp", "slow", "82"), prefix |-> "/slow/", svc |-> "svc-slow"]
Redir == [a |-> A("empty", "", ""), prefix |-> "/redir/", svc |-> "svc-redir"]
NoRt  == [a |-> A("empty", "", ""), prefix |-> "/none/", svc |-> ""]
Local(reqs) == {X("refused", r, <<>>, 502, "length", <<>>, Down) : r \in reqs}
          \cup {X("timeout", r, <<>>, 504, "length", <<>>, Slow) : r \in {q \in reqs : ~q.expect}}
          \cup {X("noroute", r, <<>>, 404, "length", <<>>, NoRt) : r \in reqs}
          \cup {X("redirect", r, <<>>, 301, "length", <<>>, Redir) : r \in reqs}
\* documented options and request headers that decide what is logged: the forwarded-scheme headers,
\* proxy.header.requestid in three spellings with and without an id of the client's own; the client
\* that hangs up before the upstream answers
T1 == CHOOSE tg \in MCTargets : tg.prefix = "/t1/"
MCOptionExchanges ==
     {X("proxied", With(HistReq0, f, rid, cid), <<>>, 200, "length", <<1>>, T1) :
          f \in {"none", "xfp", "fwd"}, rid \in {"", "X-Request-Id", "X-Request-ID", "x-request-id"}, cid \in {"", "client-chosen-id"}}
     \cup {X(k.kind, With(HistReq0, f, "X-Request-ID", ""), <<>>, k.status, "length", <<>>, k.tg) :
          f \in {"xfp", "fwd"}, k \in {[kind |-> "noroute", status |-> 404, tg |-> NoRt], [kind |-> "redirect", status |-> 301, tg |-> Redir],
                                        [kind |-> "refused", status |-> 502, tg |-> Down]}}
     \cup {X("aborted", With(r, "none", rid, ""), <<>>, 499, "length", <<>>, T1) :
          r \in {HistReq0, R("POST", FALSE, "post", "", "front.example", FALSE)}, rid \in {"", "X-Request-ID"}}
MCExchanges == {X("proxied", r, i, s, f, c, tg) : r \in MCReqs, i \in MCInfos, s \in MCStatuses, f \in {"length", "chunked"},
                                                     c \in MCChunks, tg \in MCTargets} \cup Local(MCReqs)
MCExchangesQuick == {X("proxied", r, i, s, "chunked", c, tg) : r \in MCReqsQuick, i \in MCInfosQuick, s \in MCStatusesQuick,
                                                                    c \in MCChunksQuick, tg \in MCTargets}
               \cup {X("proxied", r, <<102, 103>>, 200, "length", <<5000>>, tg) : r \in MCReqs, tg \in MCTargets}
               \cup Local(MCReqs)

MCNoExchanges == {}
MCNoFormats == {}

XJson(x) == [id |-> x.id, kind |-> x.kind, method |-> x.method, expect |-> x.expect, path |-> x.path, query |-> x.query,
             host |-> x.host, info |-> x.info, status |-> x.status, framing |-> x.framing, chunks |-> x.chunks,
             raddr |-> AddrStr(x.raddr), target |-> AddrStr(x.target), svc |-> x.svc, hdr |-> x.hdr,
             fwdhdr |-> x.fwdhdr, ridcfg |-> x.ridcfg, ridclient |-> x.ridclient, fabioid |-> x.fabioid,
             cstatus |-> ClientView(x).status,
             cbytes |-> IF x.kind = "redirect" THEN -1 ELSE ClientView(x).bytes]   \* -1: the body of a redirect is net/http's, not prescribed
XGenServe(x) == /\ Serve(x)
                /\ PrintT(ToJson([x |-> x.id, fmt |-> FmtJson(fmt), lines |-> Lines(fmt, EventOf(x))]))
XGenNext == Parse \/ (\E x \in Exchanges : XGenServe(x))
XGenInit == Init /\ fmt \in XFormats
XGenSpec == XGenInit /\ [][XGenNext]_vars
PrintExchanges == (pc = "build" /\ fmt = CHOOSE f \in XFormats : TRUE) =>
                      PrintT(ToJson([exchanges |-> {XJson(x) : x \in Exchanges}]))

\* histories: one proxy + logger serves several exchanges of different kinds one after the other
HistReq == R("GET", FALSE, "x", "", "front.example", FALSE)
MCHistExchanges == { X("proxied", HistReq, <<>>, 200, "length", <<5000>>, tg) : tg \in MCTargets }
              \cup { X("proxied", HistReq, <<103>>, 404, "chunked", <<1>>, CHOOSE tg \in MCTargets : tg.prefix = "/t2/") }
              \cup { X("refused", HistReq, <<>>, 502, "length", <<>>, Down), X("noroute", HistReq, <<>>, 404, "length", <<>>, NoRt),
                     X("redirect", HistReq, <<>>, 301, "length", <<>>, Redir) }
MCExchangesQuickH == MCExchangesQuick \cup MCHistExchanges \cup MCOptionExchanges
MCExchangesH == MCExchanges \cup MCHistExchanges \cup MCOptionExchanges
StatusOnly == <<FieldTok("$response_status")>>
XHistInit == Init /\ fmt = StatusOnly
XHistNext == \/ Parse
             \/ \E x \in Exchanges : Serve(x)
             \/ \E x \in Exchanges : ServeAgain(x) /\ (Len(served') = MaxServes - 1 =>
                                                            PrintT(ToJson([xhist |-> served' \o <<xch'>>])))
XHistSpec == XHistInit /\ [][XHistNext]_vars
=============================================================================
