---------------------------- MODULE AccessLog_MC ----------------------------
(* Bounded universe for AccessLog and the case generator: one JSON line per Parse that   *)
(* rejects and one per Log transition (format tokens, event, the admissible lines).      *)
EXTENDS AccessLog, Json, TLC

Tok(k, v, lead, canon) == [k |-> k, v |-> v, lead |-> lead, canon |-> canon]
FieldTok(f) == Tok("field", f, "-", "-")
MCTextTokens == { Tok("text", " ", "sep", "-"), Tok("text", " - [", "sep", "-"), Tok("text", "\"", "sep", "-"),
                  Tok("text", "x=", "id", "-"), Tok("text", "] ", "sep", "-") }
MCOddTokens  == { Tok("dollar", "$", "-", "-"),
                  Tok("unknown", "$nope", "-", "-"), Tok("unknown", "$request_urix", "-", "-"),
                  Tok("unknown", "$header", "-", "-"), Tok("hdrdot", "$header.", "-", "-") }
MCHeaderTokens == { Tok("header", "$header.User-Agent", "-", "User-Agent"),
                    Tok("header", "$header.referer", "-", "Referer"),
                    Tok("header", "$header.X-Missing", "-", "X-Missing"),
                    Tok("header", "$header.x_under", "-", "X_under") }
MCTokens == {FieldTok(f) : f \in KnownFields} \cup MCTextTokens \cup MCOddTokens \cup MCHeaderTokens
MCDeepSmall == { FieldTok("$remote_host"), FieldTok("$response_time_us"), FieldTok("$upstream_port"),
                 Tok("text", " ", "sep", "-"), Tok("text", "x=", "id", "-"),
                 Tok("dollar", "$", "-", "-"), Tok("hdrdot", "$header.", "-", "-"),
                 Tok("header", "$header.referer", "-", "Referer") }
MCDeepQuick == { FieldTok("$upstream_host"), Tok("text", " ", "sep", "-"), Tok("dollar", "$", "-", "-"),
                 Tok("unknown", "$nope", "-", "-") }

T(Y, M, D, h, m, s, ns) == [Y |-> Y, M |-> M, D |-> D, h |-> h, m |-> m, s |-> s, ns |-> ns]
A(form, h, p) == [form |-> form, h |-> h, p |-> p]
U(scheme, host, path, query) == [present |-> TRUE, scheme |-> scheme, host |-> host, path |-> path, query |-> query]
NoURL == [present |-> FALSE, scheme |-> "", host |-> "", path |-> "", query |-> ""]
H(n, v) == [name |-> n, val |-> v]
Big(limbs) == limbs
Ev(t, ds, dns, size, status, raddr, uaddr, method, uri, proto, host, rurl, uurl, hdr, svc) ==
    [req |-> TRUE, t |-> t, dur |-> [s |-> ds, ns |-> dns], size |-> size, status |-> status, raddr |-> raddr,
     uaddr |-> uaddr, method |-> method, uri |-> uri, proto |-> proto, host |-> host, rurl |-> rurl, uurl |-> uurl,
     hdr |-> hdr, svc |-> svc]

UA == H("User-Agent", "curl/8.0 (x; y)")
\* sizes: 0, 7, 10^4, 2^31, 2^32, 10^12, 2^63-1
Z0 == <<>>   Z7 == <<7>>   Z1e4 == <<0, 1>>   Z2e31 == <<3648, 4748, 21>>   Z2e32 == <<7296, 9496, 42>>
Z1e12 == <<0, 0, 0, 1>>   ZMax == <<5807, 5477, 368, 3372, 922>>
MCEvents == <<
  Ev(T(1970, 1, 1, 0, 0, 0, 0), 0, 0, Z0, 100, A("hp", "1.2.3.4", "5"), A("hp", "backend", "80"),
     "GET", "/", "HTTP/1.1", "example.com", U("http", "example.com", "/", ""), U("http", "backend:80", "/", ""), <<UA>>, "svc-a"),
  Ev(T(1999, 12, 31, 23, 59, 59, 999999999), 0, 999999999, Z2e31, 999, A("v6p", "::1", "8080"), A("h", "backend", ""),
     "POST", "/a/b?x=1&y=2", "HTTP/2.0", "example.com:8443", U("https", "example.com:8443", "/a/b", "x=1&y=2"),
     U("http", "backend", "/a/b", "x=1&y=2"), <<UA, H("Referer", "http://ref.example/?q=1")>>, "svc-b"),
  Ev(T(2000, 2, 29, 12, 0, 0, 1000), 1, 0, ZMax, 200, A("empty", "", ""), A("v6p", "fe80::1", "443"),
     "GET", "/x", "HTTP/1.0", "", U("http", "h", "/x", ""), U("https", "[fe80::1]:443", "/x", ""), <<>>, ""),
  Ev(T(2038, 1, 19, 3, 14, 8, 1000000), 0, 1000000, Z1e4, 404, A("hp", "host.example", "1"), A("v6", "::1", ""),
     "DELETE", "/q?", "HTTP/1.1", "h", U("http", "h", "/q", ""), U("http", "[::1]", "", ""), <<H("X_under", "u")>>, "svc d"),
  Ev(T(2100, 3, 1, 0, 0, 0, 500000000), 59, 999999, Z2e32, 301, A("hp", "10.0.0.1", "65535"), A("hp", "10.0.0.2", "1"),
     "HEAD", "*", "HTTP/1.1", "h", U("http", "h", "", ""), U("http", "10.0.0.2:1", "", "a=b"), <<UA>>, "s"),
  Ev(T(2262, 4, 11, 23, 47, 16, 854775807), 2147483647, 999999999, Z1e12, 599, A("v6p", "2001:db8::1", "1"), A("h", "b", ""),
     "GET", "/", "HTTP/1.1", "h", U("http", "h", "/", ""), U("http", "b", "/", ""), <<UA>>, "s"),
  Ev(T(2001, 2, 3, 4, 5, 6, 7008009), 0, 1, Z7, 204, A("hp", "1.2.3.4", "5"), A("hp", "b", "8080"),
     "GET", "/", "HTTP/1.1", "h", U("http", "h", "/", ""), U("http", "b:8080", "/", ""), <<UA>>, "s"),
  Ev(T(2023, 3, 31, 10, 10, 10, 10), 3600, 500000000, Z0, 500, A("hp", "1.2.3.4", "5"), A("empty", "", ""),
     "GET", "/", "HTTP/1.1", "h", NoURL, NoURL, <<UA>>, "s"),
  Ev(T(2024, 4, 30, 1, 2, 3, 999), 0, 999, Z7, 200, A("hp", "1.2.3.4", "5"), A("hp", "b", "1"), "GET", "/", "HTTP/1.1", "h", U("http", "h", "/", ""), U("http", "b:1", "/", ""), <<UA>>, "s"),
  Ev(T(2023, 5, 9, 9, 9, 9, 99999), 0, 99999, Z7, 200, A("hp", "1.2.3.4", "5"), A("hp", "b", "1"), "GET", "/", "HTTP/1.1", "h", U("http", "h", "/", ""), U("http", "b:1", "/", ""), <<UA>>, "s"),
  Ev(T(2023, 6, 30, 23, 0, 0, 0), 9, 9, Z7, 200, A("hp", "1.2.3.4", "5"), A("hp", "b", "1"), "GET", "/", "HTTP/1.1", "h", U("http", "h", "/", ""), U("http", "b:1", "/", ""), <<UA>>, "s"),
  Ev(T(2023, 7, 1, 0, 59, 0, 0), 10, 10000, Z7, 200, A("hp", "1.2.3.4", "5"), A("hp", "b", "1"), "GET", "/", "HTTP/1.1", "h", U("http", "h", "/", ""), U("http", "b:1", "/", ""), <<UA>>, "s"),
  Ev(T(2023, 8, 31, 0, 0, 59, 0), 99, 100000000, Z7, 200, A("hp", "1.2.3.4", "5"), A("hp", "b", "1"), "GET", "/", "HTTP/1.1", "h", U("http", "h", "/", ""), U("http", "b:1", "/", ""), <<UA>>, "s"),
  Ev(T(2023, 9, 30, 12, 30, 30, 123456789), 100, 123456789, Z7, 200, A("hp", "1.2.3.4", "5"), A("hp", "b", "1"), "GET", "/", "HTTP/1.1", "h", U("http", "h", "/", ""), U("http", "b:1", "/", ""), <<UA>>, "s"),
  Ev(T(2023, 10, 10, 10, 10, 10, 10101010), 0, 10101010, Z7, 200, A("hp", "1.2.3.4", "5"), A("hp", "b", "1"), "GET", "/", "HTTP/1.1", "h", U("http", "h", "/", ""), U("http", "b:1", "/", ""), <<UA>>, "s"),
  Ev(T(2023, 11, 30, 23, 59, 59, 1), 0, 1001, Z7, 200, A("hp", "1.2.3.4", "5"), A("hp", "b", "1"), "GET", "/", "HTTP/1.1", "h", U("http", "h", "/", ""), U("http", "b:1", "/", ""), <<UA>>, "s"),
  [Ev(T(2023, 1, 31, 0, 0, 0, 0), 0, 0, Z0, 200, A("hp", "1.2.3.4", "5"), A("hp", "b", "1"), "GET", "/", "HTTP/1.1", "h", NoURL, NoURL, <<>>, "s") EXCEPT !.req = FALSE]
>>

\* quick tier: the events that carry the address / padding / size boundaries
MCEventsQuick == SubSeq(MCEvents, 1, 8)

AddrJson(a) == [form |-> a.form, h |-> a.h, p |-> a.p]
EvJson(e) == [req |-> e.req, t |-> <<e.t.Y, e.t.M, e.t.D, e.t.h, e.t.m, e.t.s, e.t.ns>>, durs |-> e.dur.s, durns |-> e.dur.ns,
              size |-> e.size, status |-> e.status, raddr |-> AddrStr(e.raddr), uaddr |-> AddrStr(e.uaddr),
              method |-> e.method, uri |-> e.uri, proto |-> e.proto, host |-> e.host,
              rurl |-> e.rurl, uurl |-> e.uurl, hdr |-> e.hdr, svc |-> e.svc]
FmtJson(f) == [i \in DOMAIN f |-> [k |-> f[i].k, v |-> f[i].v]]

GenParse == /\ Parse
            /\ pc' = "rejected" => PrintT(ToJson([fmt |-> FmtJson(fmt), accept |-> FALSE, e |-> 0, lines |-> {}]))
GenLog(i) == /\ Log(i)
             /\ PrintT(ToJson([fmt |-> FmtJson(fmt), accept |-> TRUE, e |-> i, lines |-> Lines(fmt, Events[i])]))
GenNext == (\E t \in Tokens : Extend(t)) \/ GenParse \/ (\E i \in DOMAIN Events : GenLog(i))
GenSpec == Init /\ [][GenNext]_vars

\* the events themselves, once (printed from an ASSUME-like invariant of the initial state)
EventsJson == [i \in DOMAIN Events |-> EvJson(Events[i])]
PrintEvents == (pc = "build" /\ fmt = <<>>) => PrintT(ToJson([events |-> EventsJson]))

\* pure formatter boundaries defined by the spec: Dec, Hex4, UUID
MCDecCases == { <<0, 0>>, <<0, 2>>, <<0, 9>>, <<9, 2>>, <<10, 2>>, <<99, 3>>, <<100, 3>>, <<999, 3>>, <<1000, 3>>, <<5, 4>>,
                <<9999, 4>>, <<10000, 4>>, <<999999, 6>>, <<1, 6>>, <<999999999, 9>>, <<1, 9>>, <<123456789, 9>>,
                <<2147483647, 0>>, <<2147483647, 9>>, <<1000000000, 9>> }
MCHexCases == {0, 1, 9, 10, 15, 16, 255, 256, 768, 769, 770, 771, 772, 4095, 4096, 4865, 49199, 32767, 32768, 65534, 65535}
MCUUIDs == { [i \in 1..16 |-> 0], [i \in 1..16 |-> 255], [i \in 1..16 |-> i - 1], [i \in 1..16 |-> (i * 37) % 256],
             [i \in 1..16 |-> IF i % 2 = 0 THEN 16 ELSE 1], [i \in 1..16 |-> 256 - i * 16] }
PrintFormatters == (pc = "build" /\ fmt = <<>>) =>
     PrintT(ToJson([dec |-> {[n |-> c[1], w |-> c[2], s |-> Dec(c[1], c[2])] : c \in MCDecCases},
                    hex |-> {[n |-> n, s |-> Hex4(n)] : n \in MCHexCases},
                    uuid |-> {[b |-> u, s |-> UUIDStr(u)] : u \in MCUUIDs}]))
=============================================================================
