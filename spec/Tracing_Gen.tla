---------------------------- MODULE Tracing_Gen ----------------------------
(* Case generator for X08: one request through every configuration x incoming header set x route; the state in  *)
(* which the request is done prints what the upstream must have seen and what the collector must receive.       *)
(* Generated identifiers are printed as "new", absent headers as "absent", everything else is the token of the  *)
(* incoming value that must be there byte for byte (Tw64, Sok, Pbad, ...), a literal 0 / 1, or sixteen zeros.   *)
EXTENDS Tracing_MC, Json

YN(b) == IF b THEN "y" ELSE "n"
Tok(v) == IF v \in Ids THEN "new" ELSE IF v = Absent THEN "absent" ELSE v
HdrTok(h) == [tid |-> Tok(h.tid), sid |-> Tok(h.sid), pid |-> Tok(h.pid), smp |-> Tok(h.smp), flg |-> Tok(h.flg), rid |-> Tok(h.rid), tw |-> h.tw]
CaseOf == LET r == rq[1] IN
          [cfg |-> [on |-> YN(cfg.on), rate |-> cfg.rate, b128 |-> YN(cfg.b128), rid |-> YN(cfg.rid)],
           inc |-> [tid |-> r.inc.tid, sid |-> r.inc.sid, pid |-> r.inc.pid, smp |-> r.inc.smp, flg |-> r.inc.flg, rid |-> r.inc.rid],
           route |-> r.route, st |-> r.st, seen |-> YN(r.seen), up |-> HdrTok(r.up),
           sp |-> [n |-> IF r.sp.n = 1 /\ r.sp.smp THEN 1 ELSE 0, started |-> r.sp.n, tid |-> Tok(r.sp.tid), id |-> Tok(r.sp.id),
                   pid |-> Tok(r.sp.pid), tw |-> r.sp.tw, dbg |-> YN(r.sp.dbg)]]
GenPrint == (rq[1].pc = "done" /\ received = <<>> /\ ~flushed) => PrintT(ToJson(CaseOf))
GenSpec == Spec
=============================================================================
