--------------------------- MODULE Streaming_Trace ---------------------------
(* Validation of exchanges recorded from the real HTTPProxy against Streaming.  The scripted  *)
(* upstream and the scripted client run FREE (nobody waits for anybody) and log one event per *)
(* action of theirs with a global logical clock: the upstream logs BEFORE it writes / closes, *)
(* the client AFTER a read returned, so the log order is consistent with causality.  What the *)
(* proxy does in between (dial, read, flush - at any moment, any amount -, time out, cancel)  *)
(* and the client's socket reads are not observable: silent steps.  An observation event      *)
(* (status, byte count, end of the response, the upstream seeing its connection closed, the   *)
(* handler returning) is accepted only if the specification can be in a state that shows it.  *)
(* Several exchanges are concatenated; a Reset event carries the scenario of the next one.    *)
EXTENDS Streaming_MC, Json, IOUtils
VARIABLE l

TraceLog == ndJsonDeserialize(IOEnv.VERIF_TRACE)
E == TraceLog[l]
Ev(e) == l <= Len(TraceLog) /\ TraceLog[l].ev = e /\ l' = l + 1
Same == UNCHANGED vars

ScOf(e) == [f |-> e.f, g |-> e.g, sse |-> e.sse, fr |-> e.fr, ct |-> e.ct, sz |-> e.sz, refuse |-> e.refuse, rht |-> e.rht]
Fresh(s) == /\ sc' = s
            /\ ust' = "idle" /\ sent' = <<>> /\ uhdr' = FALSE /\ uwire' = <<>> /\ ureq' = 0 /\ uconn' = "none"
            /\ pst' = "idle" /\ phdr' = 0 /\ pbuf' = <<>> /\ cwire' = <<>> /\ chdr' = 0 /\ rcvd' = <<>> /\ cend' = "open"
            /\ cgone' = FALSE /\ ost' = "none"

TInit == /\ TLCSet(1, 0) /\ l = 2
         /\ sc = ScOf(TraceLog[1].sc)
         /\ ust = "idle" /\ sent = <<>> /\ uhdr = FALSE /\ uwire = <<>> /\ ureq = 0 /\ uconn = "none"
         /\ pst = "idle" /\ phdr = 0 /\ pbuf = <<>> /\ cwire = <<>> /\ chdr = 0 /\ rcvd = <<>> /\ cend = "open"
         /\ cgone = FALSE /\ ost = "none"

TReset   == Ev("Reset") /\ Fresh(ScOf(E.sc))
TReq     == Ev("Req") /\ CReq
TUpReq   == Ev("UpReq") /\ ureq = 1 /\ ust = "req" /\ Same
TUpHdr   == Ev("UpHdr") /\ UpHdr
TUpSlow  == Ev("UpSlow") /\ UpSlow
TUpEarly == Ev("UpEarly") /\ UpFailEarly(E.kind)
TUpW     == Ev("UpW") /\ Chunks(sent) + 1 = E.k /\ UpWrite
TUpEnd   == Ev("UpEnd") /\ UpEnd
TUpCut   == Ev("UpCut") /\ UpCut
TUpRst   == Ev("UpRst") /\ UpRst
TCliHdr  == Ev("CliHdr") /\ chdr = E.status /\ Same
\* the client reports n bytes: the units that cover them have reached it
TCliRead == Ev("CliRead") /\ Weight(rcvd) >= E.n /\ Same
\* the response has ended for the client the way the event says; a response taken for complete has every byte
TCliEnd  == /\ Ev("CliEnd") /\ cend = E.end /\ chdr = E.status
            /\ (E.end = "complete" /\ E.status = 200 => Weight(rcvd) = E.n /\ cwire = <<>>)
            /\ Same
TCliClose == Ev("CliClose") /\ CClose
TSawClose == Ev("UpSawClose") /\ uconn = "byproxy" /\ Same
TRet      == Ev("HandlerRet") /\ pst \in {"done", "aborted", "answered", "canceled"} /\ Same
TOStart   == Ev("OtherStart") /\ OStart
TODone    == Ev("OtherDone") /\ E.status = 200 /\ ODone
Silent    == l' = l /\ (PDial \/ PRead \/ PFlush \/ PTimeout \/ PCancel \/ CRead)

TNext == TReset \/ TReq \/ TUpReq \/ TUpHdr \/ TUpSlow \/ TUpEarly \/ TUpW \/ TUpEnd \/ TUpCut \/ TUpRst
         \/ TCliHdr \/ TCliRead \/ TCliEnd \/ TCliClose \/ TSawClose \/ TRet \/ TOStart \/ TODone \/ Silent
TSpec == TInit /\ [][TNext]_<<vars, l>>

TTypeOK == /\ ScOK(sc) /\ pst \in PStates /\ cend \in {"open", "complete", "aborted"} /\ ureq \in 0..1
TSafe == TTypeOK /\ Integrity /\ HeaderFirst /\ MappingAsBuilt /\ NeverForged
HW == TLCSet(1, IF TLCGet(1) < l THEN l ELSE TLCGet(1))
\* a rejected log names the first event that no behaviour of the specification explains
Accepted == \/ TLCGet(1) = Len(TraceLog) + 1
            \/ PrintT(<<"stuck at", TLCGet(1), TraceLog[TLCGet(1)]>>) /\ FALSE
=============================================================================
