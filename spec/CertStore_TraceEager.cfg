SPECIFICATION TSpecEager
CONSTANTS
  Fold <- TFold
  Good = {"A", "B", "C"}
  Unusable = {}
  Failing = {}
  Clients = {0, 1, 2, 3, 4, 5, 6, 7}
  Reqs = {}
  MaxLoads = 1000000
  MaxHs = 1000000
  Refresh = 1
  SplitStore = FALSE
  SpinOnUnusable = FALSE
VIEW TView
CONSTRAINT HW
POSTCONDITION Accepted
CHECK_DEADLOCK FALSE
