---------------------------- MODULE UpdateLoop_Gen ----------------------------
EXTENDS UpdateLoop_MC
VARIABLE ghist
GInit == Init /\ ghist = <<>>
\* one macro step: receive + process
GStep(ch, v) ==
    /\ Len(ghist) < MaxSteps
    /\ LET s2 == IF ch = "svc" THEN v ELSE svccfg
           m2 == IF ch = "man" THEN v ELSE mancfg
           inst == <<s2, m2>> # last /\ Valid(s2, m2) IN
       /\ svccfg' = s2 /\ mancfg' = m2
       /\ active' = IF inst THEN Den[<<s2, m2>>] ELSE active
       /\ last' = IF inst THEN <<s2, m2>> ELSE last
       /\ ghist' = Append(ghist, [ch |-> ch, msg |-> v, expect |-> active'])
    /\ pc' = "select" /\ alive' = alive /\ steps' = steps + 1
    /\ (Len(ghist') = MaxSteps => PrintT(ToJson([steps |-> ghist'])))
GNext == (\E v \in SvcMsgs : GStep("svc", v)) \/ (\E v \in ManMsgs : Cardinality(ManMsgs) > 1 /\ GStep("man", v))
GSpec == GInit /\ [][GNext]_<<vars, ghist>>
GConsistent == LastGood /\ AtSelectCurrent
=============================================================================
