------------------------------ MODULE UuidConc ------------------------------
(***************************************************************************)
(* The hand-written formatters of property C20 (uuid.ToString,             *)
(* uint16base16, i32toa, the logger's atoi) are FUNCTIONS of their         *)
(* argument: they are called concurrently from every request goroutine,    *)
(* and a call returns the rendering of ITS argument whatever other calls   *)
(* are in flight.                                                          *)
(*                                                                         *)
(* The model is in the shape of uuid.ToString: a call fills the digits of  *)
(* a buffer position by position and then returns the buffer's content.    *)
(* With one buffer per call (Shared = FALSE, the design) Correct holds;    *)
(* with one buffer for all calls (Shared = TRUE) TLC finds the schedule in *)
(* which a call returns digits of another call's argument.                 *)
(***************************************************************************)
EXTENDS Integers, Sequences, FiniteSets

CONSTANTS Calls,     \* identities of the concurrent calls
          Arg,       \* Arg[c]: the argument of call c, a sequence of digits
          Shared     \* TRUE: all calls write into one buffer

VARIABLES pc,        \* pc[c]: next position call c writes; Len+1: about to return; 0 after return
          buf,       \* buf[b]: buffer b (one per call, or the single shared one)
          ret        \* ret[c]: what call c returned (<<>> before)
vars == <<pc, buf, ret>>

N == Len(Arg[CHOOSE c \in Calls : TRUE])
Buffers == IF Shared THEN {"shared"} ELSE Calls
BufOf(c) == IF Shared THEN "shared" ELSE c

Init == /\ pc = [c \in Calls |-> 1]
        /\ buf = [b \in Buffers |-> [i \in 1..N |-> 0]]
        /\ ret = [c \in Calls |-> <<>>]
Write(c) == /\ pc[c] \in 1..N
            /\ buf' = [buf EXCEPT ![BufOf(c)][pc[c]] = Arg[c][pc[c]]]
            /\ pc' = [pc EXCEPT ![c] = @ + 1]
            /\ UNCHANGED ret
Return(c) == /\ pc[c] = N + 1
             /\ ret' = [ret EXCEPT ![c] = buf[BufOf(c)]]
             /\ pc' = [pc EXCEPT ![c] = 0]
             /\ UNCHANGED buf
Next == \E c \in Calls : Write(c) \/ Return(c)
Spec == Init /\ [][Next]_vars

\* a call returns the rendering of its own argument
Correct == \A c \in Calls : pc[c] = 0 => ret[c] = Arg[c]
=============================================================================
