SPECIFICATION TSpecEager
CONSTANTS
  KNames = {}
  Refresh = 1
  MaxLoads = 0
  MaxEnv = 1000000
  ReadErrorDropsEntry = TRUE
  FieldlessIgnored = TRUE
  SpinOnError = FALSE
  PNames <- TNames
  Clients <- TClients
  IssueFaults <- TFaults
  MaxIssue = 1000000
  MaxHs = 1000000
  Strict = TRUE
  AsyncInstall = TRUE
  ServesExpired = TRUE
  TTL = 2
  MaxT = 0
  LookupFailDisables = TRUE
VIEW TView
CONSTRAINT HW
POSTCONDITION Accepted
CHECK_DEADLOCK FALSE
