----------------------------- MODULE Copier_MC -----------------------------
(* Reader / writer scripts for Copier and the case generator. *)
EXTENDS Copier, Json, TLC

CONSTANT MaxReads

R(n, e) == [n |-> n, err |-> e]
Results == { R(0, "nil"), R(1, "nil"), R(2, "nil"), R(3, "nil"), R(0, "eof"), R(1, "eof"), R(2, "eof"), R(0, "err"), R(2, "err") }
RECURSIVE Seqs(_)
Seqs(n) == IF n = 0 THEN {<<>>} ELSE Seqs(n - 1) \cup { Append(s, r) : s \in { t \in Seqs(n - 1) : Len(t) = n - 1 }, r \in Results }
\* a script ends with its first error / EOF (what follows would never be read)
Sane(s) == \A k \in 1..Len(s) : s[k].err # "nil" => k = Len(s)
MCScripts == { x \in { [reads |-> s, wbad |-> b, wmode |-> m] : s \in { t \in Seqs(MaxReads) : Sane(t) /\ t # <<>> }, b \in 0..2, m \in {"short", "err"} }
                 : x.wbad # 0 \/ x.wmode = "short" }      \* wbad = 0: the writer never misbehaves (one copy of it)

GenOut == Done => PrintT(ToJson([reads |-> sc.reads, wbad |-> sc.wbad, wmode |-> sc.wmode,
                                 delivered |-> delivered, result |-> result, writes |-> nw]))
=============================================================================
