----------------------------- MODULE GrpcProxy -----------------------------
(***************************************************************************)
(* fabio as a transparent gRPC proxy (property C16), transcribed from the  *)
(* property statement and the gRPC section of fabio's documentation:       *)
(*                                                                         *)
(*   A gRPC call is forwarded to a backend of the route that matches its   *)
(*   method path (and the host named in its `dsthost` metadata, if any;    *)
(*   without a route for that host the host-less routes apply).  The       *)
(*   backend receives the caller's messages and custom metadata in order   *)
(*   and unmodified; the caller receives the backend's messages, trailers  *)
(*   and final status code and message, and its headers whenever it sends  *)
(*   at least one message.  No matching route: NotFound, no backend is     *)
(*   contacted.  One connection per backend (pool keyed by target URL),    *)
(*   reused while the backend stays in the table, closed by the periodic   *)
(*   clean-up once the backend has left the table.                         *)
(*                                                                         *)
(* State: the routing table, the connection pool, the backends' connection *)
(* counters and the call in flight.  One action per step of the design:    *)
(* SetTable, CallStart, Route | NotFound, Dial | Reuse, MsgToBackend,      *)
(* EofToBackend, MsgToCaller, Finish, CleanupTick, Drop.                   *)
(*                                                                         *)
(* A message is an opaque token; "unmodified" is token equality (the       *)
(* harness turns tokens into real protobuf messages and back).             *)
(***************************************************************************)
EXTENDS Integers, Sequences, FiniteSets

CONSTANTS
    Backends,       \* set of backend names (each one target URL)
    Slots,          \* route slots: records [host |-> STRING, path |-> Seq(STRING)]
    Tables,         \* the tables SetTable may install: functions Slots -> Backends \cup {""}
    CallUniverse,   \* call descriptions, see GrpcProxy_MC
    MaxCalls, MaxSets, MaxTicks,
    CleanupCloses   \* TRUE = the design.  FALSE = a deviation ("pool entries are never
                    \* deleted") kept only to show that the pool invariants are not vacuous.

VARIABLES
    table,      \* Slots -> Backends \cup {""}      ("" = slot not in the table)
    pool,       \* backends that have a pooled connection (pool key = target URL)
    stale,      \* subset of pool: the backend was missing from some table since the entry was made
    closing,    \* Backends -> Nat: connections taken out of the pool, not yet closed
    open,       \* Backends -> Nat: connections currently open at the backend
    accepted,   \* Backends -> Nat: connections the backend ever accepted
    cur,        \* the call in flight
    cnt,        \* [calls, sets, ticks]: bounds of the exploration
    hist        \* completed steps with what an observer must have seen (not in the VIEW)

vars == <<table, pool, stale, closing, open, accepted, cur, cnt, hist>>

-----------------------------------------------------------------------------
NoBackend == ""
Idle == [pc |-> "idle"]
Targets(t) == {t[s] : s \in Slots} \ {NoBackend}

IsPrefix(p, q) == Len(p) <= Len(q) /\ \A i \in 1..Len(p) : p[i] = q[i]

\* Routing as documented: routes of the named host first, else the host-less routes;
\* among the candidates the longest matching path prefix.
Cands(t, h, path) == {s \in Slots : t[s] # NoBackend /\ s.host = h /\ IsPrefix(s.path, path)}
Longest(S) == CHOOSE s \in S : \A u \in S : Len(u.path) <= Len(s.path)
Best(t, h, path) ==
    IF h # "" /\ Cands(t, h, path) # {} THEN t[Longest(Cands(t, h, path))]
    ELSE IF Cands(t, "", path) # {} THEN t[Longest(Cands(t, "", path))]
    ELSE NoBackend

\* Does the server side of this call kind see the end of the request stream?
HasEOF(c) == c.kind \in {"cstream", "bidi"}
\* how many requests the backend reads before it finishes
Reads(c) == IF c.early THEN 0 ELSE Len(c.reqs)
Min(a, b) == IF a < b THEN a ELSE b

-----------------------------------------------------------------------------
Init ==
    /\ table \in Tables
    /\ pool = {} /\ stale = {}
    /\ closing = [b \in Backends |-> 0]
    /\ open = [b \in Backends |-> 0]
    /\ accepted = [b \in Backends |-> 0]
    /\ cur = Idle
    /\ cnt = [calls |-> 0, sets |-> 0, ticks |-> 0]
    /\ hist = <<[op |-> "set", table |-> table]>>

\* The control plane installs another table (between calls).
SetTable(t) ==
    /\ t # table
    /\ table' = t
    /\ stale' = stale \cup (pool \ Targets(t))
    /\ cnt' = [cnt EXCEPT !.sets = @ + 1]
    /\ hist' = Append(hist, [op |-> "set", table |-> t])
    /\ UNCHANGED <<pool, closing, open, accepted, cur>>

CallStart(c) ==
    /\ cur' = [pc |-> "start", c |-> c, be |-> NoBackend, conn |-> "none", acc0 |-> accepted,
               bgot |-> <<>>, beof |-> FALSE, cgot |-> <<>>, ord |-> <<>>,
               code |-> -1, msg |-> "", hdr |-> "none", trl |-> "none"]
    /\ cnt' = [cnt EXCEPT !.calls = @ + 1]
    /\ UNCHANGED <<table, pool, stale, closing, open, accepted, hist>>

Route ==
    /\ cur.pc = "start" /\ Best(table, cur.c.host, cur.c.path) # NoBackend
    /\ cur' = [cur EXCEPT !.pc = "routed", !.be = Best(table, cur.c.host, cur.c.path)]
    /\ UNCHANGED <<table, pool, stale, closing, open, accepted, cnt, hist>>

CallRecord == [op |-> "call", call |-> cur'.c, be |-> cur'.be, conn |-> cur'.conn,
               bgot |-> cur'.bgot, beof |-> cur'.beof, cgot |-> cur'.cgot, ord |-> cur'.ord,
               code |-> cur'.code, msg |-> cur'.msg, hdr |-> cur'.hdr, trl |-> cur'.trl]

\* NotFound is the proxy's own answer; no backend is involved.
NotFound ==
    /\ cur.pc = "start" /\ Best(table, cur.c.host, cur.c.path) = NoBackend
    /\ cur' = [cur EXCEPT !.pc = "done", !.code = 5, !.msg = "*"]
    /\ hist' = Append(hist, CallRecord)
    /\ UNCHANGED <<table, pool, stale, closing, open, accepted, cnt>>

Dial ==
    /\ cur.pc = "routed" /\ cur.be \notin pool
    /\ pool' = pool \cup {cur.be}
    /\ open' = [open EXCEPT ![cur.be] = @ + 1]
    /\ accepted' = [accepted EXCEPT ![cur.be] = @ + 1]
    /\ cur' = [cur EXCEPT !.pc = "open", !.conn = "dial"]
    /\ UNCHANGED <<table, stale, closing, cnt, hist>>

\* A stale entry may silently have been cleaned up in the meantime (the clean-up runs on a
\* timer of its own): an observer cannot tell which, hence conn = "may".
Reuse ==
    /\ cur.pc = "routed" /\ cur.be \in pool
    /\ cur' = [cur EXCEPT !.pc = "open", !.conn = IF cur.be \in stale THEN "may" ELSE "reuse"]
    /\ stale' = stale \ {cur.be}
    /\ UNCHANGED <<table, pool, closing, open, accepted, cnt, hist>>

MsgToBackend ==
    /\ cur.pc = "open" /\ Len(cur.bgot) < Reads(cur.c)
    /\ cur' = [cur EXCEPT !.bgot = Append(@, cur.c.reqs[Len(cur.bgot) + 1]), !.ord = Append(@, "q")]
    /\ UNCHANGED <<table, pool, stale, closing, open, accepted, cnt, hist>>

EofToBackend ==
    /\ cur.pc = "open" /\ HasEOF(cur.c) /\ ~cur.c.early /\ ~cur.beof
    /\ Len(cur.bgot) = Len(cur.c.reqs)
    /\ cur' = [cur EXCEPT !.beof = TRUE, !.ord = Append(@, "e")]
    /\ UNCHANGED <<table, pool, stale, closing, open, accepted, cnt, hist>>

\* the backend's script says when it is willing to send response j
ReqsDone == IF HasEOF(cur.c) THEN cur.beof ELSE Len(cur.bgot) = Len(cur.c.reqs)
GateOK(j) ==
    CASE cur.c.early -> TRUE
      [] cur.c.gate = "eager" -> TRUE
      [] cur.c.gate = "echo"  -> /\ Len(cur.bgot) >= Min(j, Len(cur.c.reqs))
                                 /\ (j > Len(cur.c.reqs) => ReqsDone)
      [] cur.c.gate = "late"  -> ReqsDone

MsgToCaller ==
    /\ cur.pc = "open" /\ Len(cur.cgot) < Len(cur.c.resps) /\ GateOK(Len(cur.cgot) + 1)
    /\ cur' = [cur EXCEPT !.cgot = Append(@, cur.c.resps[Len(cur.cgot) + 1]), !.ord = Append(@, "r")]
    /\ UNCHANGED <<table, pool, stale, closing, open, accepted, cnt, hist>>

\* The backend ends the call; the caller sees its status, trailers, and (having received a
\* message) its headers.
Finish ==
    /\ cur.pc = "open" /\ Len(cur.cgot) = Len(cur.c.resps)
    /\ cur.c.early \/ ReqsDone
    /\ cur' = [cur EXCEPT !.pc = "done", !.code = cur.c.code, !.msg = cur.c.msg, !.trl = cur.c.trl,
                          !.hdr = IF Len(cur.c.resps) > 0 THEN cur.c.hdr ELSE "any",
                          !.ord = Append(@, "f")]
    /\ hist' = Append(hist, CallRecord)
    /\ UNCHANGED <<table, pool, stale, closing, open, accepted, cnt>>

Return ==
    /\ cur.pc = "done"
    /\ cur' = Idle
    /\ UNCHANGED <<table, pool, stale, closing, open, accepted, cnt, hist>>

\* The periodic clean-up: every pooled connection whose backend is not in the table is taken
\* out of the pool and scheduled for closing.
CleanupTick ==
    /\ cur.pc = "idle" /\ cnt.ticks < MaxTicks
    /\ LET gone == IF CleanupCloses THEN pool \ Targets(table) ELSE {} IN
       /\ pool' = pool \ gone
       /\ stale' = stale \ gone
       /\ closing' = [b \in Backends |-> closing[b] + IF b \in gone THEN 1 ELSE 0]
       /\ hist' = Append(hist, [op |-> "tick", closed |-> gone, pooled |-> pool \ gone])
    /\ cnt' = [cnt EXCEPT !.ticks = @ + 1]
    /\ UNCHANGED <<table, open, accepted, cur>>

Drop(b) ==
    /\ closing[b] > 0
    /\ closing' = [closing EXCEPT ![b] = @ - 1]
    /\ open' = [open EXCEPT ![b] = @ - 1]
    /\ UNCHANGED <<table, pool, stale, accepted, cur, cnt, hist>>

\* (the guards come first so that the universes are only enumerated where they can apply)
SetTableAny == cur.pc = "idle" /\ cnt.sets < MaxSets /\ \E t \in Tables : SetTable(t)
CallStartAny == cur.pc = "idle" /\ cnt.calls < MaxCalls /\ \E c \in CallUniverse : CallStart(c)

Next ==
    \/ SetTableAny
    \/ CallStartAny
    \/ Route \/ NotFound \/ Dial \/ Reuse
    \/ MsgToBackend \/ EofToBackend \/ MsgToCaller \/ Finish \/ Return
    \/ CleanupTick
    \/ \E b \in Backends : Drop(b)

Spec == Init /\ [][Next]_vars

-----------------------------------------------------------------------------
\* Properties (the statement of C16)

TypeOK ==
    /\ table \in [Slots -> Backends \cup {NoBackend}]
    /\ pool \subseteq Backends /\ stale \subseteq pool
    /\ \A b \in Backends : closing[b] \in 0..MaxTicks /\ open[b] \in 0..(MaxTicks + 1)
                           /\ accepted[b] \in 0..MaxCalls

InFlight == cur.pc \in {"open", "done"}

\* order, exactly once, unmodified -- at every moment of a call
OrderedExactlyOnce ==
    cur.pc \in {"start", "routed", "open", "done"} =>
        /\ IsPrefix(cur.bgot, cur.c.reqs)
        /\ IsPrefix(cur.cgot, cur.c.resps)

\* a finished, routed call: everything the backend read is what was sent, everything the
\* backend sent reached the caller, and the caller's status is the backend's
Transparent ==
    (cur.pc = "done" /\ cur.be # NoBackend) =>
        /\ cur.bgot = SubSeq(cur.c.reqs, 1, Reads(cur.c))
        /\ cur.cgot = cur.c.resps
        /\ cur.code = cur.c.code /\ cur.msg = cur.c.msg /\ cur.trl = cur.c.trl
        /\ (Len(cur.c.resps) > 0 => cur.hdr = cur.c.hdr)
        /\ cur.be \in Targets(table)
        /\ cur.be = Best(table, cur.c.host, cur.c.path)

NotFoundContactsNobody ==
    (cur.pc = "done" /\ cur.be = NoBackend) =>
        /\ cur.code = 5
        /\ accepted = cur.acc0
        /\ cur.bgot = <<>> /\ cur.cgot = <<>>
        /\ Best(table, cur.c.host, cur.c.path) = NoBackend

\* at most one live connection per backend (plus those already handed to the closer)
OneConnPerBackend ==
    \A b \in Backends : open[b] = (IF b \in pool THEN 1 ELSE 0) + closing[b]

\* while a backend stays in the table its connection is reused: a new connection is only
\* ever made for a backend without a pool entry
ReusedWhileInTable ==
    (cur.pc = "open" /\ cur.conn = "dial") => accepted[cur.be] = cur.acc0[cur.be] + 1
DialOnlyWithoutEntry ==
    [][(cur'.pc = "open" /\ cur.pc = "routed" /\ cur.be \in pool) => accepted' = accepted]_vars

\* after a clean-up tick no pooled connection belongs to a backend outside the table, and
\* whatever was taken out is closed once the closer ran (Drop): nothing else keeps it open
CleanedAfterTick ==
    hist[Len(hist)].op = "tick" => pool \subseteq Targets(table)
ClosedWhenDropped ==
    (\A b \in Backends : closing[b] = 0) => \A b \in Backends : open[b] = (IF b \in pool THEN 1 ELSE 0)
=============================================================================
