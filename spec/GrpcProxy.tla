----------------------------- MODULE GrpcProxy -----------------------------
(***************************************************************************)
(* fabio as a transparent gRPC proxy (property C16), transcribed from the  *)
(* property statement and the gRPC section of fabio's documentation:       *)
(*                                                                         *)
(*   A gRPC call is forwarded to a backend of the route that matches its   *)
(*   method path (and the host named in its `dsthost` metadata, if any;    *)
(*   without a route for that host the host-less routes apply).  The       *)
(*   backend receives the caller's messages and custom metadata in order   *)
(*   and unmodified; the caller receives the backend's messages, trailers  *)
(*   and final status code and message, and its headers whenever it sends  *)
(*   at least one message.  No matching route: NotFound, no backend is     *)
(*   contacted.  One connection per backend (pool keyed by target URL),    *)
(*   reused while the backend stays in the table, closed by the periodic   *)
(*   clean-up once the backend has left the table.                         *)
(*                                                                         *)
(* State: the routing table, the connection pool, the backends (listening  *)
(* or not, connections open at / accepted by their listeners), the call in *)
(* flight and the burst of overlapping calls in flight.  One action per    *)
(* step of the design: SetTable, CallStart, Route | NotFound, Dial | Reuse *)
(* | Unavailable | Reconnect | StillBackingOff, MsgToBackend,              *)
(* EofToBackend, MsgToCaller, Finish, CleanupTick, Drop, BackendDown,      *)
(* BackendUp, and for a burst of first calls BurstStart, BGet, BDial,      *)
(* BSet, BFly, BLand, BurstEnd (the pool accesses of the overlapping calls *)
(* interleave freely).                                                     *)
(*                                                                         *)
(* A message is an opaque token; "unmodified" is token equality (the       *)
(* harness turns tokens into real protobuf messages and back).             *)
(***************************************************************************)
EXTENDS Integers, Sequences, FiniteSets

CONSTANTS
    Backends,       \* set of backend names (each one target URL)
    Slots,          \* route slots: records [host |-> STRING, path |-> Seq(STRING)]
    Tables,         \* the tables SetTable may install: functions Slots -> Backends \cup {""}
    CallUniverse,   \* call descriptions, see GrpcProxy_MC
    HostOf(_),      \* dsthost value -> the route hosts it matches (documented host matching: letter case and the
                    \* default port do not matter, a route host may be a glob pattern); "" -> {""}
    SchemeOf(_),    \* backend -> scheme of its target URL: "grpc" (plaintext upstream) or "grpcs" (TLS upstream).  The pool
                    \* is keyed by the whole target URL: nothing below depends on the scheme, which is the point -- a
                    \* grpcs:// target in the table is a target like any other (reused, kept by the clean-up).
    BurstUniverse,  \* call descriptions used for bursts of overlapping first calls
    BurstSizes,     \* how many calls overlap in a burst
    MaxCalls, MaxSets, MaxTicks, MaxDowns, MaxBursts,
    MidCall,        \* TRUE: the table may change and the clean-up may run while a call is in flight
    CleanupCloses,  \* TRUE = the design.  FALSE = a deviation ("pool entries are never
                    \* deleted") kept only to show that the pool invariants are not vacuous.
    PoolRace        \* what a call does that dialled because it found no pool entry and then finds
                    \* one when it stores its connection:
                    \*   "recheck"        the design: close the own (unused) connection, use the stored one
                    \*   "overwrite"      deviation: store anyway; the replaced connection stays open for ever
                    \*   "close-replaced" deviation: store anyway and close the replaced one -- which may
                    \*                    carry another call

VARIABLES
    table,      \* Slots -> Backends \cup {""}      ("" = slot not in the table)
    pool,       \* backends that have a pooled connection object (pool key = target URL)
    stale,      \* subset of pool: the backend was missing from some table since the entry was made
    live,       \* subset of pool: the pooled connection is established at the backend right now
    closing,    \* Backends -> Nat: established connections taken out of the pool, not yet closed
    open,       \* Backends -> Nat: connections currently open at the backend's listener
    accepted,   \* Backends -> Nat: connections the backend ever accepted
    up,         \* Backends -> BOOLEAN: the backend listens (FALSE = outage)
    cur,        \* the call in flight
    bst,        \* the burst of overlapping first calls in flight
    cnt,        \* [calls, sets, ticks, downs, bursts, unav]: bounds of the exploration
    hist        \* completed steps with what an observer must have seen (not in the VIEW)

net == <<pool, stale, live, closing, open, accepted, up>>
vars == <<table, pool, stale, live, closing, open, accepted, up, cur, bst, cnt, hist>>

-----------------------------------------------------------------------------
NoBackend == ""
Idle == [pc |-> "idle"]
Quiet == cur.pc = "idle" /\ bst.pc = "idle"
Targets(t) == {t[s] : s \in Slots} \ {NoBackend}

IsPrefix(p, q) == Len(p) <= Len(q) /\ \A i \in 1..Len(p) : p[i] = q[i]

\* Routing as documented: routes of the named host first, else the host-less routes;
\* among the candidates the longest matching path prefix.
\* A slot with zero = TRUE is a target that is in the table with weight 0 (all traffic of its route goes to
\* its sibling): it is never picked, but its backend IS in the table.
Cands(t, h, path) == {s \in Slots : t[s] # NoBackend /\ ~s.zero /\ s.host \in HostOf(h) /\ IsPrefix(s.path, path)}
Longest(S) == CHOOSE s \in S : \A u \in S : Len(u.path) <= Len(s.path)
Best(t, h, path) ==
    IF h # "" /\ Cands(t, h, path) # {} THEN t[Longest(Cands(t, h, path))]
    ELSE IF Cands(t, "", path) # {} THEN t[Longest(Cands(t, "", path))]
    ELSE NoBackend

\* Does the server side of this call kind see the end of the request stream?
HasEOF(c) == c.kind \in {"cstream", "bidi"}
\* how many requests the backend reads before it finishes
Reads(c) == IF c.early THEN 0 ELSE Len(c.reqs)
Min(a, b) == IF a < b THEN a ELSE b

-----------------------------------------------------------------------------
Init ==
    /\ table \in Tables
    /\ pool = {} /\ stale = {} /\ live = {}
    /\ closing = [b \in Backends |-> 0]
    /\ open = [b \in Backends |-> 0]
    /\ accepted = [b \in Backends |-> 0]
    /\ up = [b \in Backends |-> TRUE]
    /\ cur = Idle /\ bst = Idle
    /\ cnt = [calls |-> 0, sets |-> 0, ticks |-> 0, downs |-> 0, bursts |-> 0, unav |-> 0]
    /\ hist = <<[op |-> "set", table |-> table]>>

\* The control plane installs another table (between calls).
SetTable(t) ==
    /\ t # table
    /\ table' = t
    /\ stale' = stale \cup (pool \ Targets(t))
    /\ cnt' = [cnt EXCEPT !.sets = @ + 1]
    /\ hist' = Append(hist, [op |-> "set", table |-> t])
    /\ UNCHANGED <<pool, live, closing, open, accepted, up, cur, bst>>

CallStart(c) ==
    /\ cur' = [pc |-> "start", c |-> c, be |-> NoBackend, conn |-> "none", acc0 |-> accepted,
               bgot |-> <<>>, beof |-> FALSE, cgot |-> <<>>, ord |-> <<>>, tabs |-> <<>>,
               code |-> -1, msg |-> "", hdr |-> "none", trl |-> "none", unav |-> "no"]
    /\ cnt' = [cnt EXCEPT !.calls = @ + 1]
    /\ UNCHANGED <<table, net, bst, hist>>

Route ==
    /\ cur.pc = "start" /\ Best(table, cur.c.host, cur.c.path) # NoBackend
    /\ cur' = [cur EXCEPT !.pc = "routed", !.be = Best(table, cur.c.host, cur.c.path)]
    /\ UNCHANGED <<table, net, bst, cnt, hist>>

CallRecord == [op |-> "call", call |-> cur'.c, be |-> cur'.be, conn |-> cur'.conn, scheme |-> SchemeOf(cur'.be),
               bgot |-> cur'.bgot, beof |-> cur'.beof, cgot |-> cur'.cgot, ord |-> cur'.ord, tabs |-> cur'.tabs,
               code |-> cur'.code, msg |-> cur'.msg, hdr |-> cur'.hdr, trl |-> cur'.trl, unav |-> cur'.unav]

\* NotFound is the proxy's own answer; no backend is involved.
NotFound ==
    /\ cur.pc = "start" /\ Best(table, cur.c.host, cur.c.path) = NoBackend
    /\ cur' = [cur EXCEPT !.pc = "done", !.code = 5, !.msg = "*"]
    /\ hist' = Append(hist, CallRecord)
    /\ UNCHANGED <<table, net, bst, cnt>>

Dial ==
    /\ cur.pc = "routed" /\ cur.be \notin pool /\ up[cur.be]
    /\ pool' = pool \cup {cur.be}
    /\ live' = live \cup {cur.be}
    /\ open' = [open EXCEPT ![cur.be] = @ + 1]
    /\ accepted' = [accepted EXCEPT ![cur.be] = @ + 1]
    /\ cur' = [cur EXCEPT !.pc = "open", !.conn = "dial"]
    /\ UNCHANGED <<table, stale, closing, up, bst, cnt, hist>>

\* A stale entry may silently have been cleaned up in the meantime (the clean-up runs on a
\* timer of its own): an observer cannot tell which, hence conn = "may".
Reuse ==
    /\ cur.pc = "routed" /\ cur.be \in live
    /\ cur' = [cur EXCEPT !.pc = "open", !.conn = IF cur.be \in stale THEN "may" ELSE "reuse"]
    /\ stale' = stale \ {cur.be}
    /\ UNCHANGED <<table, pool, live, closing, open, accepted, up, bst, cnt, hist>>

\* The backend of the route does not listen: the call cannot be forwarded.  The statement says
\* nothing about its status; what matters is what happens to the connections.  The pool keeps
\* (or makes) its one connection object for the backend, which is not established.
Unavailable ==
    /\ cur.pc = "routed" /\ ~up[cur.be]
    /\ pool' = pool \cup {cur.be}
    /\ cur' = [cur EXCEPT !.pc = "done", !.code = 14, !.msg = "*", !.unav = "yes"]
    /\ cnt' = [cnt EXCEPT !.unav = @ + 1]      \* calls refused during the outages so far
    /\ hist' = Append(hist, CallRecord)
    /\ UNCHANGED <<table, stale, live, closing, open, accepted, up, bst>>

\* The backend listens again and the pooled connection object re-establishes itself (gRPC does
\* that after a back-off of its own) -- with this call ...
Reconnect ==
    /\ cur.pc = "routed" /\ cur.be \in pool \ live /\ up[cur.be]
    /\ live' = live \cup {cur.be}
    /\ open' = [open EXCEPT ![cur.be] = @ + 1]
    /\ accepted' = [accepted EXCEPT ![cur.be] = @ + 1]
    /\ stale' = stale \ {cur.be}
    /\ cur' = [cur EXCEPT !.pc = "open", !.conn = "reconnect"]
    /\ UNCHANGED <<table, pool, closing, up, bst, cnt, hist>>
\* ... or not yet: the call still fails
StillBackingOff ==
    /\ cur.pc = "routed" /\ cur.be \in pool \ live /\ up[cur.be]
    /\ cur' = [cur EXCEPT !.pc = "done", !.code = 14, !.msg = "*", !.unav = "may"]
    /\ hist' = Append(hist, CallRecord)
    /\ UNCHANGED <<table, net, bst, cnt>>

MsgToBackend ==
    /\ cur.pc = "open" /\ Len(cur.bgot) < Reads(cur.c)
    /\ cur' = [cur EXCEPT !.bgot = Append(@, cur.c.reqs[Len(cur.bgot) + 1]), !.ord = Append(@, "q")]
    /\ UNCHANGED <<table, net, bst, cnt, hist>>

EofToBackend ==
    /\ cur.pc = "open" /\ HasEOF(cur.c) /\ ~cur.c.early /\ ~cur.beof
    /\ Len(cur.bgot) = Len(cur.c.reqs)
    /\ cur' = [cur EXCEPT !.beof = TRUE, !.ord = Append(@, "e")]
    /\ UNCHANGED <<table, net, bst, cnt, hist>>

\* the backend's script says when it is willing to send response j
ReqsDone == IF HasEOF(cur.c) THEN cur.beof ELSE Len(cur.bgot) = Len(cur.c.reqs)
GateOK(j) ==
    CASE cur.c.early -> TRUE
      [] cur.c.gate = "eager" -> TRUE
      [] cur.c.gate = "echo"  -> /\ Len(cur.bgot) >= Min(j, Len(cur.c.reqs))
                                 /\ (j > Len(cur.c.reqs) => ReqsDone)
      [] cur.c.gate = "late"  -> ReqsDone

MsgToCaller ==
    /\ cur.pc = "open" /\ Len(cur.cgot) < Len(cur.c.resps) /\ GateOK(Len(cur.cgot) + 1)
    /\ cur' = [cur EXCEPT !.cgot = Append(@, cur.c.resps[Len(cur.cgot) + 1]), !.ord = Append(@, "r")]
    /\ UNCHANGED <<table, net, bst, cnt, hist>>

\* The backend ends the call; the caller sees its status, trailers, and (having received a
\* message) its headers.
Finish ==
    /\ cur.pc = "open" /\ Len(cur.cgot) = Len(cur.c.resps)
    /\ cur.c.early \/ ReqsDone
    /\ cur' = [cur EXCEPT !.pc = "done", !.code = cur.c.code, !.msg = cur.c.msg, !.trl = cur.c.trl,
                          !.hdr = IF Len(cur.c.resps) > 0 THEN cur.c.hdr ELSE "any",
                          !.ord = Append(@, "f")]
    /\ hist' = Append(hist, CallRecord)
    /\ UNCHANGED <<table, net, bst, cnt>>

\* While a call is in flight the control plane installs another table ("t") ...
SetTableMid(t) ==
    /\ MidCall /\ cur.pc = "open" /\ cnt.sets < MaxSets /\ t # table
    /\ table' = t
    /\ stale' = stale \cup (pool \ Targets(t))
    /\ cnt' = [cnt EXCEPT !.sets = @ + 1]
    /\ cur' = [cur EXCEPT !.ord = Append(@, "t"), !.tabs = Append(@, t)]
    /\ UNCHANGED <<pool, live, closing, open, accepted, up, bst, hist>>
\* ... and the periodic clean-up runs ("k").  The call's backend is still in the table -- possibly with weight 0,
\* i.e. without new traffic -- so its connection stays and the call goes on.  (Nothing is said here about a call
\* whose backend has left the table altogether.)
CleanupTickMid ==
    /\ MidCall /\ cur.pc = "open" /\ cnt.ticks < MaxTicks /\ cur.be \in Targets(table)
    /\ LET gone == pool \ Targets(table) IN
       /\ pool' = pool \ gone
       /\ stale' = stale \ gone
       /\ live' = live \ gone
       /\ closing' = [b \in Backends |-> closing[b] + IF b \in gone \cap live THEN 1 ELSE 0]
    /\ cnt' = [cnt EXCEPT !.ticks = @ + 1]
    /\ cur' = [cur EXCEPT !.ord = Append(@, "k")]
    /\ UNCHANGED <<table, open, accepted, up, bst, hist>>
SetTableMidAny == MidCall /\ cur.pc = "open" /\ cnt.sets < MaxSets /\ \E t \in Tables : SetTableMid(t)

Return ==
    /\ cur.pc = "done"
    /\ cur' = Idle
    /\ UNCHANGED <<table, net, bst, cnt, hist>>

\* The periodic clean-up: every pooled connection whose backend is not in the table is taken
\* out of the pool and scheduled for closing.
CleanupTick ==
    /\ Quiet /\ cnt.ticks < MaxTicks
    /\ LET gone == IF CleanupCloses THEN pool \ Targets(table) ELSE {} IN
       /\ pool' = pool \ gone
       /\ stale' = stale \ gone
       /\ live' = live \ gone
       /\ closing' = [b \in Backends |-> closing[b] + IF b \in gone \cap live THEN 1 ELSE 0]
       /\ hist' = Append(hist, [op |-> "tick", closed |-> gone, pooled |-> (live \ gone) \ stale])
    /\ cnt' = [cnt EXCEPT !.ticks = @ + 1]
    /\ UNCHANGED <<table, open, accepted, up, cur, bst>>

\* The closer closes a connection that was taken out of the pool (after its grace period).  A call that is
\* in flight to the same backend -- which came back into the table in the meantime -- runs on another
\* connection and is not touched; the behaviour notes the moment ("d") so that it can be replayed.
Drop(b) ==
    /\ closing[b] > 0
    /\ closing' = [closing EXCEPT ![b] = @ - 1]
    /\ open' = [open EXCEPT ![b] = @ - 1]
    /\ cur' = IF cur.pc = "open" /\ cur.be = b THEN [cur EXCEPT !.ord = Append(@, "d")] ELSE cur
    /\ UNCHANGED <<table, pool, stale, live, accepted, up, bst, cnt, hist>>

-----------------------------------------------------------------------------
\* Outages: a backend that is in the table stops listening (every connection to it dies) and
\* later listens again on the same address.
BackendDown(b) ==
    /\ Quiet /\ up[b] /\ cnt.downs < MaxDowns
    /\ up' = [up EXCEPT ![b] = FALSE]
    /\ live' = live \ {b}
    /\ open' = [open EXCEPT ![b] = 0]
    /\ closing' = [closing EXCEPT ![b] = 0]
    /\ cnt' = [cnt EXCEPT !.downs = @ + 1]
    /\ hist' = Append(hist, [op |-> "down", be |-> b])
    /\ UNCHANGED <<table, pool, stale, accepted, cur, bst>>

BackendUp(b) ==
    /\ Quiet /\ ~up[b]
    /\ up' = [up EXCEPT ![b] = TRUE]
    /\ hist' = Append(hist, [op |-> "up", be |-> b])
    /\ UNCHANGED <<table, pool, stale, live, closing, open, accepted, cur, bst, cnt>>

-----------------------------------------------------------------------------
\* A burst: n calls for a backend the pool has no connection object for yet, overlapping.  Each
\* call looks the pool up (Get), finding nothing makes a connection object (Dial), stores it
\* (Set), and runs on the connection it ended up with (Fly .. Land).  A connection is established
\* at the backend when the first call flies on it.
BurstStart(c, n) ==
    /\ Quiet /\ cnt.bursts < MaxBursts
    /\ LET b == Best(table, c.host, c.path) IN
       /\ b # NoBackend /\ b \notin pool /\ up[b]
       /\ bst' = [pc |-> "run", c |-> c, be |-> b, n |-> n,
                  st |-> [i \in 1..n |-> "get"], using |-> [i \in 1..n |-> 0],
                  entry |-> 0, alive |-> {}, conn |-> {}]
    /\ cnt' = [cnt EXCEPT !.bursts = @ + 1]
    /\ UNCHANGED <<table, net, cur, hist>>

BGet(i) ==
    /\ bst.pc = "run" /\ bst.st[i] = "get"
    /\ bst' = IF bst.entry # 0
              THEN [bst EXCEPT !.st[i] = "ready", !.using[i] = bst.entry]
              ELSE [bst EXCEPT !.st[i] = "dial"]
    /\ UNCHANGED <<table, net, cur, cnt, hist>>

BDial(i) ==
    /\ bst.pc = "run" /\ bst.st[i] = "dial"
    /\ bst' = [bst EXCEPT !.st[i] = "set", !.alive = @ \cup {i}]
    /\ UNCHANGED <<table, net, cur, cnt, hist>>

BSet(i) ==
    /\ bst.pc = "run" /\ bst.st[i] = "set"
    /\ IF bst.entry = 0 \/ PoolRace = "overwrite"
       THEN /\ bst' = [bst EXCEPT !.st[i] = "ready", !.using[i] = i, !.entry = i]
            /\ UNCHANGED open
       ELSE IF PoolRace = "recheck"
       THEN /\ bst' = [bst EXCEPT !.st[i] = "ready", !.using[i] = bst.entry, !.alive = @ \ {i}]
            /\ UNCHANGED open
       ELSE \* "close-replaced"
            /\ bst' = [bst EXCEPT !.st[i] = "ready", !.using[i] = i, !.entry = i,
                                  !.alive = @ \ {bst.entry}, !.conn = @ \ {bst.entry}]
            /\ open' = [open EXCEPT ![bst.be] = @ - IF bst.entry \in bst.conn THEN 1 ELSE 0]
    /\ UNCHANGED <<table, pool, stale, live, closing, accepted, up, cur, cnt, hist>>

\* the call is put on its connection; the first one establishes it
BFly(i) ==
    /\ bst.pc = "run" /\ bst.st[i] = "ready"
    /\ LET k == bst.using[i] IN
       IF k \in bst.alive
       THEN /\ bst' = [bst EXCEPT !.st[i] = "fly", !.conn = @ \cup {k}]
            /\ open' = [open EXCEPT ![bst.be] = @ + IF k \in bst.conn THEN 0 ELSE 1]
            /\ accepted' = [accepted EXCEPT ![bst.be] = @ + IF k \in bst.conn THEN 0 ELSE 1]
       ELSE /\ bst' = [bst EXCEPT !.st[i] = "cancelled"]
            /\ UNCHANGED <<open, accepted>>
    /\ UNCHANGED <<table, pool, stale, live, closing, up, cur, cnt, hist>>

\* the call ends: with the backend's answer if its connection is still there
BLand(i) ==
    /\ bst.pc = "run" /\ bst.st[i] = "fly"
    /\ bst' = [bst EXCEPT !.st[i] = IF bst.using[i] \in bst.alive THEN "done" ELSE "cancelled"]
    /\ UNCHANGED <<table, net, cur, cnt, hist>>

BurstEnd ==
    /\ bst.pc = "run" /\ \A i \in 1..bst.n : bst.st[i] \in {"done", "cancelled"}
    /\ pool' = pool \cup {bst.be}
    /\ live' = live \cup {bst.be}
    /\ hist' = Append(hist, [op |-> "burst", call |-> bst.c, be |-> bst.be, n |-> bst.n,
                             served |-> Cardinality({i \in 1..bst.n : bst.st[i] = "done"}),
                             open |-> Cardinality(bst.conn)])
    /\ bst' = Idle
    /\ UNCHANGED <<table, stale, closing, open, accepted, up, cur, cnt>>

\* (the guards come first so that the universes are only enumerated where they can apply)
SetTableAny == Quiet /\ cnt.sets < MaxSets /\ \E t \in Tables : SetTable(t)
CallStartAny == Quiet /\ cnt.calls < MaxCalls /\ \E c \in CallUniverse : CallStart(c)
BurstStartAny == Quiet /\ cnt.bursts < MaxBursts /\ \E c \in BurstUniverse, n \in BurstSizes : BurstStart(c, n)
BurstStep == bst.pc = "run" /\ \E i \in 1..bst.n : BGet(i) \/ BDial(i) \/ BSet(i) \/ BFly(i) \/ BLand(i)
Outage == \E b \in Backends : BackendDown(b) \/ BackendUp(b)

Next ==
    \/ SetTableAny
    \/ CallStartAny
    \/ Route \/ NotFound \/ Dial \/ Reuse \/ Unavailable \/ Reconnect \/ StillBackingOff
    \/ MsgToBackend \/ EofToBackend \/ MsgToCaller \/ Finish \/ Return
    \/ SetTableMidAny \/ CleanupTickMid
    \/ CleanupTick
    \/ \E b \in Backends : Drop(b)
    \/ Outage
    \/ BurstStartAny \/ BurstStep \/ BurstEnd

Spec == Init /\ [][Next]_vars

-----------------------------------------------------------------------------
\* Properties (the statement of C16)

TypeOK ==
    /\ table \in [Slots -> Backends \cup {NoBackend}]
    /\ pool \subseteq Backends /\ stale \subseteq pool /\ live \subseteq pool
    /\ \A b \in Backends : closing[b] \in Nat /\ open[b] \in Nat /\ accepted[b] \in Nat /\ up[b] \in BOOLEAN
    /\ \A b \in live : up[b]
    /\ \A b \in Backends : SchemeOf(b) \in {"grpc", "grpcs"}

\* order, exactly once, unmodified -- at every moment of a call
OrderedExactlyOnce ==
    cur.pc \in {"start", "routed", "open", "done"} =>
        /\ IsPrefix(cur.bgot, cur.c.reqs)
        /\ IsPrefix(cur.cgot, cur.c.resps)

\* a finished call that was forwarded: everything the backend read is what was sent, everything
\* the backend sent reached the caller, and the caller's status is the backend's
Forwarded == cur.pc = "done" /\ cur.be # NoBackend /\ cur.unav = "no"
Transparent ==
    Forwarded =>
        /\ cur.bgot = SubSeq(cur.c.reqs, 1, Reads(cur.c))
        /\ cur.cgot = cur.c.resps
        /\ cur.code = cur.c.code /\ cur.msg = cur.c.msg /\ cur.trl = cur.c.trl
        /\ (Len(cur.c.resps) > 0 => cur.hdr = cur.c.hdr)
        /\ cur.tabs = <<>> => (cur.be \in Targets(table) /\ cur.be = Best(table, cur.c.host, cur.c.path))
\* a call is forwarded whenever its route's backend listens and is connected or never was
ForwardedWhenReachable ==
    (cur.pc = "done" /\ cur.be # NoBackend /\ cur.unav = "yes") => ~up[cur.be]

NotFoundContactsNobody ==
    (cur.pc = "done" /\ cur.be = NoBackend) =>
        /\ cur.code = 5
        /\ accepted = cur.acc0
        /\ cur.bgot = <<>> /\ cur.cgot = <<>>
        /\ Best(table, cur.c.host, cur.c.path) = NoBackend

\* at most one established connection per backend (plus those already handed to the closer),
\* counted at the backend's listener -- whenever no burst is in the air
OneConnPerBackend ==
    bst.pc = "idle" => \A b \in Backends : open[b] = (IF b \in live THEN 1 ELSE 0) + closing[b]

\* while a backend stays in the table its connection is reused: a new connection is only
\* ever made for a backend without a pool entry
ReusedWhileInTable ==
    (cur.pc = "open" /\ cur.conn = "dial") => accepted[cur.be] = cur.acc0[cur.be] + 1
DialOnlyWithoutEntry ==
    [][(cur'.pc = "open" /\ cur.pc = "routed" /\ cur.be \in live) => accepted' = accepted]_vars

\* after a clean-up tick no pooled connection belongs to a backend outside the table, and
\* whatever was taken out is closed once the closer ran (Drop): nothing else keeps it open
CleanedAfterTick ==
    (hist[Len(hist)].op = "tick" /\ cur.pc = "idle") => pool \subseteq Targets(table)
ClosedWhenDropped ==
    (bst.pc = "idle" /\ \A b \in Backends : closing[b] = 0) =>
        \A b \in Backends : open[b] = (IF b \in live THEN 1 ELSE 0)

\* a call is never cancelled because another call raced it to the pool ...
BurstTransparent ==
    bst.pc = "run" => \A i \in 1..bst.n : bst.st[i] # "cancelled"
\* ... and once the burst is over exactly one connection object is left, the pooled one
BurstLeavesOneConn ==
    (bst.pc = "run" /\ \A i \in 1..bst.n : bst.st[i] \in {"done", "cancelled"}) =>
        /\ bst.alive = {bst.entry}
        /\ bst.conn = {bst.entry}
=============================================================================
