---------------------------- MODULE Weights_MC ----------------------------
(* Bounded universes for Weights and the case generator: one JSON line per weight vector      *)
(* (the `route add` targets, the `route weight` script that produced it, the exact effective  *)
(* weights and the slot bounds on the 10 000 ring the specification prescribes).              *)
EXTENDS Weights, Json, TLC

\* Unit = 1 200 000:  10 ppm = 12, 100 ppm = 120, 25 % = 300 000, 33.33 % = 399 960, 50 % = 600 000,
\*                    99.99 % = 1 199 880, 100 % = 1 200 000, 150 % = 1 800 000
MCWUAll   == {0, 12, 120, 300000, 399960, 600000, 1199880, 1200000, 1800000}
MCWUCore  == {0, 12, 300000, 399960, 600000, 1800000}
MCWUSmall == {0, 300000}
MCWUMid   == {0, 12, 600000}
MCWCNone  == {}
MCWCSmall == {0, 12, 600000, 1800000}
MCWCFull  == {-600000, 0, 12, 300000, 399960, 600000, 1200000, 1800000}
MCWCReset == {-600000, 0, 600000}
MCTags2 == {{}, {"t1"}}
MCWUHist == {0, 600000, 1200000}
MCWCHist == {0, 600000}
MCWUReAdd == {0, 300000, 600000, 1200000}
MCOpsWeight == {"weight"}
MCOpsAll == {"weight", "add", "del"}
MCOpsReAdd == {"weight", "add", "del", "readd"}
MCOpsReAddOnly == {"readd", "weight"}
MCSvc1 == {"A"}
MCSvc2 == {"A", "B"}
MCTags1 == {{}}
MCTags3 == {{}, {"t1"}, {"t1", "t2"}}

\* The implementation is stateful (every command re-weighs the route), so the same final
\* configuration reached from different `route add` lines is NOT the same case: the view keeps
\* the targets as added.  Scripts with the same start and the same result are examined once
\* (View); the reset universe (weight > 0 then weight 0 / negative, ...) is generated without
\* a view, i.e. every script is a case.
View == <<tg0, tg, tgL, pc>>

TargetJson(t) == [i \in 1..Len(t) |-> [svc |-> t[i].svc, tags |-> t[i].tags, k |-> t[i].k]]
CaseJson ==
    LET v == Vec(tg) IN
    [unit |-> Unit,
     adds |-> TargetJson(tg0),
     cmds |-> [i \in 1..Len(cmds) |-> [op |-> cmds[i].op, svc |-> cmds[i].svc, sel |-> cmds[i].sel, w |-> cmds[i].w, id |-> cmds[i].id]],
     fk   |-> v,
     ew   |-> [i \in 1..Len(v) |-> [n |-> Eff(v, i).n, d |-> Eff(v, i).d]],
     lo   |-> [i \in 1..Len(v) |-> SlotLo(100, 100, Eff(v, i))],
     hi   |-> [i \in 1..Len(v) |-> SlotHi(100, 100, Eff(v, i))],
     \* the "last announced weight wins" reading of the re-announcements (equal to the above
     \* when nothing was announced again with another weight; empty when nothing is left)
     alt  |-> LET a == Vec(tgL) IN
              [fk |-> a,
               ew |-> [i \in 1..Len(a) |-> [n |-> Eff(a, i).n, d |-> Eff(a, i).d]],
               lo |-> [i \in 1..Len(a) |-> SlotLo(100, 100, Eff(a, i))],
               hi |-> [i \in 1..Len(a) |-> SlotHi(100, 100, Eff(a, i))]]]

Emit == /\ pc = "cfg" /\ tg # <<>>
        /\ PrintT(ToJson(CaseJson))
        /\ pc' = "done"
        /\ UNCHANGED <<tg0, tg, tgL, cmds, ringvars>>
GenNext == CfgNext \/ Emit
GenSpec == Init /\ [][GenNext]_vars

\* the slot bounds the generator prints are consistent: lo <= 10^4 w <= hi up to one slot
BoundsInv == LET v == Vec(tg) IN
             \A i \in 1..Len(v) :
               LET w == Eff(v, i) lo == SlotLo(100, 100, w) hi == SlotHi(100, 100, w) IN
               /\ lo <= hi /\ hi <= 10000 /\ (w.n = 0 <=> hi = 0) /\ (w.n > 0 => lo >= 1)
               /\ hi - lo <= 2
=============================================================================
