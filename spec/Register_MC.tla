----------------------------- MODULE Register_MC -----------------------------
(* Bounded universes for Register.                                            *)
EXTENDS Register, Json, TLC

\* every candidate over one / two aliases: which names are asked for by `route add` lines, which
\* of those routes a later `route del` removes again, whether the text parses.  The own service
\* name may be used as an alias, too ("fabio").
MkCands(A) == { [id |-> "c", adds |-> a, dels |-> d, ok |-> o] : a \in SUBSET A, d \in SUBSET A, o \in BOOLEAN }
CandId(c) == (IF c.ok THEN "ok" ELSE "bad") \o ToString(c.adds) \o "-" \o ToString(c.dels)
WithIds(S) == { [c EXCEPT !.id = CandId(c)] : c \in {x \in S : x.dels \subseteq x.adds} }

MCAlias1 == {"a"}
MCAlias2 == {"a", "b"}
\* small: one alias; candidates: nothing / a / a deleted again / syntax error with a
MCCands1 == WithIds(MkCands({"a"}))
\* two aliases and the own name used as an alias
MCCands2 == WithIds({c \in MkCands({"a", "b", "fabio"}) : Cardinality(c.adds) <= 2 /\ Cardinality(c.dels) <= 1})
\* be-level universe: only valid candidates without deletions (direct be.Register(S) calls)
MCCandsBe == WithIds({c \in MkCands({"a", "b", "fabio"}) : c.dels = {} /\ c.ok})
\* loop-level universe: the manual-override texts of harness/main/x01_loop_test.go (ids = text names)
C(id, adds, dels, ok) == [id |-> id, adds |-> adds, dels |-> dels, ok |-> ok]
MCLoopCands == { C("none", {}, {}, TRUE), C("a", {"a"}, {}, TRUE), C("b", {"b"}, {}, TRUE),
                 C("ab", {"a", "b"}, {}, TRUE), C("adel", {"a"}, {"a"}, TRUE),
                 C("abdel", {"a", "b"}, {"b"}, TRUE), C("bad", {"a"}, {}, FALSE),
                 C("own", {"fabio"}, {}, TRUE) }
=============================================================================
