---------------------------- MODULE MetricsNames ----------------------------
(* X05 - the route metric name (docs/content/ref/metrics.names.md).                            *)
(*                                                                                            *)
(* `metrics.names` is a text/template over .Service, .Host, .Path (of the URL prefix) and      *)
(* .TargetURL (the URL of the target), with the function                                       *)
(*     clean: lowercase value and replace `.` and `:` with `_`                                 *)
(* default: {{clean .Service}}.{{clean .Host}}.{{clean .Path}}.{{clean .TargetURL.Host}}        *)
(* documented example: testservice, www.example.com, /, 10.1.2.3:12345                          *)
(*                  -> testservice.www_example_com./.10_1_2_3_12345                             *)
(*                                                                                            *)
(* Strings are sequences of one-character strings.  A template is a sequence of segments:      *)
(* [lit |-> chars] or [fn |-> "clean" | "", field |-> name].  Deviation (named):               *)
(*   CleanEmptyUnderscore   the code renders clean("") as "_"; the documented function gives "" *)
EXTENDS Integers, Sequences, FiniteSets, TLC
CONSTANT CleanEmptyUnderscore

LowerMap == [A |-> "a", B |-> "b", C |-> "c", S |-> "s", V |-> "v", X |-> "x"]
Lower(c) == IF c \in DOMAIN LowerMap THEN LowerMap[c] ELSE c
CleanDoc(w) == [i \in 1..Len(w) |-> IF w[i] \in {".", ":"} THEN "_" ELSE Lower(w[i])]
Clean(w) == IF w = <<>> /\ CleanEmptyUnderscore THEN <<"_">> ELSE CleanDoc(w)

Fields == {"Service", "Host", "Path", "TargetURL.Host", "TargetURL.Scheme", "TargetURL.Path"}
\* d = [svc, host, path, scheme, uhost, uport, upath]: the route `route add svc host/path scheme://uhost:uport/upath`
Colon(p) == IF p = <<>> THEN <<>> ELSE <<":">> \o p
Field(d, f) == CASE f = "Service" -> d.svc [] f = "Host" -> d.host [] f = "Path" -> d.path
                 [] f = "TargetURL.Host" -> d.uhost \o Colon(d.uport)
                 [] f = "TargetURL.Scheme" -> d.scheme [] f = "TargetURL.Path" -> d.upath
Seg(d, g) == IF "lit" \in DOMAIN g THEN g.lit
             ELSE IF g.fn = "clean" THEN Clean(Field(d, g.field)) ELSE Field(d, g.field)
RECURSIVE Render(_, _)
Render(tpl, d) == IF tpl = <<>> THEN <<>> ELSE Seg(d, Head(tpl)) \o Render(Tail(tpl), d)

Dot == [lit |-> <<".">>]
C(f) == [fn |-> "clean", field |-> f]
Default == <<C("Service"), Dot, C("Host"), Dot, C("Path"), Dot, C("TargetURL.Host")>>

\* the identity the default name is made of (what the documentation calls prefix.service.host.path.target-addr)
Ident(d) == <<d.svc, d.host, d.path, d.uhost \o Colon(d.uport)>>
CleanIdent(d) == <<CleanDoc(d.svc), CleanDoc(d.host), CleanDoc(d.path), CleanDoc(d.uhost \o Colon(d.uport))>>
=============================================================================
