---------------------------- MODULE HttpProxy_MC ----------------------------
(* Bounded universes of HttpProxy for the properties C07, C08, C13 and the case generator.   *)
(*                                                                                           *)
(* The case space is a product of small feature domains.  It is chosen in two levels         *)
(* (ChooseOuter, ChooseCase) so that every TLC worker has work; a case is kept when a linear *)
(* hash of its feature indices plus SliceSeed is 0 modulo SliceMod (SliceMod = 1: the full   *)
(* product).  Every finished pipeline run (pc = "done") is printed once, by the invariant    *)
(* Gen, as a JSON line {c: the case, up: the request the upstream must receive, hits, out:   *)
(* what the client must see}.                                                                *)
EXTENDS HttpProxy, Json, TLC

CONSTANTS Prop,         \* "C07" | "C08" | "C13": which universe
          SliceMod,     \* keep 1 case in SliceMod ...
          SliceSeed     \* ... selected by this seed

S == "/"
MCEscapes == {"%2F", "%2f", "%20", "%41", "%C3%A9", "%C3%B6", "%c3%b6", "%5E"}
\* option text that must be percent-encoded in a path: "U+F6" stands for the letter o-umlaut (the harness writes it
\* as UTF-8 into the route option), "^" for itself
\* upstream answer scripts that break off: Content-Length announced but the connection closed after part of the
\* body; chunked without the last chunk (after some / no body bytes, closed or reset); closed before any header
MCFaulty  == {"cutcl", "cutchunked", "cutchunked0", "rstchunked", "cuthead", "timeout"}     \* timeout: no answer within proxy.responseheadertimeout
MCEncoded == [t \in {"U+F6", "^"} |-> IF t = "U+F6" THEN "%C3%B6" ELSE "%5E"]
MCDecoded == [t \in {"%C3%B6", "%c3%b6", "%5E"} |-> IF t = "%5E" THEN "^" ELSE "U+F6"]

Keep(h) == (h + SliceSeed) % SliceMod = 0

AllAbsent == [clientip |-> "absent", xff |-> "absent", xrealip |-> "absent", tlshdr |-> "absent",
              xfproto |-> "absent", forwarded |-> "absent", xfport |-> "absent", xfhost |-> "absent"]
BaseCase == [prop |-> Prop, sub |-> "", tls |-> FALSE, kind |-> "http", method |-> "GET", rhost |-> "plain",
             path |-> <<S>>, query |-> <<>>, hdrs |-> "none", forged |-> AllAbsent, xfpval |-> "",
             routes |-> <<>>, cfgip |-> FALSE, cfgtls |-> FALSE, cfgsts |-> FALSE,
             nrstatus |-> 404, nrpage |-> "", resp |-> "ok",
             peer |-> "v4",          \* the client connects over 127.0.0.1 ("v4") or ::1 ("v6")
             cfgspell |-> "canon",
             accesslog |-> FALSE,
             cfggzip |-> FALSE,      \* proxy.gzip.contenttype is set (^text/)
             noglob |-> FALSE,       \* glob.matching.disabled = true
             hist |-> <<>>,          \* earlier requests through the same route (C13 histories), the own request last
             hostlabel |-> "a",
             together |-> FALSE,     \* the requests of hist arrive simultaneously, at a proxy that has not served anything yet
             pagehist |-> <<>>,      \* no-route pages the registry delivers, one after the other, before the request ("" = removed)
             flip |-> <<>>]          \* no-route pages the registry alternates between WHILE the request is answered      \* which of the hosts matching the route's host pattern is asked for    \* an access logger is configured (must not change what anybody receives)   \* configured header names in canonical MIME spelling, or as people write them ("odd": X-TLS, X-Client-IP)
Ordinary(src, strip, prepend, hostopt, tq) ==
    [NoRouteRec EXCEPT !.src = src, !.strip = strip, !.prepend = prepend, !.hostopt = hostopt, !.tquery = tq]
Tpl(scheme, host, pre, var, slash, q) == [scheme |-> scheme, host |-> host, pre |-> pre, var |-> var, slash |-> slash, query |-> q]
Code(txt, num) == [txt |-> txt, num |-> num]

-----------------------------------------------------------------------------
\* C07: pass-through fidelity
C07Methods  == <<"GET", "POST", "PUT", "DELETE", "PATCH", "OPTIONS">>
C07Paths    == << <<S, "strip">>,                                           \*  1 /strip              (strip leaves nothing)
                  <<S, "strip", S>>,                                        \*  2 /strip/
                  <<S, "strip", S, "a", S, "b">>,                           \*  3 /strip/a/b
                  <<S, "strip", S, "a", "%2F", "b">>,                       \*  4 /strip/a%2Fb
                  <<S, "strip", S, "a", "%20", "b">>,                       \*  5 /strip/a%20b
                  <<S, "strip", S, "%41", "x">>,                            \*  6 /strip/%41x         (needlessly escaped letter)
                  <<S, "strip", "me", S, "x">>,                             \*  7 /stripme/x          (strip leaves a relative rest)
                  <<S, "strip", S, "a", "%2f", "b", S, "c", "%20", "d", "%41">>,   \* 8 several escapes, lower-case hex
                  <<S, "strip", S, "caf", "%C3%A9">>,                       \*  9 /strip/caf%C3%A9
                  <<S, "strip", S, "a'b;c=d@e">> >>                         \* 10 sub-delimiters sent unescaped
C07Queries  == << <<>>, <<"a=1", "b=%2F">>, <<"q=x%20y+z">> >>
C07Strips   == << <<>>, <<S, "strip">>, <<S, "strip", S, "zz">>,            \* the third one never applies,
                  <<S, "strip", S>> >>                                      \* the fourth ends in a slash (leaves a relative rest)
C07Prepends == << <<>>, <<S, "pre">>, <<"pre">> >>
C07HostOpts == <<"", "dst", "name">>
C07TQs      == << <<>>, <<"t=1">>, <<"t=1", "u=2">> >>
C07HR       == << <<"none", "ok">>, <<"multi", "created">>, <<"odd", "error">>, <<"multi", "ok">> >>   \* header set, upstream answer
C07NRPaths  == << <<S, "other", S, "x">>, <<S>> >>                          \* not under the route's /strip
C07NRStatus == <<404, 503, 999>>
C07NRPages  == <<"", "page">>

\* strip leaving an empty or relative rest together with prepend: the documentation shows strip producing an absolute
\* path ("forward /path/to/file as /to/file") and "prepending is done after stripping", so the rest is made absolute
\* first and the prefix put in front of that (/strip -> /pre/, /stripme/x -> /pre/me/x).  (C07Ambiguous only names
\* these combinations; they are part of the universe.)
C07Ambiguous(p, s, pp) == LET rest == Drop(C07Paths[p], Len(C07Strips[s])) IN
                          /\ C07Prepends[pp] # <<>> /\ C07Strips[s] # <<>> /\ IsPrefix(C07Strips[s], C07Paths[p])
                          /\ (rest = <<>> \/ rest[1] # S)

\* --- never sliced: option values that need escaping; the client may spell the strip prefix either way
C07EncPaths    == << <<S, "s", "%C3%B6", "k", S, "a", "%2F", "b">>,      \* 1 /s%C3%B6k/a%2Fb
                     <<S, "s", "%c3%b6", "k", S, "%41", "x">>,           \* 2 lower-case hex in the prefix
                     <<S, "s", "%C3%B6", "k">>,                          \* 3 strip leaves nothing
                     <<S, "a", "%5E", "b", S, "c", "%2f", "d">>,         \* 4 /a%5Eb/c%2fd
                     <<S, "plain", S, "a", "%2F", "b">>,                 \* 5
                     <<S, "plain", S, "a", S, "b">> >>                   \* 6 nothing escaped by the client
C07EncStrips   == << <<>>, <<S, "s", "U+F6", "k">>, <<S, "a", "^", "b">> >>
C07EncPrepends == << <<>>, <<S, "s", "U+F6", "k">>, <<S, "a", "^", "b">>, <<"U+F6">> >>
C07EncAmbiguous(p, s, pp) == /\ C07EncPrepends[pp] # <<>> /\ C07EncStrips[s] # <<>> /\ IsPrefixDec(C07EncStrips[s], C07EncPaths[p])
                             /\ LET rest == Drop(C07EncPaths[p], Len(C07EncStrips[s])) IN rest = <<>> \/ rest[1] # S
\* --- never sliced: queries with empty parameters (leading, trailing, doubled "&")
C07AmpQueries  == << <<"", "a=1">>, <<"a=1", "">>, <<"a=1", "", "b=2">>, <<"", "">>, <<"", "a=1", "">>,
                     <<"a=1;b=2", "c=3">>, <<"z=9", "x=%zz", "a=1">>, <<"p=100%", "a=1">>, <<"trace=k", "b=2;a=1">> >>   \* semicolons, bad escapes
C07AmpTQs      == << <<>>, <<"t=1">> >>
\* --- never sliced: informational answers before the final one (103 Early Hints, 102 Processing) and
\* requests with Expect: 100-continue; <<header set, upstream answer>>
C07Interim     == << <<"none", "hints-created">>, <<"none", "hints-error">>, <<"multi", "processing-error">>,
                     <<"none", "hints-hints-notfound">>, <<"expect", "created">>, <<"expect", "error">>,
                     <<"expect", "ok">>, <<"expect", "hints-created">> >>

\* --- never sliced: final statuses over the whole range an HTTP status line can carry, with and without access log
C07Statuses == <<"st200", "st299", "st300", "st404", "st499", "st500", "st599", "st600", "st799", "st999">>
\* --- never sliced: upstreams that die before their answer is complete
C07Faults   == <<"cutcl", "cutchunked", "cutchunked0", "rstchunked", "cuthead">>

\* --- never sliced: strip leaving nothing or a relative rest, with and without a prefix put in front
\* --- never sliced: the no-route page as the registry leaves it after a history of operations, and while it changes
C07PageHists == << <<"page">>, <<"page", "">>, <<"page", "page2">>, <<"page", "", "page2">>, <<"page", "page2", "">>,
                   <<"", "page">>, <<"page", "page">>, <<"page2", "", "">> >>
C07Flips     == << <<"page", "page2">>, <<"", "page">>, <<"", "page", "page2">> >>
\* --- never sliced: a request-target that ends in a bare "?" (a query that is present and empty)
\* --- never sliced: proxy.gzip.contenttype set; upstream answers that already carry a content coding other than gzip must
\*     pass unchanged to a client that accepts gzip; answers to a client that does not ask for gzip pass unchanged
C07Gzip     == << <<"none", "ok">>, <<"multi", "created">>, <<"gzipok", "enc-deflate">>, <<"gzipok", "enc-br">>,
                  <<"gzipok", "enc-identity">>, <<"gzipok", "enc-compress">> >>
\* --- never sliced: the instance of the route refuses the connection (body-less requests): an error answer of fabio's
\*     own, and the request goes nowhere else - also when a route without a host matches the path as well
\* --- never sliced: 8 requests that are in fabio at the same moment through ONE route whose target URL carries a
\*     query of its own (or none): different short queries (none, one, two parameters), different paths
C07SimTQs    == << <<"t=1">>, <<"t=1", "u=2">>, <<"x=1", "y=22">>, <<>>, <<"k=v", "long=parameter", "z=3">> >>
C07SimStrips == << <<>>, <<S, "sim">> >>
C07SimReqs   == << [host |-> "a", rhost |-> "plain", path |-> <<S, "sim", S, "x">>, query |-> <<"a=1">>],
                   [host |-> "a", rhost |-> "plain", path |-> <<S, "sim", S, "x">>, query |-> <<"b=2">>],
                   [host |-> "a", rhost |-> "plain", path |-> <<S, "sim", S, "y">>, query |-> <<"c=3">>],
                   [host |-> "a", rhost |-> "plain", path |-> <<S, "sim", S, "a", "%2F", "b">>, query |-> <<"q=x">>],
                   [host |-> "a", rhost |-> "plain", path |-> <<S, "sim", S, "x">>, query |-> <<>>],
                   [host |-> "a", rhost |-> "plain", path |-> <<S, "sim", S, "y">>, query |-> <<"a=1", "b=2">>],
                   [host |-> "a", rhost |-> "plain", path |-> <<S, "sim", S, "x">>, query |-> <<"z=%2F">>],
                   [host |-> "a", rhost |-> "plain", path |-> <<S, "sim", S, "x">>, query |-> <<"d=4">>] >>
C07Outer == {<<"status", m, p>> : m \in {1, 2}, p \in {3}}
            \cup {<<"sim", m, p>> : m \in {1, 4}, p \in {1}}
            \cup {<<"bareq", m, p>> : m \in {1, 2}, p \in {3, 4}}
            \cup {<<"gzip", m, p>> : m \in {1, 2}, p \in {3}}
            \cup {<<"dead", m, p>> : m \in {1, 4}, p \in {1}}
            \cup {<<"pagehist", m, p>> : m \in {1, 2}, p \in {1, 2}}
            \cup {<<"flip", m, p>> : m \in {1, 2}, p \in {1, 2}}
            \cup {<<"rest", m, p>> : m \in {1, 2}, p \in {1, 2, 3, 4, 7}}
            \cup {<<"fault", m, p>> : m \in {1, 2}, p \in {3, 4}}
            \cup {<<"fwd", m, p>> : m \in DOMAIN C07Methods, p \in DOMAIN C07Paths}
            \cup {<<"nr", m, p>> : m \in DOMAIN C07Methods, p \in DOMAIN C07NRPaths}
            \cup {<<"enc", m, p>> : m \in {1, 2}, p \in DOMAIN C07EncPaths}
            \cup {<<"amp", m, p>> : m \in {1, 2}, p \in {3, 4}}
            \cup {<<"interim", m, p>> : m \in {2, 3}, p \in {3, 4}}
C07Inner(o) ==
    IF o[1] = "fwd" THEN
        { [BaseCase EXCEPT !.sub = "fwd", !.method = C07Methods[o[2]], !.path = C07Paths[o[3]], !.query = C07Queries[t[1]],
                           !.tls = ((o[2] + o[3] + t[1] + t[2] + t[3] + t[4] + t[5] + t[6]) % 2 = 0),      \* plain and TLS front, round-robin
                           !.routes = << Ordinary(<<S, "strip">>, C07Strips[t[2]], C07Prepends[t[3]], C07HostOpts[t[4]], C07TQs[t[5]]) >>,
                           !.hdrs = C07HR[t[6]][1], !.resp = C07HR[t[6]][2]] :
          t \in { u \in (DOMAIN C07Queries) \X (DOMAIN C07Strips) \X (DOMAIN C07Prepends) \X (DOMAIN C07HostOpts)
                         \X (DOMAIN C07TQs) \X (DOMAIN C07HR) :
                  /\ Keep(o[2] + 7 * o[3] + 3 * u[1] + 11 * u[2] + 13 * u[3] + 17 * u[4] + 19 * u[5] + 23 * u[6]) } }
    ELSE IF o[1] = "enc" THEN
        { [BaseCase EXCEPT !.sub = "enc", !.method = C07Methods[o[2]], !.path = C07EncPaths[o[3]],
                           !.tls = ((o[2] + o[3] + t[1] + t[2] + t[3]) % 2 = 0), !.query = C07Queries[t[3]],
                           !.routes = << Ordinary(<<S>>, C07EncStrips[t[1]], C07EncPrepends[t[2]], "", <<>>) >>] :
          t \in (DOMAIN C07EncStrips) \X (DOMAIN C07EncPrepends) \X {1, 2} }
    ELSE IF o[1] = "status" THEN
        { [BaseCase EXCEPT !.sub = "status", !.method = C07Methods[o[2]], !.path = C07Paths[o[3]], !.tls = (t[2] = 2),
                           !.resp = C07Statuses[t[1]], !.accesslog = (t[3] = 2),
                           !.routes = << Ordinary(<<S, "strip">>, <<>>, <<>>, "", <<>>) >>] :
          t \in (DOMAIN C07Statuses) \X {1, 2} \X {1, 2} }
    ELSE IF o[1] = "sim" THEN
        { [BaseCase EXCEPT !.sub = "sim", !.method = C07Methods[o[2]], !.tls = (t[3] = 2),
                           !.hist = C07SimReqs, !.together = TRUE,
                           !.path = C07SimReqs[8].path, !.query = C07SimReqs[8].query, !.hostlabel = C07SimReqs[8].host,
                           !.routes = << Ordinary(<<S, "sim">>, C07SimStrips[t[2]], <<>>, "", C07SimTQs[t[1]]) >>] :
          t \in (DOMAIN C07SimTQs) \X (DOMAIN C07SimStrips) \X {1, 2} }
    ELSE IF o[1] = "bareq" THEN
        { [BaseCase EXCEPT !.sub = "bareq", !.method = C07Methods[o[2]], !.path = C07Paths[o[3]], !.tls = (t[2] = 2),
                           !.query = <<"">>,
                           !.routes = << Ordinary(<<S, "strip">>, C07Strips[t[1]], C07Prepends[t[3]], "", <<>>) >>] :
          t \in {1, 2} \X {1, 2} \X {1, 2} }
    ELSE IF o[1] = "gzip" THEN
        { [BaseCase EXCEPT !.sub = "gzip", !.method = C07Methods[o[2]], !.path = C07Paths[o[3]], !.tls = (t[2] = 2),
                           !.cfggzip = (t[3] = 1), !.hdrs = C07Gzip[t[1]][1], !.resp = C07Gzip[t[1]][2],
                           !.routes = << Ordinary(<<S, "strip">>, <<>>, <<>>, "", <<>>) >>] :
          t \in (DOMAIN C07Gzip) \X {1, 2} \X {1, 2} }
    ELSE IF o[1] = "dead" THEN
        \* t[3] = 2: a route without a host matches the path too
        { [BaseCase EXCEPT !.sub = "dead", !.method = C07Methods[o[2]], !.path = <<S, "deadpath", S, "x">>, !.tls = (t[2] = 2),
                           !.hdrs = "none",
                           !.routes = LET r1 == [Ordinary(<<S, "deadpath">>, <<>>, <<>>, C07HostOpts[t[1]], <<>>) EXCEPT !.dead = TRUE]
                                          r2 == [Ordinary(<<S, "deadpath">>, <<>>, <<>>, "", <<>>) EXCEPT !.hostform = "none"]
                                      IN IF t[3] = 1 THEN <<r1>> ELSE <<r1, r2>>] :
          t \in (DOMAIN C07HostOpts) \X {1, 2} \X {1, 2} }
    ELSE IF o[1] = "pagehist" THEN
        { [BaseCase EXCEPT !.sub = "pagehist", !.method = C07Methods[o[2]], !.path = C07NRPaths[o[3]], !.tls = (t[2] = 2),
                           !.pagehist = C07PageHists[t[1]], !.nrstatus = C07NRStatus[t[3]],
                           !.routes = IF o[3] = 1 THEN <<>> ELSE << Ordinary(<<S, "strip">>, <<>>, <<>>, "", <<>>) >>] :
          t \in (DOMAIN C07PageHists) \X {1, 2} \X {1, 2} }
    ELSE IF o[1] = "flip" THEN
        { [BaseCase EXCEPT !.sub = "flip", !.method = C07Methods[o[2]], !.path = C07NRPaths[o[3]], !.tls = (t[2] = 2),
                           !.flip = C07Flips[t[1]], !.nrpage = C07Flips[t[1]][1], !.accesslog = (t[3] = 2),
                           !.routes = IF o[3] = 1 THEN <<>> ELSE << Ordinary(<<S, "strip">>, <<>>, <<>>, "", <<>>) >>] :
          t \in (DOMAIN C07Flips) \X {1, 2} \X {1, 2} }
    ELSE IF o[1] = "rest" THEN
        { [BaseCase EXCEPT !.sub = "rest", !.method = C07Methods[o[2]], !.path = C07Paths[o[3]], !.tls = (t[3] = 2),
                           !.routes = << Ordinary(<<S, "strip">>, C07Strips[t[1]], C07Prepends[t[2]], "", <<>>) >>] :
          t \in {2, 4} \X (DOMAIN C07Prepends) \X {1, 2} }
    ELSE IF o[1] = "fault" THEN
        { [BaseCase EXCEPT !.sub = "fault", !.method = C07Methods[o[2]], !.path = C07Paths[o[3]], !.tls = (t[2] = 2),
                           !.resp = C07Faults[t[1]], !.accesslog = (t[3] = 2),
                           !.routes = << Ordinary(<<S, "strip">>, C07Strips[2], <<>>, "", <<>>) >>] :
          t \in (DOMAIN C07Faults) \X {1, 2} \X {1, 2} }
    ELSE IF o[1] = "amp" THEN
        { [BaseCase EXCEPT !.sub = "amp", !.method = C07Methods[o[2]], !.path = C07Paths[o[3]],
                           !.tls = ((o[2] + o[3] + t[1] + t[2] + t[3]) % 2 = 0), !.query = C07AmpQueries[t[1]],
                           !.routes = << Ordinary(<<S, "strip">>, C07Strips[t[3]], <<>>, "", C07AmpTQs[t[2]]) >>] :
          t \in (DOMAIN C07AmpQueries) \X (DOMAIN C07AmpTQs) \X {1, 2} }
    ELSE IF o[1] = "interim" THEN
        { [BaseCase EXCEPT !.sub = "interim", !.method = C07Methods[o[2]], !.path = C07Paths[o[3]],
                           !.tls = ((o[2] + o[3] + t[1] + t[2]) % 2 = 0),
                           !.hdrs = C07Interim[t[1]][1], !.resp = C07Interim[t[1]][2],
                           !.routes = << Ordinary(<<S, "strip">>, C07Strips[t[2]], <<>>, "", <<>>) >>] :
          t \in (DOMAIN C07Interim) \X {1, 2} }
    ELSE
        \* no route: the host has no route at all (n = 1) or only one under /strip (n = 2)
        { [BaseCase EXCEPT !.sub = "noroute", !.method = C07Methods[o[2]], !.path = C07NRPaths[o[3]], !.query = C07Queries[t[1]],
                           !.tls = ((o[2] + o[3] + t[1] + t[2] + t[3] + t[4]) % 2 = 0),
                           !.routes = IF t[4] = 1 THEN <<>> ELSE << Ordinary(<<S, "strip">>, <<>>, <<>>, "", <<>>) >>,
                           !.nrstatus = C07NRStatus[t[2]], !.nrpage = C07NRPages[t[3]], !.hdrs = "multi",
                           !.accesslog = (t[5] = 2)] :
          t \in (DOMAIN C07Queries) \X (DOMAIN C07NRStatus) \X (DOMAIN C07NRPages) \X {1, 2} \X {1, 2} }

-----------------------------------------------------------------------------
\* C08: forwarding headers.  Outer: which managed headers the client forges (a subset, by bit mask) and how
\* (once / twice / once with an oddly-cased name).  Inner: connection, websocket or not, configuration, host option.
C08Names  == <<"clientip", "xff", "xrealip", "tlshdr", "xfproto", "forwarded", "xfport", "xfhost">>
Pow2(k)   == IF k = 0 THEN 1 ELSE IF k = 1 THEN 2 ELSE IF k = 2 THEN 4 ELSE IF k = 3 THEN 8 ELSE IF k = 4 THEN 16
             ELSE IF k = 5 THEN 32 ELSE IF k = 6 THEN 64 ELSE 128
Bit(n, k) == (n \div Pow2(k - 1)) % 2 = 1
C08Styles == <<"once", "twice", "odd", "truefirst", "truelast">>
C08Forged(n, st) == [h \in {C08Names[k] : k \in DOMAIN C08Names} |->
                        LET k == CHOOSE j \in DOMAIN C08Names : C08Names[j] = h IN
                        IF Bit(n, k) THEN C08Styles[st] ELSE "absent"]
C08Kinds  == <<"http", "ws", "Ws">>                 \* no Upgrade / Upgrade: websocket / Upgrade: Websocket
C08Cfgs   == << <<TRUE, TRUE, TRUE>>, <<FALSE, FALSE, FALSE>>, <<TRUE, FALSE, FALSE>>, <<FALSE, TRUE, TRUE>> >>   \* clientip, tls header, sts
C08HostOpts == <<"", "dst", "name">>
C08RHosts == <<"plain", "ported">>
\* --- never sliced: the peer's own address in the client's X-Forwarded-For, IPv4 and IPv6 peers, configured header
\* names in the spelling people use.  Outer n >= 1000: <<1000 + xff style, others forged?>>
C08XffStyles == <<"absent", "once", "twice", "sfx", "pfx", "dup", "truefirst", "empty1", "blank2", "emptymix">>
C08OtherStyles == <<"absent", "once", "truefirst", "truelast">>
C08PeerCfgs  == << <<TRUE, TRUE, TRUE, "canon">>, <<TRUE, TRUE, TRUE, "odd">>, <<FALSE, FALSE, FALSE, "canon">> >>
\* --- never sliced: several requests over ONE keep-alive connection to one of fabio's own listeners, asking for
\* different hosts (with and without a port) in every position.  Outer <<2000 + first request, second request>>
C08ConnReqs == << [host |-> "a", rhost |-> "plain", path |-> <<S, "h", S, "x">>, query |-> <<>>],
                  [host |-> "b", rhost |-> "plain", path |-> <<S, "h", S, "x">>, query |-> <<>>],
                  [host |-> "a", rhost |-> "ported", path |-> <<S, "h", S, "x">>, query |-> <<>>],
                  [host |-> "b", rhost |-> "ported", path |-> <<S, "h", S, "x">>, query |-> <<>>] >>
C08ConnInner(o) ==
    { LET h == IF t[1] = 1 THEN <<C08ConnReqs[o[1] - 2000], C08ConnReqs[o[2]]>>
               ELSE <<C08ConnReqs[o[1] - 2000], C08ConnReqs[o[2]], C08ConnReqs[o[1] - 2000]>>
          own == h[Len(h)] IN
      [BaseCase EXCEPT !.sub = "conn", !.tls = (t[2] = 2), !.path = own.path, !.hist = h,
                       !.rhost = own.rhost, !.hostlabel = own.host,
                       !.routes = << [Ordinary(<<S>>, <<>>, <<>>, C08HostOpts[t[3]], <<>>) EXCEPT !.ghost = TRUE] >>] :
      t \in {1, 2} \X {1, 2} \X {1, 2} }
\* --- never sliced: the upstream fails (refuses the connection, hangs up before any answer, does not answer in time):
\*     the answer fabio makes up is an answer on the client's connection like any other (Strict-Transport-Security)
C08Fails == <<"refused", "cuthead", "timeout">>
C08FailInner(o) ==
    { [BaseCase EXCEPT !.sub = "fail", !.tls = (t[1] = 2), !.path = <<S, "h", S, "x">>,
                       !.cfgip = C08Cfgs[t[2]][1], !.cfgtls = C08Cfgs[t[2]][2], !.cfgsts = C08Cfgs[t[2]][3],
                       !.resp = IF C08Fails[o[2]] = "refused" THEN "ok" ELSE C08Fails[o[2]],
                       !.routes = << [Ordinary(<<S>>, <<>>, <<>>, C08HostOpts[t[3]], <<>>) EXCEPT !.dead = (C08Fails[o[2]] = "refused")] >>] :
      t \in {1, 2} \X (DOMAIN C08Cfgs) \X {1, 2} }
C08Outer  == {<<3000, f>> : f \in DOMAIN C08Fails} \cup {<<2000 + x, y>> : x \in DOMAIN C08ConnReqs, y \in DOMAIN C08ConnReqs} \cup ({<<n, st>> : n \in 0..255, st \in DOMAIN C08Styles} \ {<<0, st>> : st \in 2..5})
             \cup {<<1000 + x, y>> : x \in DOMAIN C08XffStyles, y \in DOMAIN C08OtherStyles}
C08PeerInner(o) ==
    { [BaseCase EXCEPT !.sub = "peer", !.tls = (t[1] = 2), !.kind = C08Kinds[t[2]], !.path = <<S, "h", S, "x">>,
                       !.forged = [h \in DOMAIN AllAbsent |-> IF h = "xff" THEN C08XffStyles[o[1] - 1000]
                                                              ELSE C08OtherStyles[o[2]]],
                       !.xfpval = IF t[1] = 2 THEN "http" ELSE "https",
                       !.cfgip = C08PeerCfgs[t[3]][1], !.cfgtls = C08PeerCfgs[t[3]][2], !.cfgsts = C08PeerCfgs[t[3]][3],
                       !.cfgspell = C08PeerCfgs[t[3]][4],
                       !.peer = IF t[4] = 1 THEN "v4" ELSE "v6",
                       !.routes = << Ordinary(<<S>>, <<>>, <<>>, "", <<>>) >>] :
      t \in {1, 2} \X (DOMAIN C08Kinds) \X (DOMAIN C08PeerCfgs) \X {1, 2} }
C08Inner(o) == IF o[1] >= 3000 THEN C08FailInner(o) ELSE IF o[1] >= 2000 THEN C08ConnInner(o) ELSE IF o[1] >= 1000 THEN C08PeerInner(o) ELSE
    { [BaseCase EXCEPT !.sub = "hdr", !.tls = (t[1] = 2), !.kind = C08Kinds[t[2]], !.path = <<S, "h", S, "x">>,
                       !.forged = C08Forged(o[1], o[2]),
                       !.xfpval = IF t[1] = 2 THEN "http" ELSE "https",       \* a forged X-Forwarded-Proto lies
                       !.cfgip = C08Cfgs[t[3]][1], !.cfgtls = C08Cfgs[t[3]][2], !.cfgsts = C08Cfgs[t[3]][3],
                       !.routes = << Ordinary(<<S>>, <<>>, <<>>, C08HostOpts[t[4]], <<>>) >>,
                       !.rhost = C08RHosts[t[5]]] :
      t \in { u \in {1, 2} \X (DOMAIN C08Kinds) \X (DOMAIN C08Cfgs) \X (DOMAIN C08HostOpts) \X (DOMAIN C08RHosts) :
              Keep(o[1] + 5 * o[2] + 3 * u[1] + 7 * u[2] + 11 * u[3] + 13 * u[4] + 17 * u[5]) } }

-----------------------------------------------------------------------------
\* C13: redirect routes
C13Tpls == << Tpl("https", "t.example", <<S>>, FALSE, FALSE, <<>>),                 \*  1 https://t.example/
              Tpl("https", "t.example", <<S, "a", S, "b">>, FALSE, FALSE, <<"foo=bar">>),   \*  2 https://t.example/a/b?foo=bar
              Tpl("https", "t.example", <<>>, TRUE, TRUE, <<>>),                    \*  3 https://t.example/$path
              Tpl("https", "t.example", <<>>, TRUE, FALSE, <<>>),                   \*  4 https://t.example$path
              Tpl("https", "t.example", <<S, "new">>, TRUE, FALSE, <<>>),           \*  5 https://t.example/new$path
              Tpl("https", "t.example", <<S, "new">>, TRUE, TRUE, <<>>),            \*  6 https://t.example/new/$path
              Tpl("https", "$host", <<>>, TRUE, FALSE, <<>>),                       \*  7 https://$host$path
              Tpl("https", "$host", <<>>, TRUE, TRUE, <<>>),                        \*  8 https://$host/$path
              Tpl("https", "$host", <<S>>, FALSE, FALSE, <<>>),                     \*  9 https://$host/
              Tpl("https", "t.example", <<>>, TRUE, FALSE, <<"q=1">>),              \* 10 https://t.example$path?q=1
              Tpl("https", "$host", <<>>, TRUE, TRUE, <<"q=1">>),                   \* 11 https://$host/$path?q=1
              Tpl("http", "$host", <<S, "new">>, TRUE, FALSE, <<>>) >>              \* 12 http://$host/new$path
C13Codes   == << Code("301", 301), Code("302", 302), Code("307", 307), Code("308", 308), Code("300", 300), Code("399", 399) >>
C13Strips  == << <<>>, <<S, "strip">> >>
C13Prepends == << <<>>, <<S, "pre">> >>
C13Paths   == << <<S>>, <<S, "a", S, "b">>, <<S, "a", "%2F", "b">>, <<S, "a", "%20", "b", S>>,
                 <<S, "caf", "%C3%A9">>, <<S, "%41", "x">>, <<S, "a", "%2f", "b", S, "c">>,
                 <<>> >>                                                            \* 8: only below a strip prefix (/strip)
C13Queries == << <<>>, <<"a=1">>, <<"a=1", "b=%2F">>, <<"h=$host", "p=$path">> >>
C13RHosts  == <<"plain", "ported">>
\* an empty $path is only asked where the join is unambiguous
C13Skip(tp, s, pp, p) == /\ C13Paths[p] = <<>>
                         /\ (C13Strips[s] = <<>> \/ C13Prepends[pp] # <<>> \/ (C13Tpls[tp].slash /\ C13Tpls[tp].pre # <<>>))
\* redirect= values that are not a 3xx code: the route is an ordinary route to its target
C13BadCodes == << Code("200", 200), Code("299", 299), Code("400", 400), Code("abc", 0 - 1), Code("3xx", 0 - 1) >>
\* self-redirect layouts: the route names the request's own host, literally or as $host
C13SelfTpls == << Tpl("https", "self", <<>>, TRUE, FALSE, <<>>),                    \* https://<own host>$path
                  Tpl("http", "self", <<>>, TRUE, FALSE, <<>>),                     \* http://<own host>$path
                  Tpl("https", "$host", <<>>, TRUE, TRUE, <<>>),                    \* https://$host/$path
                  Tpl("http", "$host", <<>>, TRUE, FALSE, <<>>),                    \* http://$host$path
                  Tpl("https", "self", <<S, "x">>, FALSE, FALSE, <<>>),             \* https://<own host>/x
                  Tpl("http", "self", <<S, "x">>, FALSE, FALSE, <<>>) >>            \* http://<own host>/x
C13SelfConn == << <<FALSE, "">>, <<FALSE, "http">>, <<FALSE, "https">>, <<TRUE, "">>, <<TRUE, "https">> >>   \* TLS?, X-Forwarded-Proto sent
C13SelfPaths == << <<S, "x">>, <<S, "y">>, <<S>> >>

\* --- never sliced: what kind of request it is does not matter to a redirect route: other methods (HEAD, POST
\* with a body), websocket upgrades, requests for an event stream.  Targets that name the instrumented upstream
\* make a request that is proxied instead of redirected visible there.
C13KindTpls == << Tpl("http", "upstream", <<S>>, FALSE, FALSE, <<>>),               \* http://<upstream>/
                  Tpl("http", "upstream", <<S, "new">>, TRUE, TRUE, <<>>),          \* http://<upstream>/new/$path
                  Tpl("https", "$host", <<>>, TRUE, FALSE, <<>>),                   \* https://$host$path
                  Tpl("https", "t.example", <<>>, TRUE, FALSE, <<>>) >>             \* https://t.example$path
C13Kinds    == << <<"GET", "http">>, <<"HEAD", "http">>, <<"POST", "http">>, <<"GET", "ws">>, <<"GET", "Ws">>,
                  <<"GET", "sse">>, <<"POST", "sse">> >>                            \* method, kind (sse: Accept: text/event-stream)
C13KindCodes == << Code("301", 301), Code("308", 308) >>
C13KindPaths == << <<S, "a", S, "b">>, <<S, "a", "%2F", "b">>, <<S, "$host", S, "$path">> >>     \* the last: placeholders as plain text
\* --- never sliced: strip / prepend values that need escaping (see C07), the client spelling the prefix either way
C13EncTpls     == << Tpl("https", "t.example", <<>>, TRUE, TRUE, <<>>),             \* https://t.example/$path
                     Tpl("https", "t.example", <<>>, TRUE, FALSE, <<>>),            \* https://t.example$path
                     Tpl("https", "$host", <<S, "new">>, TRUE, FALSE, <<>>) >>      \* https://$host/new$path
C13EncStrips   == << <<>>, <<S, "s", "U+F6", "k">>, <<S, "a", "^", "b">> >>
C13EncPrepends == << <<>>, <<S, "s", "U+F6", "k">>, <<S, "a", "^", "b">> >>
C13EncPaths    == << <<S, "s", "%C3%B6", "k", S, "a", "%2F", "b">>,
                     <<S, "s", "%c3%b6", "k", S, "%41", "x">>,
                     <<S, "a", "%5E", "b", S, "c", "%2f", "d">>,
                     <<S, "plain", S, "a", "%2F", "b">>,
                     <<S, "plain", S, "a", S, "b">> >>

\* --- never sliced: histories of 2 and 3 requests through one redirect route whose host pattern matches several hosts;
\* the requests differ in host, path and query in every position
C13HistTpls == << Tpl("https", "$host", <<S, "new">>, TRUE, FALSE, <<>>),          \* https://$host/new$path
                  Tpl("http", "$host", <<S, "new">>, TRUE, TRUE, <<"q=1">>),       \* http://$host/new/$path?q=1
                  Tpl("https", "$host", <<S>>, FALSE, FALSE, <<>>),                \* https://$host/
                  Tpl("https", "t.example", <<>>, TRUE, FALSE, <<>>) >>            \* https://t.example$path
C13HistReqs == << [host |-> "a", rhost |-> "plain", path |-> <<S, "hist", S, "x">>, query |-> <<>>],
                  [host |-> "b", rhost |-> "plain", path |-> <<S, "hist", S, "x">>, query |-> <<>>],
                  [host |-> "a", rhost |-> "plain", path |-> <<S, "hist", S, "y">>, query |-> <<>>],
                  [host |-> "b", rhost |-> "plain", path |-> <<S, "hist", S, "y">>, query |-> <<>>],
                  [host |-> "a", rhost |-> "plain", path |-> <<S, "hist", S, "x">>, query |-> <<"a=1">>],
                  [host |-> "b", rhost |-> "plain", path |-> <<S, "hist", S, "x">>, query |-> <<"a=1">>],
                  [host |-> "a", rhost |-> "plain", path |-> <<S, "hist", S, "a", "%2F", "b">>, query |-> <<>>],
                  [host |-> "b", rhost |-> "plain", path |-> <<S, "hist", S, "a", "%2F", "b">>, query |-> <<"a=1">>] >>

\* --- never sliced: the first requests a proxy ever serves arrive simultaneously (8 at once, one redirect route)
C13BurstCodes == << Code("301", 301), Code("302", 302), Code("307", 307), Code("308", 308) >>
\* --- never sliced: glob.matching.disabled on and off; a redirect on host:80 that points back at the request is passed
\*     over in favour of the route on the same host written without the port (the documented http -> https layout)
C13NoGlobTpls == << Tpl("http", "self", <<>>, TRUE, FALSE, <<>>),                   \* http://<own host>$path
                    Tpl("http", "self", <<S, "x">>, FALSE, FALSE, <<>>),            \* http://<own host>/x
                    Tpl("https", "self", <<>>, TRUE, FALSE, <<>>) >>                \* https://<own host>$path (does not point back)
\* --- never sliced: the redirect that points back at the request sits on a route WITHOUT a host - the last candidate
\*     there is: nothing is left, the request has no route
C13LastTpls == << Tpl("http", "$host", <<>>, TRUE, FALSE, <<>>),                    \* http://$host$path
                  Tpl("https", "$host", <<>>, TRUE, TRUE, <<>>),                    \* https://$host/$path
                  Tpl("https", "t.example", <<>>, TRUE, FALSE, <<>>) >>             \* https://t.example$path (never points back)
C13LastSrc == <<"selflast1", "selflast2", "selflast3">>      \* routes without a host must differ in their path
C13Outer == {<<"selflast", tp, 1, 1, 1>> : tp \in DOMAIN C13LastTpls}
            \cup {<<"noglob", g, tp, 1, 1>> : g \in {1, 2}, tp \in DOMAIN C13NoGlobTpls}
            \cup {<<"burst", tp, cd, 1, 1>> : tp \in DOMAIN C13HistTpls, cd \in DOMAIN C13BurstCodes}
            \cup {<<"history", tp, r1, r2, 1>> : tp \in DOMAIN C13HistTpls, r1 \in DOMAIN C13HistReqs, r2 \in DOMAIN C13HistReqs}
            \cup {<<"kinds", tp, cd, kd, 1>> : tp \in DOMAIN C13KindTpls, cd \in DOMAIN C13KindCodes, kd \in DOMAIN C13Kinds}
            \cup {<<"encopt", tp, s, pp, 1>> : tp \in DOMAIN C13EncTpls, s \in DOMAIN C13EncStrips, pp \in DOMAIN C13EncPrepends}
            \cup {<<"redir", tp, cd, s, pp>> : tp \in DOMAIN C13Tpls, cd \in DOMAIN C13Codes, s \in DOMAIN C13Strips, pp \in DOMAIN C13Prepends}
            \cup {<<"badcode", cd, s, 1, 1>> : cd \in DOMAIN C13BadCodes, s \in DOMAIN C13Strips}
            \cup {<<"self", tp, cn, 1, 1>> : tp \in DOMAIN C13SelfTpls, cn \in DOMAIN C13SelfConn}
C13Inner(o) ==
    CASE o[1] = "redir" ->
        { [BaseCase EXCEPT !.sub = "redir", !.tls = (t[4] = 2), !.rhost = C13RHosts[t[3]], !.query = C13Queries[t[2]],
                           !.path = C13Strips[o[4]] \o C13Paths[t[1]],
                           !.routes = << [Ordinary(IF C13Strips[o[4]] = <<>> THEN <<S>> ELSE C13Strips[o[4]],
                                                   C13Strips[o[4]], C13Prepends[o[5]], "", <<>>)
                                          EXCEPT !.code = C13Codes[o[3]], !.tpl = C13Tpls[o[2]]] >>] :
          t \in { u \in (DOMAIN C13Paths) \X (DOMAIN C13Queries) \X (DOMAIN C13RHosts) \X {1, 2} :
                  /\ ~C13Skip(o[2], o[4], o[5], u[1])
                  /\ Keep(o[2] + 5 * o[3] + 7 * o[4] + 11 * o[5] + 3 * u[1] + 13 * u[2] + 17 * u[3] + 19 * u[4]) } }
      [] o[1] = "selflast" ->
        { [BaseCase EXCEPT !.sub = "selflast", !.tls = (t[3] = 2), !.query = C13Queries[t[2]],
                           !.path = <<S, C13LastSrc[o[2]]>> \o C13SelfPaths[t[1]],
                           !.routes = << [Ordinary(<<S, C13LastSrc[o[2]]>>, <<>>, <<>>, "", <<>>) EXCEPT !.code = Code("301", 301),
                                                   !.tpl = C13LastTpls[o[2]], !.hostform = "none"] >>] :
          t \in (DOMAIN C13SelfPaths) \X {1, 2} \X {1, 2} }
      [] o[1] = "noglob" ->
        { [BaseCase EXCEPT !.sub = "noglob", !.noglob = (o[2] = 2), !.path = C13SelfPaths[t[1]], !.query = C13Queries[t[2]],
                           !.routes = LET r == [Ordinary(<<S>>, <<>>, <<>>, "", <<>>) EXCEPT !.code = Code("301", 301),
                                                         !.tpl = C13NoGlobTpls[o[3]], !.hostform = "port80"]
                                      IN IF t[3] = 1 THEN <<r>> ELSE <<r, Ordinary(<<S>>, <<>>, <<>>, "", <<>>)>>] :
          t \in (DOMAIN C13SelfPaths) \X {1, 2} \X {1, 2} }
      [] o[1] = "burst" ->
        { [BaseCase EXCEPT !.sub = "burst", !.tls = (t = 2), !.hist = C13HistReqs, !.together = TRUE,
                           !.path = C13HistReqs[8].path, !.query = C13HistReqs[8].query, !.hostlabel = C13HistReqs[8].host,
                           !.routes = << [Ordinary(<<S, "hist">>, <<>>, <<>>, "", <<>>)
                                          EXCEPT !.code = C13BurstCodes[o[3]], !.tpl = C13HistTpls[o[2]], !.ghost = TRUE] >>] :
          t \in {1, 2} }
      [] o[1] = "history" ->
        \* t[1] = 1: the two requests; t[1] = 2: the first one once more at the end
        { LET h == IF t[1] = 1 THEN <<C13HistReqs[o[3]], C13HistReqs[o[4]]>>
                   ELSE <<C13HistReqs[o[3]], C13HistReqs[o[4]], C13HistReqs[o[3]]>>
              own == h[Len(h)] IN
          [BaseCase EXCEPT !.sub = "history", !.tls = (t[2] = 2), !.hist = h,
                           !.path = own.path, !.query = own.query, !.hostlabel = own.host,
                           !.routes = << [Ordinary(<<S, "hist">>, <<>>, <<>>, "", <<>>)
                                          EXCEPT !.code = Code("301", 301), !.tpl = C13HistTpls[o[2]], !.ghost = TRUE] >>] :
          t \in {1, 2} \X {1, 2} }
      [] o[1] = "kinds" ->
        { [BaseCase EXCEPT !.sub = "kinds", !.method = C13Kinds[o[4]][1], !.kind = C13Kinds[o[4]][2],
                           !.noglob = ((o[2] + o[3] + o[4] + t[1] + t[2] + t[3]) % 2 = 0),
                           !.tls = (t[3] = 2), !.query = C13Queries[t[2]], !.path = C13KindPaths[t[1]],
                           !.routes = << [Ordinary(<<S>>, <<>>, <<>>, "", <<>>)
                                          EXCEPT !.code = C13KindCodes[o[3]], !.tpl = C13KindTpls[o[2]]] >>] :
          t \in (DOMAIN C13KindPaths) \X {1, 2, 4} \X {1, 2} }
      [] o[1] = "encopt" ->
        { [BaseCase EXCEPT !.sub = "encopt", !.tls = (t[3] = 2), !.query = C13Queries[t[2]], !.path = C13EncPaths[t[1]],
                           !.routes = << [Ordinary(<<S>>, C13EncStrips[o[3]], C13EncPrepends[o[4]], "", <<>>)
                                          EXCEPT !.code = Code("301", 301), !.tpl = C13EncTpls[o[2]]] >>] :
          t \in (DOMAIN C13EncPaths) \X {1, 2} \X {1, 2} }
      [] o[1] = "badcode" ->
        { [BaseCase EXCEPT !.sub = "badcode", !.tls = (t[3] = 2), !.query = C13Queries[t[2]],
                           !.path = C13Strips[o[3]] \o C13Paths[t[1]],
                           !.routes = << [Ordinary(IF C13Strips[o[3]] = <<>> THEN <<S>> ELSE C13Strips[o[3]],
                                                   C13Strips[o[3]], <<>>, "", <<>>)
                                          EXCEPT !.code = C13BadCodes[o[2]],
                                                 !.tpl = Tpl("http", "upstream", <<S>>, FALSE, FALSE, <<>>)] >>] :
          t \in { u \in (DOMAIN C13Paths) \X (DOMAIN C13Queries) \X {1, 2} : C13Paths[u[1]] # <<>> } }
      [] o[1] = "self" ->
        \* n = 1: no other host matches; n = 2: a less specific host with an ordinary route matches too
        { [BaseCase EXCEPT !.sub = "self", !.tls = C13SelfConn[o[3]][1], !.path = C13SelfPaths[t[1]], !.query = C13Queries[t[2]],
                           !.forged = [AllAbsent EXCEPT !.xfproto = IF C13SelfConn[o[3]][2] = "" THEN "absent" ELSE "once"],
                           !.xfpval = C13SelfConn[o[3]][2],
                           !.routes = LET r == [Ordinary(<<S>>, <<>>, <<>>, "", <<>>) EXCEPT !.code = Code("301", 301), !.tpl = C13SelfTpls[o[2]]]
                                      IN IF t[3] = 1 THEN <<r>> ELSE <<r, Ordinary(<<S>>, <<>>, <<>>, "", <<>>)>>] :
          t \in (DOMAIN C13SelfPaths) \X {1, 2} \X {1, 2} }

-----------------------------------------------------------------------------
MCOuter == CASE Prop = "C07" -> C07Outer [] Prop = "C08" -> C08Outer [] Prop = "C13" -> C13Outer
MCInner(o) == CASE Prop = "C07" -> C07Inner(o) [] Prop = "C08" -> C08Inner(o) [] Prop = "C13" -> C13Inner(o)

\* model-only universe: access rules refusing the request (the Deny action; replayed by C12, not here)
DenyOuter == {1, 2}
DenyInner(o) == { [BaseCase EXCEPT !.sub = "deny", !.routes = << [Ordinary(<<S>>, <<>>, <<>>, "", <<>>) EXCEPT !.admitted = (o = 1)] >>] }

\* one JSON line per finished case
\* (a case whose page changes while it is answered has several final states: the one that has seen every page
\* and is back at the first one is printed)
Gen == (pc = "done" /\ (c.flip # <<>> => (env.page = c.flip[1] /\ env.seen = {c.flip[k] : k \in DOMAIN c.flip})))
       => PrintT(ToJson([c |-> c, up |-> up, hits |-> hits, out |-> out,
                         answers |-> IF c.hist = <<>> \/ out.kind # "redirect" THEN <<>> ELSE HistAnswers(route),
                         conn |-> IF c.hist = <<>> \/ out.kind # "upstream" THEN <<>> ELSE ConnAnswers,
                         each |-> IF c.hist = <<>> \/ ~c.together \/ out.kind # "upstream" THEN <<>> ELSE TogetherUps(route)]))
=============================================================================
