------------------------------ MODULE Sessions ------------------------------
(***************************************************************************)
(* Histories of several connections through ONE tcp+sni proxy instance     *)
(* (properties C09 and C10).  Every statement of the two properties is     *)
(* about one connection; the design therefore keeps nothing between        *)
(* connections: whatever was tunnelled before, and whatever is being       *)
(* tunnelled next to it, a connection                                      *)
(*   - is routed by the server name in ITS OWN ClientHello (C10),          *)
(*   - has ITS OWN ClientHello and stream delivered to that upstream (C09),*)
(*   - is routed as soon as its ClientHello is complete: nothing behind    *)
(*     the first record is waited for (C10), and comes to an end.          *)
(*                                                                         *)
(* A session is a schedule of client actions of up to three connections:   *)
(* Open, W1 (the head of the hello: record + handshake header, enough to   *)
(* know its size), W2 (the rest, which contains the server name), Data,    *)
(* Fin.  Hellos come in two sizes (S: 2 tokens, L: 3 tokens).  The proxy   *)
(* side per connection: Start (size known, buffer obtained), Read, Route   *)
(* (+ replay of the hello), Forward, End.                                  *)
(*                                                                         *)
(* Named defect classes (deviations) - state that survives a connection:   *)
(*   PoolStaleLen   - hello buffers are recycled; a recycled buffer keeps  *)
(*                    the length of the larger hello it held before        *)
(*   PoolDoublePut  - a buffer is handed back twice (after the replay and  *)
(*                    when the connection ends): two later connections     *)
(*                    fill the same buffer                                 *)
(***************************************************************************)
EXTENDS Integers, Sequences, FiniteSets

CONSTANTS N,               \* connections 1..N
          Shapes,          \* set of size assignments: sequences over {"S", "L"} of length N
          PoolStaleLen, PoolDoublePut,
          Quiesce          \* TRUE: a client acts only when the proxy has nothing left to do (the schedules the
                           \* harness can enforce: it waits for the observable effect of every action)

VARIABLES shape,           \* the sizes of this session
          cpc,             \* client: next action of each connection: "open","w1","w2","data","fin","end"
          inq,             \* bytes (tokens) the client has sent and the proxy has not read, per connection
          ppc,             \* proxy per connection: "idle","read","route","fwd","done","dropped"
          buf, fill, need, \* buffer id, tokens filled, tokens wanted, per connection
          bufs,            \* buffer id -> content (sequence of tokens)
          pool,            \* bag of free buffer ids as a sequence; caps: id -> capacity
          caps, nextBuf,
          routed,          \* name the connection was routed by (0: not yet)
          up,              \* upstream stream per connection (what the upstream it was routed to got from it)
          fin,             \* the client's end of stream has been passed on
          sched            \* the client actions so far: the session's history
vars == <<shape, cpc, inq, ppc, buf, fill, need, bufs, pool, caps, nextBuf, routed, up, fin, sched>>

C == 1..N
Tok(i, k) == i * 10 + k                    \* token k of connection i; the server name lives in token 2
HelloLen(i) == IF shape[i] = "L" THEN 3 ELSE 2
Hello(i) == [k \in 1..HelloLen(i) |-> Tok(i, k)]
DataTok(i) == Tok(i, 9)
NameOf(t) == t \div 10                      \* the connection whose name a token-2 carries

Init == /\ shape \in Shapes
        /\ cpc = [i \in C |-> "open"] /\ inq = [i \in C |-> <<>>]
        /\ ppc = [i \in C |-> "idle"] /\ buf = [i \in C |-> 0] /\ fill = [i \in C |-> 0] /\ need = [i \in C |-> 0]
        /\ bufs = <<>> /\ pool = <<>> /\ caps = <<>> /\ nextBuf = 1
        /\ routed = [i \in C |-> 0] /\ up = [i \in C |-> <<>>] /\ fin = [i \in C |-> FALSE]
        /\ sched = <<>>

Active == { i \in C : cpc[i] \notin {"open", "end"} }
\* connections are opened in order, at most two at a time
PrevOpened(i) == IF i = 1 THEN TRUE ELSE cpc[i - 1] # "open"
CanOpen(i) == /\ cpc[i] = "open" /\ PrevOpened(i) /\ Cardinality(Active) < 2

\* what the proxy can do next
CanStart(i) == ppc[i] = "idle" /\ inq[i] # <<>> /\ inq[i][1] # 0
CanRead(i) == ppc[i] = "read" /\ fill[i] < need[i] /\ inq[i] # <<>>
CanRoute(i) == ppc[i] = "read" /\ fill[i] = need[i]
CanForward(i) == ppc[i] = "fwd" /\ inq[i] # <<>>
ProxyBusy == \E i \in C : CanStart(i) \/ CanRead(i) \/ CanRoute(i) \/ CanForward(i)

Client(i, act, nextpc, sent) ==
    /\ cpc[i] = act
    /\ (Quiesce => ~ProxyBusy)
    /\ cpc' = [cpc EXCEPT ![i] = nextpc]
    /\ inq' = [inq EXCEPT ![i] = @ \o sent]
    /\ sched' = Append(sched, <<i, act>>)
    /\ UNCHANGED <<shape, ppc, buf, fill, need, bufs, pool, caps, nextBuf, routed, up, fin>>

Open(i) == CanOpen(i) /\ Client(i, "open", "w1", <<>>)
W1(i)   == Client(i, "w1", "w2", <<Tok(i, 1)>>)
W2(i)   == Client(i, "w2", "data", SubSeq(Hello(i), 2, HelloLen(i)))
Data(i) == Client(i, "data", "fin", <<DataTok(i)>>)
\* the client half-closes and then waits for the end of its connection
Fin(i)  == Client(i, "fin", "end", <<0>>)

-----------------------------------------------------------------------------
\* proxy.  Start: the head of the hello is there, the size is known, a buffer is obtained.
Fresh(i, n) == /\ buf' = [buf EXCEPT ![i] = nextBuf] /\ nextBuf' = nextBuf + 1
               /\ bufs' = [b \in DOMAIN bufs \cup {nextBuf} |-> IF b = nextBuf THEN [k \in 1..n |-> 0] ELSE bufs[b]]
               /\ caps' = [b \in DOMAIN caps \cup {nextBuf} |-> IF b = nextBuf THEN n ELSE caps[b]]
               /\ need' = [need EXCEPT ![i] = n]
               /\ pool' = pool
Pooled == PoolStaleLen \/ PoolDoublePut
Start(i) == /\ ppc[i] = "idle" /\ inq[i] # <<>> /\ inq[i][1] # 0
            /\ LET n == HelloLen(i) IN
               IF Pooled /\ pool # <<>> /\ caps[pool[1]] >= n
               THEN /\ buf' = [buf EXCEPT ![i] = pool[1]] /\ pool' = Tail(pool)
                    \* the defect: the recycled buffer is used with the length it had
                    /\ need' = [need EXCEPT ![i] = IF PoolStaleLen THEN caps[pool[1]] ELSE n]
                    /\ UNCHANGED <<bufs, caps, nextBuf>>
               ELSE Fresh(i, n)
            /\ ppc' = [ppc EXCEPT ![i] = "read"] /\ fill' = [fill EXCEPT ![i] = 0]
            /\ UNCHANGED <<shape, cpc, inq, routed, up, fin, sched>>

\* ReadFull: the next token goes into the connection's buffer
Read(i) == /\ ppc[i] = "read" /\ fill[i] < need[i] /\ inq[i] # <<>> /\ inq[i][1] # 0
           /\ bufs' = [bufs EXCEPT ![buf[i]][fill[i] + 1] = inq[i][1]]
           /\ fill' = [fill EXCEPT ![i] = @ + 1]
           /\ inq' = [inq EXCEPT ![i] = Tail(@)]
           /\ UNCHANGED <<shape, cpc, ppc, buf, need, pool, caps, nextBuf, routed, up, fin, sched>>

\* the client ended before the buffer was full: the connection is dropped
ReadEOF(i) == /\ ppc[i] = "read" /\ fill[i] < need[i] /\ inq[i] # <<>> /\ inq[i][1] = 0
              /\ ppc' = [ppc EXCEPT ![i] = "dropped"]
              /\ UNCHANGED <<shape, cpc, inq, buf, fill, need, bufs, pool, caps, nextBuf, routed, up, fin, sched>>

\* the buffer is full: parse, route by the name found in it, replay it; a buffer that holds more than
\* the hello does not parse (the connection is dropped)
Content(i) == SubSeq(bufs[buf[i]], 1, need[i])
Put(b) == Append(pool, b)
Route(i) == /\ ppc[i] = "read" /\ fill[i] = need[i]
            /\ IF need[i] # HelloLen(i)
               THEN /\ ppc' = [ppc EXCEPT ![i] = "dropped"] /\ UNCHANGED <<routed, up, pool>>
               ELSE /\ routed' = [routed EXCEPT ![i] = NameOf(Content(i)[2])]
                    /\ up' = [up EXCEPT ![i] = Content(i)]
                    /\ ppc' = [ppc EXCEPT ![i] = "fwd"]
                    /\ pool' = IF Pooled THEN Put(buf[i]) ELSE pool
            /\ UNCHANGED <<shape, cpc, inq, buf, fill, need, bufs, caps, nextBuf, fin, sched>>

Forward(i) == /\ ppc[i] = "fwd" /\ inq[i] # <<>>
              /\ IF inq[i][1] = 0
                 THEN /\ fin' = [fin EXCEPT ![i] = TRUE] /\ ppc' = [ppc EXCEPT ![i] = "done"] /\ up' = up
                      /\ pool' = IF PoolDoublePut THEN Put(buf[i]) ELSE pool      \* the defect: handed back once more
                 ELSE /\ up' = [up EXCEPT ![i] = Append(@, inq[i][1])] /\ UNCHANGED <<fin, ppc, pool>>
              /\ inq' = [inq EXCEPT ![i] = Tail(@)]
              /\ UNCHANGED <<shape, cpc, buf, fill, need, bufs, caps, nextBuf, routed, sched>>

Over(i) == cpc[i] = "end" /\ ppc[i] \in {"done", "dropped"}
AllOver == \A i \in C : Over(i)
Next == \/ \E i \in C : Open(i) \/ W1(i) \/ W2(i) \/ Data(i) \/ Fin(i)
        \/ \E i \in C : Start(i) \/ Read(i) \/ ReadEOF(i) \/ Route(i) \/ Forward(i)
        \/ (AllOver /\ UNCHANGED vars)
Spec == Init /\ [][Next]_vars

-----------------------------------------------------------------------------
\* C10: the name used for routing is the one in the connection's own hello
RoutedByOwnName == \A i \in C : routed[i] \in {0, i}
\* C09: the upstream gets this connection's own hello and stream, in order
OwnStream == \A i \in C : LET exp == Hello(i) \o <<DataTok(i)>> IN
                          Len(up[i]) <= Len(exp) /\ SubSeq(exp, 1, Len(up[i])) = up[i]
\* C10: routing waits for nothing behind the hello;  C09: everything is delivered; every connection ends
RoutedWhenComplete == \A i \in C : (ppc[i] = "read" /\ fill[i] >= HelloLen(i)) => need[i] = HelloLen(i)
Delivered == AllOver => \A i \in C : ppc[i] = "done" /\ up[i] = Hello(i) \o <<DataTok(i)>> /\ fin[i]
=============================================================================
