---------------------------- MODULE ControlPlane_Trace ----------------------------
(* Validation of an execution recorded from the real consul backend + real update loop   *)
(* (harness/main, harness/x/consul.go) against ControlPlane: every logged event must be   *)
(* the corresponding action of the specification; rendez-vous and non-installing loop     *)
(* iterations are not observable and are silent steps.                                    *)
EXTENDS ControlPlane_MC, IOUtils
VARIABLE l

TraceLog == ndJsonDeserialize(IOEnv.VERIF_TRACE)
ToSet(q) == {q[i] : i \in DOMAIN q}
AbsSvc(n) == IF n = "svc-a" THEN "A" ELSE IF n = "svc-b" THEN "B" ELSE IF n = "svc-c" THEN "C" ELSE n

TInit == TLCSet(1, 0) /\ Init /\ l = 1
Ev(e) == l <= Len(TraceLog) /\ TraceLog[l].ev = e /\ l' = l + 1
E == TraceLog[l]

TReg     == /\ Ev("Reg") /\ RegChange
            /\ inst' = [i \in Inst |-> E.inst[i]] /\ node' = [n \in Node |-> E.node[n]]
            /\ kv' = E.kv /\ hidx' = E.hidx /\ kidx' = E.kidx
THReq    == Ev("HReq") /\ WsIssue /\ wsLast = E.idx
THResp   == Ev("HResp") /\ WsHealth /\ wsLast' = E.idx
TCResp   == Ev("CResp") /\ WsCatalog(AbsSvc(E.svc))
TCFail   == Ev("CFail") /\ WsCatalogFail(AbsSvc(E.svc))
TKReq    == Ev("KReq") /\ WkIssue /\ wkLast = E.idx
TKResp   == Ev("KResp") /\ WkAnswer /\ wkLast' = E.idx /\ wkVal' = E.val
TInstall == Ev("Install") /\ BeInstall /\ active' = ToSet(E.table)
Silent   == l' = l /\ (BeRecvSvc \/ BeRecvMan \/ BeSame \/ BeReject)

TNext == TReg \/ THReq \/ THResp \/ TCResp \/ TCFail \/ TKReq \/ TKResp \/ TInstall \/ Silent
TSpec == TInit /\ [][TNext]_<<vars, l>>

HW == TLCSet(1, IF TLCGet(1) < l THEN l ELSE TLCGet(1))
Accepted == TLCGet(1) = Len(TraceLog) + 1
=============================================================================
