--------------------------- MODULE AccessMulti_MC ---------------------------
(* Generator for AccessMulti: one JSON line per (route with two targets, instance states,     *)
(* request) with the outcomes the specification permits.                                      *)
EXTENDS AccessMulti, Access_MC

MCaseJson(c1, c2, u, q) ==
    [t1 |-> [allow |-> c1.allow, deny |-> c1.deny], t2 |-> [allow |-> c2.allow, deny |-> c2.deny],
     up1 |-> u[1], up2 |-> u[2],
     proto |-> q.proto, peer |-> q.peer, xff |-> q.xff,
     may1 |-> MayAdmit(c1, q), must1 |-> MustAdmit(c1, q), may2 |-> MayAdmit(c2, q), must2 |-> MustAdmit(c2, q),
     outcomes |-> MOutcomes(c1, c2, u, q)]

MGenReq(q) == /\ MChooseReq(q)
              /\ PrintT(ToJson(MCaseJson(rules, rules2, up, q)))
MGenNext == \/ (phase = "rules" /\ \E c1, c2 \in Configs, u \in UpStates : MChooseRoute(c1, c2, u))
            \/ (phase = "req" /\ \E q \in Reqs : MGenReq(q))
MGenSpec == MInit /\ [][MGenNext]_mvars
=============================================================================
