---------------------------- MODULE WeightsRR_MC ----------------------------
(* Three small rings (50/50, 25/75, three targets) and the generator of interleavings: every  *)
(* lookup schedule of up to PatLen steps is printed once; the harness repeats it cyclically   *)
(* over real tables whose routes share a path on different hosts or are ':port' routes.       *)
EXTENDS WeightsRR, Json, TLC

CONSTANT PatLen

\* 2147483000 is close to the largest integer TLC represents (2^31 - 1)
MCStarts == {0, 1, 2147483000}
MCRings == << <<1, 2>>, <<2, 1, 2, 2>>, <<1, 2, 1, 3>> >>

\* cursors differ only in where a cycle starts: schedules are printed for one initial state
GenLookupOn(r) ==
    /\ LookupOn(r)
    /\ (Len(sched') <= PatLen /\ \A x \in Routes : cur[x] = Len(seen[x])) =>
           PrintT(ToJson([sched |-> sched', routes |-> Len(Rings)]))
GenNext == \E r \in Routes : GenLookupOn(r)
GenSpec == Init /\ [][GenNext]_vars
=============================================================================
