---------------------------- MODULE RouteHostile_MC ----------------------------
(***************************************************************************)
(* Property C02, "no route configuration text can crash the process": the  *)
(* command grammar over hostile token classes.  The specification leaves   *)
(* the outcome of such a text open between Accepted and Rejected - there   *)
(* is no crash outcome - and requires of an accepted table that lookups    *)
(* and rendering work.  TLC enumerates the scripts; tokens starting with   *)
(* "@" are expanded by the harness (64 KiB strings, 400-digit numbers).    *)
(***************************************************************************)
EXTENDS Integers, Sequences, FiniteSets, Json, TLC
CONSTANT MaxExtra   \* number of further `route add` commands with hostile weights on the same route

Svcs    == {"svc", "@long"}
Srcs    == {"", "/", "h.com/", "/[", "/{a,b", "/**", "h.com/\\", ":80", "@long", "/%zz", "*.h.com/x", "[::1]/", "h.com", "[/", "*.[h.com/x", "{a,b.com/"}
Dsts    == {"", "http://h:80/", "%zz", "://", "http://[::1", ":", "tcp://:1", "@long", "http://h/$path", "http://h:99999/", "/new", "h:8080"}
Weights == {"", "0.5", "Inf", "-Inf", "+Inf", "NaN", "1e-320", "5e-324", "1e308", "1.7976931348623157e308", "1e400", "-0", "-1",
            "@digits400", "0x1p-2", "1_0", "1e-400", "infinity"}
Tagss   == {"", "a", ",", "@long", "a,,b"}
Optss   == {"", "strip=/x", "redirect=abc", "redirect=999", "redirect=301", "allow=ip:999.1.1.1/33", "=", "host=",
            "tlsskipverify=true proto=https host=h", "auth=none", "@long",
            "allow=ip:10.0.0.0/8 deny=ip:10.1.0.0/16", "deny=ip:bogus allow=ip:10.0.0.0/8"}

VARIABLES script, phase
vars == <<script, phase>>
Init == script = <<>> /\ phase = "first"
Cmd(op, s, src, d, w, t, o) == [op |-> op, svc |-> s, src |-> src, dst |-> d, w |-> w, tags |-> t, opts |-> o]
\* the first command varies every token (two classes at a time are hostile, the rest plain)
First == /\ phase = "first" /\ phase' = "more"
         /\ \/ \E s \in Svcs, src \in Srcs, d \in Dsts : script' = <<Cmd("add", s, src, d, "", "", "")>>
            \/ \E src \in Srcs, w \in Weights, o \in Optss : script' = <<Cmd("add", "svc", src, "http://h:80/", w, "", o)>>
            \/ \E d \in Dsts, w \in Weights, t \in Tagss : script' = <<Cmd("add", "svc", "/", d, w, t, "")>>
            \/ \E d \in Dsts, o \in Optss, t \in Tagss : script' = <<Cmd("add", "svc", "/", d, "", t, o)>>
            \/ \E s \in Svcs, src \in Srcs, d \in Dsts, t \in Tagss : script' = <<Cmd("del", s, src, d, "", t, "")>>
            \/ \E s \in Svcs \cup {""}, src \in Srcs, w \in Weights, t \in Tagss : script' = <<Cmd("weight", s, src, "", w, t, "")>>
\* further commands on route "/": adds with hostile weights (the weight normalisation sees them together)
\* and a weight command
More  == /\ phase = "more" /\ Len(script) <= MaxExtra /\ script[1].op = "add" /\ script[1].src = "/"
         /\ script[1].dst = "http://h:80/" /\ script[1].opts = ""
         /\ \/ \E w \in Weights : script' = Append(script, Cmd("add", "svc", "/", "http://h2:80/", w, "", ""))
            \/ \E w \in Weights : script' = Append(script, Cmd("weight", "svc", "/", "", w, "", ""))
         /\ UNCHANGED phase
Emit  == phase = "more" /\ phase' = "done" /\ UNCHANGED script /\ PrintT(ToJson([script |-> script]))
Next == First \/ More \/ Emit
Spec == Init /\ [][Next]_vars
Outcomes == {"accepted", "rejected"}     \* what the harness may observe; "crash" is not among them
=============================================================================
