---------------------------- MODULE Tracing_MC ----------------------------
(* Bounded universes for Tracing (X08).                                      *)
EXTENDS Tracing

V(c, p) == IF c = "-" THEN "-" ELSE IF c \in {"0", "1"} THEN c ELSE p \o c
MkInc(t, s, p, m, f, r) == [tid |-> t, sid |-> s, pid |-> p, smp |-> m, flg |-> f, rid |-> r,
                            tidv |-> V(t, "T"), sidv |-> V(s, "S"), pidv |-> V(p, "P"),
                            smpv |-> V(m, "M"), flgv |-> V(f, "F"), ridv |-> V(r, "R")]
\* every combination of header classes: 4 x 3 x 3 x 4 x 4 x 2 = 1152 incoming header sets
FullInc == {MkInc(t, s, p, m, f, r) : t \in {"-", "w64", "w128", "bad"}, s \in {"-", "ok", "bad"}, p \in {"-", "ok", "bad"},
                                      m \in {"-", "0", "1", "bad"}, f \in {"-", "0", "1", "bad"}, r \in {"-", "given"}}
\* one of each kind for the interleavings
SlimInc == {MkInc("-", "-", "-", "-", "-", "-"), MkInc("w64", "ok", "-", "1", "-", "given"), MkInc("w128", "ok", "ok", "-", "-", "-"),
            MkInc("w64", "ok", "-", "0", "1", "-"), MkInc("bad", "ok", "ok", "1", "-", "-"), MkInc("-", "-", "-", "1", "-", "-"),
            MkInc("-", "-", "ok", "-", "-", "-")}
TinyInc == {MkInc("-", "-", "-", "-", "-", "-"), MkInc("w64", "ok", "-", "1", "-", "given")}

B == BOOLEAN
AllCfgs == {[on |-> TRUE, rate |-> r, b128 |-> b, rid |-> d] : r \in {"zero", "one", "half"}, b \in B, d \in B}
           \cup {[on |-> FALSE, rate |-> "zero", b128 |-> FALSE, rid |-> d] : d \in B}
SlimCfgs == {[on |-> TRUE, rate |-> "half", b128 |-> TRUE, rid |-> TRUE], [on |-> TRUE, rate |-> "one", b128 |-> FALSE, rid |-> FALSE],
             [on |-> FALSE, rate |-> "zero", b128 |-> FALSE, rid |-> TRUE]}
DevCfgs == {[on |-> TRUE, rate |-> r, b128 |-> TRUE, rid |-> FALSE] : r \in {"zero", "one"}}
OneCfg == {[on |-> TRUE, rate |-> "one", b128 |-> TRUE, rid |-> TRUE]}
AllRoutes == {"fwd", "noroute", "redirect", "denied"}
TwoRoutes == {"fwd", "noroute"}
FwdOnly == {"fwd"}

Ids3 == {"i1", "i2", "i3"}
Ids7 == {"i1", "i2", "i3", "i4", "i5", "i6", "i7"}
\* ids are interchangeable: with an atomic generator one candidate is as good as any
DetCand(S) == IF S = {} THEN {} ELSE {CHOOSE x \in S : TRUE}
=============================================================================
