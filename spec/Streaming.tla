------------------------------ MODULE Streaming ------------------------------
(* One proxied HTTP exchange as a pipeline of chunks (growth X06).                          *)
(*                                                                                          *)
(*   upstream --uwire--> [ proxy: pbuf, phdr ] --cwire--> client                            *)
(*                                                                                          *)
(* The upstream answers a request with a header and then chunks c1..cn with pauses; it may  *)
(* never end, or fail at any point (refuse the connection, close or reset before the        *)
(* header, close in the middle of the header, stay silent longer than the response header   *)
(* timeout, close or reset in the middle of the body).  The client reads and may go away    *)
(* at any point.  Between them sits fabio's response buffer with its flush rule             *)
(* (docs/content/feature/sse.md, ref/proxy.flushinterval.md, ref/proxy.globalflushinterval, *)
(* fabio.properties): the interval f applies to exchanges whose Accept header is            *)
(* text/event-stream, the interval g to all others; a positive interval flushes             *)
(* periodically, 0 disables flushing (data leaves when the buffer fills or the response     *)
(* ends), a negative one flushes after every write (net/http/httputil, to which the value   *)
(* is handed).                                                                              *)
(*                                                                                          *)
(* Data are UNITS <<k, j>> (part j of chunk k); markers share that shape:                   *)
(*   <<-1, s>> header with status s    <<-2, 0>> a header that breaks off in the middle     *)
(*   <<0, 0>> clean end                <<0, 1>> abort (connection ends / stream is reset    *)
(*   <<0, 2>> premature close           before the announced end)      <<0, 3>> reset       *)
(*                                                                                          *)
(* Time is abstract: "the flush interval has passed", "the response header timeout has      *)
(* passed" are actions; the flush rule is a FAIRNESS condition (PFlushDue), not a guard -   *)
(* flushing earlier than required is always allowed.  The causal reading of "an event is    *)
(* not held back until the next one" is Delivered: with NO fairness on the upstream, every  *)
(* unit written reaches the client.                                                         *)
EXTENDS Integers, Sequences, FiniteSets

CONSTANTS
    Scenarios,      \* set of scenario records (see ScOK)
    Parts(_),       \* number of units of a chunk of size class s
    UnitW(_, _),    \* weight (bytes) of part j of a chunk of size class s
    BufCap,         \* capacity of the response buffer in bytes (flush when full)
    LockStep,       \* TRUE: the upstream writes chunk k+1 only after the client has chunk k (when flushing applies)
    MaxUnits,       \* upper bound of the number of units of one response (quantifier range of Delivered)
    MaxConns,       \* connections the transport may hold to one target, 0 = unlimited (fabio: unlimited)
    \* ---- designs that must be rejected / named deviations of the code from the documentation
    SwapIntervals,  \* TRUE: g is used for SSE exchanges and f for the others
    ForgeEnd,       \* TRUE: an upstream failure in the body is passed on as a clean end
    HoldHeader,     \* TRUE: the header is flushed together with the first body data only
    KeepUpstream,   \* TRUE: the upstream connection is not released when the client goes away
    PartialHdrStatus \* status answered when the upstream closes in the middle of its header (documented reading: 502)

VARIABLES
    sc,      \* the scenario (constant during a behaviour)
    ust,     \* upstream: "idle" | "req" | "slow" | "hdr" | "end" | "cut" | "rst" | "dead" (failed before a header)
    sent,    \* units the upstream has written (body)
    uhdr,    \* the upstream has written a complete header
    uwire,   \* upstream -> proxy, in flight
    ureq,    \* requests the upstream received
    uconn,   \* "none" | "open" | "byproxy" (the upstream saw the proxy close it) | "byup"
    pst,     \* proxy handler: "idle" | "start" (request accepted, not forwarded yet) | "wait" | "copy" | "done" | "aborted" | "answered" | "canceled"
    phdr,    \* 0 | status held in the response buffer (not flushed)
    pbuf,    \* units in the response buffer
    cwire,   \* proxy -> client, in flight
    chdr,    \* status the client has read, 0 = none
    rcvd,    \* units the client has read
    cend,    \* "open" | "complete" | "aborted"
    cgone,   \* the client went away
    ost      \* the other request to the same target: "none" | "started" | "done"

vars == <<sc, ust, sent, uhdr, uwire, ureq, uconn, pst, phdr, pbuf, cwire, chdr, rcvd, cend, cgone, ost>>

\* ---------------------------------------------------------------- vocabulary
Intervals == {"zero", "pos", "neg"}
Framings  == {"cl", "chunked", "eof"}
HdrM(s)   == <<-1, s>>
PartialM  == <<-2, 0>>
EndM      == <<0, 0>>
AbortM    == <<0, 1>>
CutM      == <<0, 2>>
RstM      == <<0, 3>>
IsUnit(x) == x[1] >= 1

\* sc.f / sc.g: the configured intervals; sc.sse: Accept is text/event-stream; sc.fr: how the upstream frames
\* its body; sc.sz: size classes of the chunks the upstream intends to write (announced by Content-Length when
\* fr = "cl"); sc.refuse: nobody listens at the target; sc.rht: a response header timeout is configured
ScOK(s) == /\ s.f \in Intervals /\ s.g \in Intervals /\ s.sse \in BOOLEAN /\ s.fr \in Framings
           /\ s.refuse \in BOOLEAN /\ s.rht \in BOOLEAN /\ Len(s.sz) \in 0..3 /\ s.ct \in {"es", "other"}

N == Len(sc.sz)
UnitsOf(k) == [j \in 1..Parts(sc.sz[k]) |-> <<k, j>>]
W(u) == UnitW(sc.sz[u[1]], u[2])
RECURSIVE Weight(_)
Weight(q) == IF q = <<>> THEN 0 ELSE W(Head(q)) + Weight(Tail(q))
RECURSIVE AllUnits(_)
AllUnits(k) == IF k = 0 THEN <<>> ELSE AllUnits(k - 1) \o UnitsOf(k)
Chunks(q) == IF q = <<>> THEN 0 ELSE q[Len(q)][1]           \* chunks written = chunk number of the last unit
IsPrefix(a, b) == Len(a) <= Len(b) /\ SubSeq(b, 1, Len(a)) = a
Units(q) == SelectSeq(q, IsUnit)

\* the interval in force for this exchange - THE documented selection rule
Eff == IF SwapIntervals THEN (IF sc.sse THEN sc.g ELSE sc.f) ELSE (IF sc.sse THEN sc.f ELSE sc.g)
DocEff == IF sc.sse THEN sc.f ELSE sc.g
Flushing == DocEff # "zero"

\* ---------------------------------------------------------------- initial state
Init == /\ sc \in Scenarios
        /\ ust = "idle" /\ sent = <<>> /\ uhdr = FALSE /\ uwire = <<>> /\ ureq = 0 /\ uconn = "none"
        /\ pst = "idle" /\ phdr = 0 /\ pbuf = <<>> /\ cwire = <<>> /\ chdr = 0 /\ rcvd = <<>> /\ cend = "open"
        /\ cgone = FALSE /\ ost = "none"

\* ---------------------------------------------------------------- client
\* CReq: the request is on its way (the handler starts)
CReq == /\ pst = "idle" /\ ~cgone /\ ureq = 0 /\ cend = "open" /\ chdr = 0 /\ cwire = <<>>
        /\ pst' = "start"
        /\ UNCHANGED <<sc, ust, sent, uhdr, uwire, ureq, uconn, phdr, pbuf, cwire, chdr, rcvd, cend, cgone, ost>>

CRead == /\ cwire # <<>> /\ ~cgone /\ cend = "open"
         /\ LET x == Head(cwire) IN
            /\ cwire' = Tail(cwire)
            /\ chdr' = IF x[1] = -1 THEN x[2] ELSE chdr
            /\ rcvd' = IF IsUnit(x) THEN Append(rcvd, x) ELSE rcvd
            /\ cend' = IF x = EndM THEN "complete" ELSE IF x = AbortM THEN "aborted" ELSE cend
         /\ UNCHANGED <<sc, ust, sent, uhdr, uwire, ureq, uconn, pst, phdr, pbuf, cgone, ost>>

\* the client goes away: what is in flight to it is lost
\* (a departure that races with the forwarding of the request is not modelled)
CClose == /\ ~cgone /\ cend = "open" /\ pst \notin {"idle", "start"}
          /\ cgone' = TRUE /\ cwire' = <<>>
          /\ UNCHANGED <<sc, ust, sent, uhdr, uwire, ureq, uconn, pst, phdr, pbuf, chdr, rcvd, cend, ost>>

\* ---------------------------------------------------------------- proxy
Answer(s) == /\ pst' = "answered" /\ phdr' = 0 /\ pbuf' = <<>>
             /\ cwire' = IF cgone THEN <<>> ELSE cwire \o <<HdrM(s), EndM>>

\* the request is forwarded: dial + write; a refused connection is answered with 502
PDial == /\ pst = "start"
         /\ IF sc.refuse
            THEN Answer(502) /\ UNCHANGED <<ureq, uconn, ust>>
            ELSE /\ pst' = "wait" /\ ureq' = ureq + 1 /\ uconn' = "open" /\ ust' = "req"
                 /\ UNCHANGED <<phdr, pbuf, cwire>>
         /\ UNCHANGED <<sc, sent, uhdr, uwire, chdr, rcvd, cend, cgone, ost>>

\* the proxy takes the next item the upstream sent
PRead == /\ pst \in {"wait", "copy"} /\ uwire # <<>>
         /\ LET x == Head(uwire) IN
            /\ uwire' = Tail(uwire)
            /\ CASE pst = "wait" /\ x[1] = -1 ->            \* complete header
                      /\ pst' = "copy" /\ phdr' = x[2] /\ UNCHANGED <<pbuf, cwire, uconn>>
                 [] pst = "wait" /\ x = PartialM ->          \* header broke off
                      /\ Answer(PartialHdrStatus) /\ uconn' = "byup"
                 [] pst = "wait" /\ x \in {CutM, RstM} ->    \* closed / reset before any header
                      /\ Answer(502) /\ uconn' = "byup"
                 [] pst = "copy" /\ IsUnit(x) ->
                      /\ pbuf' = Append(pbuf, x) /\ UNCHANGED <<pst, phdr, cwire, uconn>>
                 [] pst = "copy" /\ x = EndM ->              \* clean end: everything is handed over, then the end
                      /\ pst' = "done" /\ phdr' = 0 /\ pbuf' = <<>>
                      /\ cwire' = IF cgone THEN <<>>
                                  ELSE cwire \o (IF phdr # 0 THEN <<HdrM(phdr)>> ELSE <<>>) \o pbuf \o <<EndM>>
                      /\ uconn' = IF sc.fr = "eof" THEN "byup" ELSE uconn
                 [] pst = "copy" /\ x \in {CutM, RstM} ->    \* failure in the body: abort, never a clean end
                      /\ pst' = "aborted" /\ phdr' = 0 /\ pbuf' = <<>>
                      /\ \E keep \in {0, Len(pbuf)}, hk \in BOOLEAN :   \* what was buffered (header, data) may or may not still go out
                           cwire' = IF cgone THEN <<>>
                                    ELSE cwire \o (IF phdr # 0 /\ (keep > 0 \/ hk \/ ForgeEnd) THEN <<HdrM(phdr)>> ELSE <<>>)
                                               \o SubSeq(pbuf, 1, keep)
                                               \o <<IF ForgeEnd THEN EndM ELSE AbortM>>
                      /\ uconn' = "byup"
                 [] OTHER -> FALSE
         /\ UNCHANGED <<sc, ust, sent, uhdr, ureq, chdr, rcvd, cend, cgone, ost>>

\* flush: the header (if still held) and a prefix of the buffer leave for the client.  Always ALLOWED.
CanFlush == pst = "copy" /\ ~cgone /\ (phdr # 0 \/ pbuf # <<>>) /\ (HoldHeader => pbuf # <<>>)
PFlushN(n) == /\ CanFlush /\ n \in 0..Len(pbuf) /\ (n > 0 \/ phdr # 0)
              /\ cwire' = cwire \o (IF phdr # 0 THEN <<HdrM(phdr)>> ELSE <<>>) \o SubSeq(pbuf, 1, n)
              /\ pbuf' = SubSeq(pbuf, n + 1, Len(pbuf)) /\ phdr' = 0
              /\ UNCHANGED <<sc, ust, sent, uhdr, uwire, ureq, uconn, pst, chdr, rcvd, cend, cgone, ost>>
PFlush == \E n \in 0..Len(pbuf) : PFlushN(n)
\* ... and REQUIRED (fairness) when the rule in force says so: an interval that is not zero, or a full buffer
PFlushDue == /\ (Eff # "zero" \/ Weight(pbuf) >= BufCap)
             /\ PFlushN(Len(pbuf))

\* the response header timeout passes while the upstream is silent
PTimeout == /\ pst = "wait" /\ sc.rht /\ uwire = <<>> /\ ust = "slow"
            /\ Answer(504) /\ uconn' = "byproxy"
            /\ UNCHANGED <<sc, ust, sent, uhdr, uwire, ureq, chdr, rcvd, cend, cgone, ost>>

\* the client has gone: the exchange is abandoned and the upstream connection released
PCancel == /\ cgone /\ pst \in {"start", "wait", "copy"} /\ ~KeepUpstream
           /\ pst' = "canceled" /\ phdr' = 0 /\ pbuf' = <<>> /\ uwire' = <<>>
           /\ uconn' = IF uconn = "open" THEN "byproxy" ELSE uconn
           /\ UNCHANGED <<sc, ust, sent, uhdr, ureq, cwire, chdr, rcvd, cend, cgone, ost>>

\* ---------------------------------------------------------------- upstream
UpLive == uconn = "open"
UpHdr == /\ ust = "req" /\ UpLive
         /\ uhdr' = TRUE
         /\ IF sc.fr = "cl" /\ N = 0
            THEN ust' = "end" /\ uwire' = uwire \o <<HdrM(200), EndM>>
            ELSE ust' = "hdr" /\ uwire' = Append(uwire, HdrM(200))
         /\ UNCHANGED <<sc, sent, ureq, uconn, pst, phdr, pbuf, cwire, chdr, rcvd, cend, cgone, ost>>

\* the upstream decides to stay silent for longer than any header timeout
UpSlow == /\ ust = "req" /\ UpLive /\ ust' = "slow"
          /\ UNCHANGED <<sc, sent, uhdr, uwire, ureq, uconn, pst, phdr, pbuf, cwire, chdr, rcvd, cend, cgone, ost>>

\* failures before a complete header: "close", "rst", "partial"
UpFailEarly(kind) ==
    /\ ust = "req" /\ UpLive /\ ust' = "dead"
    /\ uwire' = Append(uwire, CASE kind = "close" -> CutM [] kind = "rst" -> RstM [] OTHER -> PartialM)
    /\ UNCHANGED <<sc, sent, uhdr, ureq, uconn, pst, phdr, pbuf, cwire, chdr, rcvd, cend, cgone, ost>>

\* in lock step the next chunk is written only when the client has everything written so far
InStep == LockStep /\ Flushing /\ ~cgone => chdr # 0 /\ rcvd = sent
UpWrite == /\ ust = "hdr" /\ UpLive /\ Chunks(sent) < N /\ InStep
           /\ LET k == Chunks(sent) + 1
                  last == sc.fr = "cl" /\ k = N IN
              /\ sent' = sent \o UnitsOf(k)
              /\ uwire' = uwire \o UnitsOf(k) \o (IF last THEN <<EndM>> ELSE <<>>)
              /\ ust' = IF last THEN "end" ELSE ust
           /\ UNCHANGED <<sc, uhdr, ureq, uconn, pst, phdr, pbuf, cwire, chdr, rcvd, cend, cgone, ost>>

\* the clean end of a chunked (last-chunk marker) or close-delimited (close) body
UpEnd == /\ ust = "hdr" /\ UpLive /\ sc.fr # "cl" /\ Chunks(sent) = N /\ InStep
         /\ ust' = "end" /\ uwire' = Append(uwire, EndM)
         /\ UNCHANGED <<sc, sent, uhdr, ureq, uconn, pst, phdr, pbuf, cwire, chdr, rcvd, cend, cgone, ost>>

\* failure in the body.  A close is a failure only when an end was announced (Content-Length, chunked);
\* a reset may destroy what is still in flight
UpCut == /\ ust = "hdr" /\ UpLive /\ sc.fr # "eof" /\ InStep
         /\ ust' = "cut" /\ uwire' = Append(uwire, CutM)
         /\ UNCHANGED <<sc, sent, uhdr, ureq, uconn, pst, phdr, pbuf, cwire, chdr, rcvd, cend, cgone, ost>>
UpRst == /\ ust = "hdr" /\ UpLive /\ InStep
         /\ ust' = "rst"
         /\ \E n \in 0..Len(uwire) : uwire' = Append(SubSeq(uwire, 1, n), RstM)
         /\ UNCHANGED <<sc, sent, uhdr, ureq, uconn, pst, phdr, pbuf, cwire, chdr, rcvd, cend, cgone, ost>>

\* ---------------------------------------------------------------- another request to the same target
ConnsInUse == IF uconn = "open" /\ pst \in {"wait", "copy"} THEN 1 ELSE 0
OStart == /\ ost = "none" /\ pst # "idle" /\ ~sc.refuse /\ ost' = "started"
          /\ UNCHANGED <<sc, ust, sent, uhdr, uwire, ureq, uconn, pst, phdr, pbuf, cwire, chdr, rcvd, cend, cgone>>
ODone  == /\ ost = "started" /\ (MaxConns = 0 \/ ConnsInUse < MaxConns) /\ ost' = "done"
          /\ UNCHANGED <<sc, ust, sent, uhdr, uwire, ureq, uconn, pst, phdr, pbuf, cwire, chdr, rcvd, cend, cgone>>

\* ---------------------------------------------------------------- specification
UpFailEarlyAny == \E kind \in {"close", "rst", "partial"} : UpFailEarly(kind)
ProxyStep == PDial \/ PRead \/ PFlush \/ PTimeout \/ PCancel
ClientStep == CReq \/ CRead \/ CClose
UpStep == UpHdr \/ UpSlow \/ UpFailEarlyAny \/ UpWrite \/ UpEnd \/ UpCut \/ UpRst
Next == ProxyStep \/ ClientStep \/ UpStep \/ OStart \/ ODone

\* fairness: the proxy acts, the client reads while it is there, the other request proceeds.
\* NO fairness on the upstream and none on CClose: the obligations below hold without their help.
Fair == /\ WF_vars(PDial) /\ WF_vars(PRead) /\ WF_vars(PFlushDue) /\ WF_vars(PTimeout) /\ WF_vars(PCancel)
        /\ WF_vars(CRead) /\ WF_vars(ODone)
Spec == Init /\ [][Next]_vars /\ Fair

\* ---------------------------------------------------------------- properties
PStates == {"idle", "start", "wait", "copy", "done", "aborted", "answered", "canceled"}
TypeOK == /\ ScOK(sc)
          /\ ust \in {"idle", "req", "slow", "hdr", "end", "cut", "rst", "dead"}
          /\ pst \in PStates /\ cend \in {"open", "complete", "aborted"}
          /\ uconn \in {"none", "open", "byproxy", "byup"} /\ ost \in {"none", "started", "done"}
          /\ cgone \in BOOLEAN /\ uhdr \in BOOLEAN /\ ureq \in 0..1
          /\ chdr \in {0, 200, 500, 502, 504} /\ phdr \in {0, 200} /\ PartialHdrStatus \in {500, 502}

\* (order / integrity) what the client has is a prefix of what the upstream wrote - in order, nothing twice,
\* nothing invented; and so is everything on its way
Integrity == /\ IsPrefix(rcvd, sent)
             /\ (~cgone => IsPrefix(rcvd \o Units(cwire) \o pbuf \o Units(uwire), sent))
             /\ (ust \notin {"rst"} /\ pst \in {"wait", "copy"} /\ ~cgone => rcvd \o Units(cwire) \o pbuf \o Units(uwire) = sent)

\* the header comes first, and a 200 is the upstream's
HeaderFirst == /\ (rcvd # <<>> => chdr = 200)
               /\ (chdr = 200 => uhdr)
               /\ (cend # "open" /\ chdr = 0 => cend = "aborted")

\* (failure mapping) an answer of the proxy's own says what happened
Mapping == /\ (chdr = 502 => sc.refuse \/ ust = "dead" \/ ust = "rst")   \* "rst": a reset may destroy a header in flight
           /\ (chdr = 504 => ~uhdr /\ sc.rht)
           /\ (chdr \in {500, 502, 504} => rcvd = <<>>)
           /\ (chdr = 500 => FALSE)
\* ... as built: the one deviation is a header that breaks off (PartialHdrStatus)
MappingAsBuilt == /\ (chdr = 502 => sc.refuse \/ ust = "dead" \/ ust = "rst")   \* "rst": a reset may destroy a header in flight
                  /\ (chdr = 504 => ~uhdr /\ sc.rht)
                  /\ (chdr \in {500, 502, 504} => rcvd = <<>>)
                  /\ (chdr = 500 => PartialHdrStatus = 500 /\ ust = "dead")

\* a response the client takes for complete IS complete: the upstream ended it and every byte arrived
NeverForged == cend = "complete" /\ chdr = 200 => ust = "end" /\ rcvd = sent /\ (sc.fr = "cl" => rcvd = AllUnits(N))

\* the client has gone: nothing is sent upstream afterwards
NoLateRequest == [][cgone => ureq' = ureq]_vars

\* what the client is OWED once everything that must happen has happened (the proxy's fair actions are
\* disabled): with flushing in force everything written; without, everything but less than one buffer
Calm == ~ENABLED PDial /\ ~ENABLED PRead /\ ~ENABLED PFlushDue /\ ~ENABLED PTimeout /\ ~ENABLED PCancel /\ ~ENABLED CRead
\* the same without ENABLED (cheap to evaluate; CalmIsCalmS is checked by TLC)
CalmS == /\ pst # "start"
         /\ ~(pst \in {"wait", "copy"} /\ uwire # <<>>)
         /\ ~((Eff # "zero" \/ Weight(pbuf) >= BufCap) /\ CanFlush)
         /\ ~(pst = "wait" /\ sc.rht /\ uwire = <<>> /\ ust = "slow")
         /\ ~(cgone /\ pst \in {"start", "wait", "copy"} /\ ~KeepUpstream)
         /\ ~(cwire # <<>> /\ ~cgone /\ cend = "open")
CalmIsCalmS == Calm = CalmS
Alive == ~cgone /\ pst \in {"copy", "done"} /\ ust \in {"hdr", "end"}
OwedBytes == IF Flushing \/ ust = "end" THEN Weight(sent)
             ELSE IF Weight(sent) - (BufCap - 1) > 0 THEN Weight(sent) - (BufCap - 1) ELSE 0
OwedHdr == uhdr /\ (Flushing \/ ust = "end" \/ OwedBytes > 0)
CalmDelivered == CalmS /\ Alive => /\ Weight(rcvd) >= OwedBytes
                                  /\ (OwedHdr => chdr = 200)
                                  /\ (ust = "end" => cend = "complete")

\* (delivery) every unit the upstream has written reaches the client - the upstream need not write more
Settled == cgone \/ pst \in {"aborted", "answered", "canceled"} \/ ust \in {"cut", "rst", "dead"}
Delivered == \A i \in 1..MaxUnits : [](Len(sent) >= i /\ (Flushing \/ ust = "end") ~> (Len(rcvd) >= i \/ Settled))
HeaderDelivered == [](uhdr /\ (Flushing \/ ust = "end") ~> (chdr = 200 \/ Settled))
\* the same for an exchange that does not flush: this one is NOT promised (used to show the check can fail)
DeliveredAlways == \A i \in 1..MaxUnits : [](Len(sent) >= i ~> (Len(rcvd) >= i \/ Settled))

\* (failure mapping, liveness) a failure before the header is answered, a failure in the body ends the response
EarlyAnswered == /\ [](sc.refuse /\ pst = "start" ~> (chdr = 502 \/ cgone))
                 /\ [](ust = "dead" ~> (chdr \in {502, PartialHdrStatus} \/ cgone))
                 /\ [](ust = "slow" /\ sc.rht ~> (chdr = 504 \/ cgone))
BodyFailureSeen == [](ust \in {"cut", "rst"} ~> (cend = "aborted" \/ cgone \/ chdr = 502))   \* 502: the reset took the header with it
CleanEndSeen == [](ust = "end" ~> (cend = "complete" \/ cgone))

\* (release) whoever closes, the exchange ends and the upstream connection of an abandoned exchange is closed
Released == /\ [](cgone ~> pst \in {"idle", "done", "aborted", "answered", "canceled"})
            /\ [](cgone /\ uconn = "open" /\ pst \in {"wait", "copy"} ~> (uconn # "open" \/ pst = "done"))   \* done: the exchange completed, the connection is kept for reuse
            /\ [](ust \in {"cut", "rst", "dead"} ~> pst \in {"aborted", "answered", "canceled"})

\* (isolation) another request to the same target completes whatever the stream does
Isolated == [](ost = "started" ~> ost = "done")
=============================================================================
