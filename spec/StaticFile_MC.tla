---------------------------- MODULE StaticFile_MC ----------------------------
(* Case generator for the static / file backends: one case per (backend, routes text,  *)
(* no-route HTML option, text written to the file after the start).  `outcome` lists   *)
(* what the specification allows: with the file backend and no noroutehtmlpath the     *)
(* documented outcome and the deviation FileNeedsHtml ("failed") are both listed and   *)
(* the harness reports which one the binary showed.                                    *)
EXTENDS StaticFile, Json, TLC
Terminal == phase \in {"serving", "waiting", "failed"}
DocOutcome == IF Valid(loaded) THEN "serving" ELSE "waiting"
GenNext == \/ Boot \/ Apply
           \/ (phase \in {"serving", "waiting"} /\ \E t \in Texts : FileWrite(t))    \* the file is rewritten after the start only
GenSpec == Init /\ [][GenNext]_vars
Case == [backend |-> backend, text |-> (IF phase = "failed" THEN cfgText ELSE loaded), html |-> cfgHtml,
         write |-> (IF nw > 0 THEN fileText ELSE "none"),
         outcome |-> (IF phase = "failed" THEN {"failed", IF Valid(cfgText) THEN "serving" ELSE "waiting"} ELSE {phase}),
         routes |-> (IF phase = "failed" THEN RoutesOf(cfgText) ELSE table), body |-> html]
\* printed once per terminal state (MaxWrites = 1: not rewritten, or rewritten once)
GenOK == Terminal => PrintT(ToJson(Case))
=============================================================================
